"""C18 - WebSocket receive buffering (DESIGN.md section 3, C18).

In asyncio a task is preempted only at suspension points, so the hand-off
between the pump task and the application is decided through

R1  await-free check-then-register windows and mutate-then-notify;
R2  waiter hygiene (registration cleared on every exit incl. cancellation,
    notification clears the slot);
R3  FIFO polarity, the capacity gate in front of the append, the disconnect
    event enqueued at the same end and ending the pump.  The gate is decided per
    event in hand (ordinary message: flag down; disconnect marker: flag up):
    a message is appended only through an edge that cannot be taken while
    ``len(queue) >= capacity``.  The marker is not a message: on an UNBOUNDED
    deque it may skip the wait for room (lossless, order kept).  A deque built
    with ``maxlen`` = the capacity drops its oldest element on an append when
    full, so there the marker needs the same proof (seeded s4-c18-1; a bounded
    deque alone, with every append gated, never drops and is accepted; any other
    maxlen expression is an unknown idiom);
R4  lifecycle of the pump task (close -> stop first, stop cancels/awaits/clears,
    start idempotent and skipped for capacity 0, WebSocket bypass for 0).
R5  every framework path that ends a session passes a completed ``WebSocket.close()`` - the only caller of
    ``stop()`` - and is not guarded by ``closed``/``ready`` (= C17's ``r3_session_paths``, shared).
R6  ``receive()`` concludes "pump ended, no more messages" only inside the await-free section after the wait and
    only from "the registered future was not notified" or an explicit emptiness test of the queue.  "Not notified" is
    read from ``waiter.done()`` and from the sets returned by the wait (``done, pending = await asyncio.wait({...})``:
    ``waiter not in done`` / ``waiter in pending``); membership of the pump TASK in either set establishes nothing
    (both futures can be done when the receiver wakes; seeded s6-c18-3); any other use of the sets is an unknown idiom.

R8  the receive path in the UNBUFFERED mode as well (= C17's ``r1_receive_disconnect``, shared): a ``websocket.disconnect`` event in
    hand is reported as WebSocketDisconnected, leaves the state terminal by an assignment or a helper that records it with the
    receiver's flag DOWN (only the pump raises that flag; there is no pump for capacity 0), and the close code reported is taken
    from the event, not from ``client_disconnected_code`` (seeded s7-c18-1).

R9  ``ready`` / ``closed`` are complementary views over (state, client-disconnected flag): both property bodies are evaluated
    over every cell of {recorded state members} x {flag down, up}; ``ready`` => not ``closed``; ``closed`` == terminal state or flag
    (auto-mutation seed sa-am01220: ``ready`` without the flag conjunct).

``disconnect_flag_prompt`` (flag raised before the pump's next suspension) is registered under C17 as its R6.

Roles are derived, not named: the queue is the attribute initialised with
``collections.deque([[], maxlen])``, waiters are the attributes that receive the result of
``create_future()``, the task is the attribute that receives ``create_task()``,
the capacity is the attribute compared with ``len(queue)``.
"""

from __future__ import annotations

import ast
import copy
from typing import Dict, List, Optional, Set, Tuple

from .. import flow
from ..cfg import cfg_of
from ..model import AnchorError, Func, UnknownIdiom, short
from .c17_helpers import BUFRX, WS, WSModel, local_defs, possible, single_return_expr, with_inert
from .common import implied, single, strip_await, walk_self

FLAG = 'client_disconnected'


def _self_attr(e, attr=None):
    return isinstance(e, ast.Attribute) and isinstance(e.value, ast.Name) and e.value.id == 'self' and (attr is None or e.attr == attr)


def _stores(func: Func):
    """(attr, value expr, Assign node) for every `self.attr = value` in func"""
    out = []
    for n in walk_self(func.node):
        if isinstance(n, ast.Assign):
            for t in n.targets:
                if _self_attr(t):
                    out.append((t.attr, n.value, n))
        elif isinstance(n, ast.AnnAssign) and _self_attr(n.target) and n.value is not None:
            out.append((n.target.attr, n.value, n))
    return out


def _is_none(e):
    return isinstance(e, ast.Constant) and e.value is None


def feasible(cfg, atom):
    cache: Dict[int, Set[bool]] = {}
    # a parameter with a constant default that no call of the package supplies evaluates as that default
    atom = with_inert(getattr(cfg, 'project', None), getattr(cfg, 'func', None), atom)

    def ok(a, b, l):
        n = cfg.node(a)
        if n.kind == 'test' and l in ('T', 'F'):
            cond, want = n.ast, l == 'T'
        elif n.kind == 'stmt' and isinstance(n.ast, ast.Assert) and l != 'exc':
            cond, want = n.ast.test, True
        else:
            return True
        if a not in cache:
            cache[a] = possible(cond, atom)
        return want in cache[a]

    return ok


# ---------------------------------------------------------------------------
# normalised view of a method: same-class helpers inlined, constructor-only attributes read through once-bound locals
# ---------------------------------------------------------------------------

INLINE_DEPTH = 3


def _body_wo_doc(node) -> List[ast.stmt]:
    body = list(node.body)
    if body and isinstance(body[0], ast.Expr) and isinstance(body[0].value, ast.Constant) and isinstance(body[0].value.value, str):
        body = body[1:]
    return body


def _stored_names(node) -> Set[str]:
    out = set()
    for x in walk_self(node):
        if isinstance(x, ast.Name) and isinstance(x.ctx, (ast.Store, ast.Del)):
            out.add(x.id)
        elif isinstance(x, ast.ExceptHandler) and x.name:
            out.add(x.name)
    return out


class _Rename(ast.NodeTransformer):
    def __init__(self, mapping):
        self.mapping = mapping

    def visit_Name(self, n):
        if n.id in self.mapping:
            return ast.copy_location(ast.Name(id=self.mapping[n.id], ctx=n.ctx), n)
        return n

    def visit_ExceptHandler(self, n):
        self.generic_visit(n)
        if n.name in self.mapping:
            n.name = self.mapping[n.name]
        return n


class ClassView:
    """Reads a method of one class the way the interpreter executes it, for the rules that judge a protocol spread over
    statements of ONE function (check / register / mutate / notify / suspend):

    * a call ``self.helper(args)`` that stands alone as a statement (or ``x = self.helper(args)``, or the awaited forms for a
      coroutine helper) of a plain method of the same class whose only ``return`` is its last statement is replaced by the
      helper's body, its parameters bound to the arguments and its locals renamed apart (a call is not a suspension point; the
      helper's own awaits are kept) - bounded depth, no recursion;
    * a local bound exactly once to ``self.<attr>[.<name>...]`` where ``<attr>`` is assigned in ``__init__`` and nowhere else
      in the project is replaced by that expression where it is read (the object cannot change, so the snapshot cannot be
      stale; in-place mutation goes through the same object).

    A method that needs neither is returned as it is (same Func, same AST).  A helper that cannot be inlined is left as a call;
    `opaque_calls` lists those so that a rule can refuse (unknown idiom) instead of judging code it did not read."""

    def __init__(self, p, cls):
        self.p = p
        self.cls = cls
        self._views: Dict[str, Func] = {}
        self._absorbed: Dict[str, bool] = {}
        self.opaque: Dict[str, List[Tuple[ast.Call, Func, str]]] = {}
        init = cls.methods.get('__init__')
        ctor = {a for a, _v, _n in _stores(init)} if init is not None else set()
        if ctor:
            # writers: `self.<attr>` in another method of this class / a related class; `<anything else>.<attr>` anywhere (the
            # receiver is not known); setattr/delattr.  `self.<attr>` in a method of an unrelated class is another object.
            for g in p.all_functions():
                if init is not None and g is init:
                    continue
                own = g
                while own is not None and own.cls is None:
                    own = own.parent
                ocls = own.cls if own is not None else None
                related = ocls is not None and (ocls is cls or p.is_subclass(ocls.qual, cls.qual) is not False
                                                or p.is_subclass(cls.qual, ocls.qual) is not False)
                for x in walk_self(g.node):
                    if isinstance(x, ast.Attribute) and isinstance(x.ctx, (ast.Store, ast.Del)) and x.attr in ctor:
                        if related or not (isinstance(x.value, ast.Name) and x.value.id == 'self'):
                            ctor.discard(x.attr)
                    elif isinstance(x, ast.Call) and isinstance(x.func, ast.Name) and x.func.id in ('setattr', 'delattr') and len(x.args) >= 2:
                        k = x.args[1]
                        if isinstance(k, ast.Constant):
                            ctor.discard(k.value)
                        elif related:
                            ctor.clear()
        self.ctor_only: Set[str] = ctor

    # -- inlining
    def _helper(self, call) -> Optional[Func]:
        f = call.func
        if isinstance(f, ast.Attribute) and isinstance(f.value, ast.Name) and f.value.id == 'self':
            m = self.p.lookup_method(self.cls.qual, f.attr)
            if isinstance(m, Func) and not m.is_property() and func_cls_is(m, self.cls, self.p):
                return m
        return None

    def _why_not(self, m: Func, call: ast.Call, awaited: bool) -> Optional[str]:
        if m.decorators:
            return 'it is decorated'
        if m.is_async != awaited:
            return 'a coroutine method is not awaited on the spot' if m.is_async else 'a plain method is awaited'
        a = m.node.args
        if a.vararg or a.kwarg or a.posonlyargs or a.kwonlyargs:
            return 'its signature has */** / keyword-only parameters'
        if any(isinstance(x, ast.Starred) for x in call.args) or any(k.arg is None for k in call.keywords):
            return 'it is called with */**'
        for x in walk_self(m.node):
            if isinstance(x, (ast.Yield, ast.YieldFrom, ast.Global, ast.Nonlocal, ast.FunctionDef, ast.AsyncFunctionDef, ast.ClassDef)) and x is not m.node:
                return 'it contains %s' % type(x).__name__
        body = self._norm_body(m)
        for st in body:
            for x in walk_self(st):
                if isinstance(x, ast.Return) and x is not body[-1]:
                    return 'it returns from inside a compound statement or with a value before its last statement'
        return None

    def _norm_body(self, m: Func) -> List[ast.stmt]:
        """the helper's statements (a fresh copy) with leading guards ``if c: return`` (no value, no else) turned into
        ``if not c: <rest>`` - the same paths, and the only ``return`` left, if any, is the last statement"""
        def fold(stmts: List[ast.stmt]) -> List[ast.stmt]:
            for i, st in enumerate(stmts):
                if isinstance(st, ast.If) and not st.orelse and len(st.body) == 1 and isinstance(st.body[0], ast.Return) and st.body[0].value is None:
                    rest = fold(stmts[i + 1:])
                    if rest and isinstance(rest[-1], ast.Return):
                        return stmts        # the remainder hands back a value: not a pure guard
                    if not rest:
                        return stmts[:i] + [ast.copy_location(ast.Expr(value=st.test), st)]
                    neg = ast.copy_location(ast.UnaryOp(op=ast.Not(), operand=st.test), st.test)
                    return stmts[:i] + [ast.copy_location(ast.If(test=neg, body=rest, orelse=[]), st)]
            if stmts and isinstance(stmts[-1], ast.Return) and stmts[-1].value is None:
                return stmts[:-1]
            return stmts
        return fold([copy.deepcopy(b) for b in _body_wo_doc(m.node)])

    def _bind(self, m: Func, call: ast.Call, ren) -> Optional[List[ast.stmt]]:
        params = [x.arg for x in m.node.args.args]
        if not params or params[0] != 'self':
            return None
        params = params[1:]
        defaults = m.node.args.defaults
        dflt = dict(zip(params[len(params) - len(defaults):], defaults)) if defaults else {}
        given: Dict[str, ast.AST] = {}
        if len(call.args) > len(params):
            return None
        for prm, a in zip(params, call.args):
            given[prm] = a
        for kw in call.keywords:
            if kw.arg not in params or kw.arg in given:
                return None
            given[kw.arg] = kw.value
        out = []
        for prm in params:
            v = given.get(prm, dflt.get(prm))
            if v is None:
                return None
            out.append(ast.copy_location(ast.Assign(targets=[ast.copy_location(ast.Name(id=ren[prm], ctx=ast.Store()), call)],
                                                    value=copy.deepcopy(v), lineno=call.lineno), call))
        return out

    def _inline_block(self, owner: Func, stmts: List[ast.stmt], depth: int, stack: Tuple[str, ...], counter: List[int], notes) -> Tuple[List[ast.stmt], bool]:
        out: List[ast.stmt] = []
        changed = False
        for s in stmts:
            for fld in ('body', 'orelse', 'finalbody'):
                blk = getattr(s, fld, None)
                if isinstance(blk, list) and blk and isinstance(blk[0], ast.stmt) and not isinstance(s, (ast.FunctionDef, ast.AsyncFunctionDef, ast.ClassDef)):
                    nb, ch = self._inline_block(owner, blk, depth, stack, counter, notes)
                    if ch:
                        setattr(s, fld, nb)
                        changed = True
            for h in getattr(s, 'handlers', []) or []:
                nb, ch = self._inline_block(owner, h.body, depth, stack, counter, notes)
                if ch:
                    h.body = nb
                    changed = True
            for cs in getattr(s, 'cases', []) or []:
                nb, ch = self._inline_block(owner, cs.body, depth, stack, counter, notes)
                if ch:
                    cs.body = nb
                    changed = True
            target = None
            val = None
            if isinstance(s, ast.Expr):
                val = s.value
            elif isinstance(s, ast.Assign) and len(s.targets) == 1:
                val, target = s.value, s
            elif isinstance(s, ast.AnnAssign) and s.value is not None:
                val, target = s.value, s
            elif isinstance(s, ast.Return) and s.value is not None:
                val, target = s.value, s
            awaited = isinstance(val, ast.Await)
            call = val.value if awaited else val
            m = self._helper(call) if isinstance(call, ast.Call) else None
            if m is None:
                out.append(s)
                continue
            why = self._why_not(m, call, awaited)
            if why is None and (depth >= INLINE_DEPTH or m.qual in stack):
                why = 'the chain of helpers is deeper than %d or recursive' % INLINE_DEPTH
            ren = None
            binds = None
            if why is None:
                counter[0] += 1
                names = (set(x.arg for x in m.node.args.args) | _stored_names(m.node)) - {'self'}
                ren = {nm: '%s__%s%d' % (nm, m.name.strip('_'), counter[0]) for nm in names}
                binds = self._bind(m, call, ren)
                if binds is None:
                    why = 'its arguments cannot be matched with its parameters'
            if why is not None:
                notes.append((call, m, why))
                out.append(s)
                continue
            body = [_Rename(ren).visit(b) for b in self._norm_body(m)]
            ret = None
            if body and isinstance(body[-1], ast.Return):
                ret = body.pop().value
            body, _ch = self._inline_block(owner, body, depth + 1, stack + (m.qual,), counter, notes)
            res = ret if ret is not None else ast.copy_location(ast.Constant(value=None), call)
            if target is None:
                tail = [ast.copy_location(ast.Expr(value=res), s)] if ret is not None else []
            else:
                tail_stmt = copy.copy(target)
                tail_stmt.value = res
                tail = [tail_stmt]
            out.extend(binds + body + tail)
            changed = True
        return out, changed

    # -- constructor-only attributes read through a once-bound local
    def _ctor_chain(self, e) -> bool:
        n = 0
        while isinstance(e, ast.Attribute) and isinstance(e.ctx, ast.Load) and n < 3:
            if isinstance(e.value, ast.Name) and e.value.id == 'self':
                return e.attr in self.ctor_only
            e = e.value
            n += 1
        return False

    def _once_bound(self, node, params) -> Dict[str, ast.AST]:
        cnt: Dict[str, int] = {}
        val: Dict[str, ast.AST] = {}
        for x in walk_self(node):
            if isinstance(x, ast.Name) and isinstance(x.ctx, (ast.Store, ast.Del)):
                cnt[x.id] = cnt.get(x.id, 0) + 1
            elif isinstance(x, ast.ExceptHandler) and x.name:
                cnt[x.name] = cnt.get(x.name, 0) + 2
            if isinstance(x, ast.Assign) and len(x.targets) == 1 and isinstance(x.targets[0], ast.Name):
                val[x.targets[0].id] = x.value
            elif isinstance(x, ast.AnnAssign) and isinstance(x.target, ast.Name) and x.value is not None:
                val[x.target.id] = x.value
        return {k: v for k, v in val.items() if cnt.get(k) == 1 and k not in params and self._ctor_chain(v)}

    def absorbed(self, h: Func) -> bool:
        """`h` is a private helper that exists only inside the views of its callers: every mention of its name in the project is
        a call ``self.<name>(...)`` in statement position in a method of the class, and each of them can be inlined.  Such a method
        is not an entry point of its own; judging it alone would judge half a protocol."""
        if h.qual in self._absorbed:
            return self._absorbed[h.qual]
        ok = h.name.startswith('_') and not h.name.startswith('__') and self.p.lookup_method(self.cls.qual, h.name) is h
        n_ok = 0
        if ok:
            sites = set()
            for m in self.cls.methods.values():
                if m is h:
                    if any(isinstance(x, ast.Attribute) and x.attr == h.name for x in ast.walk(m.node)):
                        ok = False
                    continue
                for st in walk_self(m.node):
                    val = st.value if isinstance(st, (ast.Expr, ast.Assign, ast.AnnAssign, ast.Return)) else None
                    awaited = isinstance(val, ast.Await)
                    call = val.value if awaited else val
                    if isinstance(call, ast.Call) and self._helper(call) is h and self._why_not(h, call, awaited) is None \
                            and not (isinstance(st, ast.Assign) and len(st.targets) != 1):
                        sites.add(id(call.func))
            n_ok = len(sites)
            if ok:
                for mod in self.p.modules.values():
                    for x in ast.walk(mod.tree):
                        if isinstance(x, ast.Attribute) and x.attr == h.name and id(x) not in sites:
                            ok = False
                        elif isinstance(x, ast.Constant) and x.value == h.name:
                            ok = False      # getattr(obj, '<name>') and the like
        self._absorbed[h.qual] = bool(ok and n_ok)
        return self._absorbed[h.qual]

    def view(self, f: Func) -> Func:
        if f.qual in self._views:
            return self._views[f.qual]
        notes: List[Tuple[ast.Call, Func, str]] = []
        needs = any(isinstance(c, ast.Call) and self._helper(c) is not None for c in walk_self(f.node)) \
            or bool(self._once_bound(f.node, set(f.params())))
        g = f
        if needs:
            node = copy.deepcopy(f.node)
            body, ch1 = self._inline_block(f, node.body, 0, (f.qual,), [0], notes)
            node.body = body
            al = self._once_bound(node, set(f.params()))
            if al:
                class Sub(ast.NodeTransformer):
                    def visit_Name(self, n):
                        if isinstance(n.ctx, ast.Load) and n.id in al:
                            return ast.copy_location(copy.deepcopy(al[n.id]), n)
                        return n
                node = Sub().visit(node)
            if ch1 or al:
                ast.fix_missing_locations(node)
                g = Func(node, f.qual, f.module, f.cls, f.parent)
                g.nested = f.nested
                g.origin = f
        # calls of same-class methods the view still contains (not inlined, or used inside an expression)
        left = []
        for c in walk_self(g.node):
            if isinstance(c, ast.Call):
                m = self._helper(c)
                if m is not None:
                    why = next((w for (c0, m0, w) in notes if m0 is m), 'the call is part of a larger expression')
                    left.append((c, m, why))
        self.opaque[f.qual] = left
        self._views[f.qual] = g
        return g


def func_cls_is(m: Func, cls, p) -> bool:
    return m.cls is not None and (m.cls is cls or p.is_subclass(cls.qual, m.cls.qual) is True)


class BRModel:
    def __init__(self, p):
        self.p = p
        self.cls = p.cls(BUFRX)
        self.init = p.func(BUFRX + '.__init__')
        self.views = ClassView(p, self.cls)
        self.methods = [f if f is self.init else self.views.view(f) for _n, f in sorted(self.cls.methods.items())
                        if f is self.init or not self.views.absorbed(f)]
        self._by_qual = {f.qual: f for f in self.methods}
        self.queue = None
        for attr, val, _n in _stores(self.init):
            if isinstance(val, ast.Call) and not val.args and not val.keywords:
                # `self._messages = _new_queue()` with `return collections.deque()`: a parameterless one-expression factory of the
                # module / class is what it returns
                g = p.callee(self.init, val)
                body = single_return_expr(g) if isinstance(g, Func) and not g.is_async else None
                if isinstance(body, ast.Call) and p.resolve_expr(g.module, body.func, g) == 'collections.deque' \
                        and not any(isinstance(x, ast.Name) and x.id in g.params() for a in list(body.args) + [k.value for k in body.keywords] for x in ast.walk(a)):
                    val = body
                    if p.resolve_expr(self.init.module, body.func, self.init) != 'collections.deque':
                        raise UnknownIdiom('%s: the queue factory %s lives in a module that names deque differently' % (self.init.qual, g.qual))
            if isinstance(val, ast.Call) and p.resolve_expr(self.init.module, val.func, self.init) == 'collections.deque':
                # deque([iterable[, maxlen]]): an initial content is not modelled; a maxlen makes the CONTAINER drop the oldest
                # element when something is appended to a full queue - classified below, decided by R3
                content = val.args[0] if val.args else None
                bound = val.args[1] if len(val.args) > 1 else None
                for kw in val.keywords:
                    if kw.arg == 'maxlen' and bound is None:
                        bound = kw.value
                    elif kw.arg == 'iterable' and content is None:
                        content = kw.value
                    else:
                        raise UnknownIdiom('%s: deque constructed as %s' % (self.init.qual, short(val)))
                if len(val.args) > 2 or (content is not None and not (isinstance(content, (ast.List, ast.Tuple)) and not content.elts)):
                    raise UnknownIdiom('%s: deque constructed with an initial content (%s)' % (self.init.qual, short(val)))
                self.queue = attr
                self.q_ctor = val
                self.q_bound_expr = bound
        if self.queue is None:
            raise AnchorError('%s.__init__: no attribute initialised with collections.deque()' % BUFRX)
        if not any(a == FLAG for a, _v, _n in _stores(self.init)):
            raise AnchorError('%s.__init__ does not initialise %s' % (BUFRX, FLAG))
        # queue operations
        self.q_ops: List[Tuple[Func, str, ast.Call]] = []
        for f in self.methods:
            for c in walk_self(f.node):
                if isinstance(c, ast.Call) and isinstance(c.func, ast.Attribute) and _self_attr(c.func.value, self.queue):
                    self.q_ops.append((f, c.func.attr, c))
            for n in walk_self(f.node):
                if f is not self.init and isinstance(n, (ast.Assign, ast.AugAssign, ast.Delete)):
                    tg = n.targets if not isinstance(n, ast.AugAssign) else [n.target]
                    for t in tg:
                        if _self_attr(t, self.queue) or (isinstance(t, ast.Subscript) and _self_attr(t.value, self.queue)):
                            raise UnknownIdiom('%s rebinds/edits the queue: %s' % (f.qual, short(n)))
        self.producers = sorted({f.qual for f, m, _c in self.q_ops if m in ('append', 'appendleft')})
        self.consumers = sorted({f.qual for f, m, _c in self.q_ops if m in ('pop', 'popleft')})
        if len(self.producers) != 1 or len(self.consumers) != 1:
            raise UnknownIdiom('%s: expected one producer and one consumer of the queue, found %s / %s' % (BUFRX, self.producers, self.consumers))
        self.producer = self._by_qual[self.producers[0]]
        self.consumer = self._by_qual[self.consumers[0]]
        # waiters: attributes that receive a create_future() result
        self.waiters: Dict[str, Set[str]] = {}
        for f in self.methods:
            for attr, val, _n in _stores(f):
                if self._is_future(f, val):
                    self.waiters.setdefault(attr, set()).add(f.qual)
        self.pop_waiter = self._one_waiter(self.consumer)
        self.put_waiter = self._one_waiter(self.producer, optional=True)
        if self.pop_waiter == self.put_waiter:
            raise UnknownIdiom('one waiter slot used for both directions')
        # task
        self.task = None
        self.starter = None
        for f in self.methods:
            for attr, val, _n in _stores(f):
                v = strip_await(val)
                if isinstance(v, ast.Call) and isinstance(v.func, ast.Attribute) and v.func.attr in ('create_task', 'ensure_future'):
                    self.task, self.starter = attr, f
        if self.task is None:
            raise AnchorError('%s: no attribute receives create_task(...)' % BUFRX)
        # capacity attribute: def-use chain from the public option ws_options.max_receive_queue
        #   _handle_websocket: WebSocket(..., <x>.max_receive_queue, ...) -> WebSocket.__init__ parameter
        #   -> _BufferedReceiver(..., <that parameter>) -> _BufferedReceiver.__init__ parameter -> self.<cap>
        hw = p.func('falcon.asgi.app.App._handle_websocket')
        wsinit = p.func(WS + '.__init__')
        wscls = p.cls(WS)
        self.ws_cap_param = None
        for c in walk_self(hw.node):
            if isinstance(c, ast.Call) and p.resolve_callable(hw, c.func) is wscls:
                wp = [a for a in wsinit.params() if a != 'self']
                for i, a in enumerate(c.args):
                    if isinstance(a, ast.Attribute) and a.attr == 'max_receive_queue' and i < len(wp):
                        self.ws_cap_param = wp[i]
                for kw in c.keywords:
                    if isinstance(kw.value, ast.Attribute) and kw.value.attr == 'max_receive_queue':
                        self.ws_cap_param = kw.arg
        if self.ws_cap_param is None:
            raise AnchorError('%s: ws_options.max_receive_queue is not passed to WebSocket()' % hw.qual)
        self.cap_param = None
        self.ws_ctor = None
        bp = [a for a in self.init.params() if a != 'self']
        for c in walk_self(wsinit.node):
            if isinstance(c, ast.Call) and p.resolve_callable(wsinit, c.func) is self.cls:
                self.ws_ctor = c
                for i, a in enumerate(c.args):
                    if isinstance(a, ast.Name) and a.id == self.ws_cap_param and i < len(bp):
                        self.cap_param = bp[i]
                for kw in c.keywords:
                    if isinstance(kw.value, ast.Name) and kw.value.id == self.ws_cap_param:
                        self.cap_param = kw.arg
        if self.cap_param is None:
            raise AnchorError('%s: the queue capacity is not passed to _BufferedReceiver()' % wsinit.qual)
        caps = [attr for attr, val, _n in _stores(self.init) if isinstance(val, ast.Name) and val.id == self.cap_param]
        self.cap = single(caps, 'attribute holding the capacity', self.init.qual)
        self.q_bound = self._classify_bound(self.q_bound_expr)
        for f in self.methods:
            if f is not self.init and any(attr == self.cap for attr, _v, _n in _stores(f)):
                raise UnknownIdiom('%s rewrites the capacity' % f.qual)
        # raw receive of the receiver
        self.raw_recv = None
        for attr, val, _n in _stores(self.init):
            if isinstance(val, ast.Name) and val.id in self.init.params() and attr != self.cap:
                if any(isinstance(c, ast.Call) and _self_attr(c.func, attr) for c in walk_self(self.producer.node)):
                    self.raw_recv = attr
        if self.raw_recv is None:
            raise AnchorError('%s: the pump does not call a constructor-supplied receive callable' % self.producer.qual)
        self.refuse_opaque(self.producer)
        self.refuse_opaque(self.consumer)

    def refuse_opaque(self, f: Func):
        """A same-class helper the view could not inline that takes part in the hand-off (touches the queue, a waiter slot, the
        flag or the task, or suspends) was not read: the protocol rules must not judge its caller without it."""
        roles = {self.queue, self.pop_waiter, self.put_waiter, self.task, FLAG} - {None}
        for (c, m, why) in self.views.opaque.get(f.qual, []):
            if m.is_async or any(isinstance(x, ast.Attribute) and x.attr in roles for x in ast.walk(m.node)):
                raise UnknownIdiom('%s: %s takes part in the queue hand-off but cannot be read in place (%s)' % (f.qual, short(c), why))

    def _classify_bound(self, b) -> Optional[str]:
        """None: the container is unbounded; 'cap': its maxlen is the configured capacity (or None for some
        configurations) - never smaller than the bound the gate enforces; 'unknown': anything else."""
        def is_cap(x):
            return (isinstance(x, ast.Name) and x.id == self.cap_param) or _self_attr(x, self.cap)
        if b is None or _is_none(b):
            return None
        if is_cap(b):
            return 'cap'
        if isinstance(b, ast.BoolOp) and isinstance(b.op, ast.Or) and len(b.values) == 2 and is_cap(b.values[0]) and _is_none(b.values[1]):
            return 'cap'
        if isinstance(b, ast.IfExp) and ((is_cap(b.body) and _is_none(b.orelse)) or (_is_none(b.body) and is_cap(b.orelse))):
            return 'cap'
        return 'unknown'

    def _is_future(self, f: Func, val) -> bool:
        v = strip_await(val)
        if isinstance(v, ast.Name) and v.id not in f.params():
            ds = local_defs(f, v.id)
            return len(ds) == 1 and ds[0] is not None and self._is_future(f, ds[0])
        return isinstance(v, ast.Call) and isinstance(v.func, ast.Attribute) and v.func.attr == 'create_future'

    def _one_waiter(self, f: Func, optional=False) -> Optional[str]:
        ws = sorted(a for a, fs in self.waiters.items() if f.qual in fs)
        if not ws and optional:
            return None
        if len(ws) != 1:
            raise AnchorError('%s: expected exactly one waiter registration, found %s' % (f.qual, ws))
        if len(self.waiters[ws[0]]) != 1:
            raise UnknownIdiom('waiter %s registered in several functions' % ws[0])
        return ws[0]

    # ---------------------------------------------------------------- atoms
    def is_len_q(self, e) -> bool:
        return (isinstance(e, ast.Call) and isinstance(e.func, ast.Name) and e.func.id == 'len' and len(e.args) == 1
                and _self_attr(e.args[0], self.queue))

    def _len_cmp_const(self, e):
        """set of small lengths for which `len(queue) <op> k` holds, or None"""
        if isinstance(e, ast.Compare) and len(e.ops) == 1:
            a, b, op = e.left, e.comparators[0], e.ops[0]
            flip = False
            if self.is_len_q(b) and isinstance(a, ast.Constant):
                a, b, flip = b, a, True
            if self.is_len_q(a) and isinstance(b, ast.Constant) and isinstance(b.value, int) and not isinstance(b.value, bool):
                k = b.value
                import operator
                fn = {ast.Gt: operator.gt, ast.GtE: operator.ge, ast.Lt: operator.lt, ast.LtE: operator.le, ast.Eq: operator.eq,
                      ast.NotEq: operator.ne}.get(type(op))
                if fn is None:
                    return None
                rng = range(0, abs(k) + 4)
                return frozenset(n for n in rng if (fn(k, n) if flip else fn(n, k))), frozenset(rng)
        return None

    def nonempty(self, e) -> Optional[bool]:
        """e == 'queue is non-empty' -> True ; e == 'queue is empty' -> False ; else None"""
        if _self_attr(e, self.queue) or self.is_len_q(e):
            return True
        r = self._len_cmp_const(e)
        if r is not None:
            sat, rng = r
            if sat == rng - {0}:
                return True
            if sat == frozenset([0]):
                return False
        return None

    def full(self, e) -> Optional[bool]:
        """e == 'len(queue) >= capacity' -> True ; e == 'len(queue) < capacity' -> False ; else None"""
        if isinstance(e, ast.Compare) and len(e.ops) == 1:
            a, b, op = e.left, e.comparators[0], e.ops[0]
            if self.is_len_q(a) and _self_attr(b, self.cap):
                if isinstance(op, ast.GtE):
                    return True
                if isinstance(op, ast.Lt):
                    return False
            if self.is_len_q(b) and _self_attr(a, self.cap):
                if isinstance(op, ast.LtE):
                    return True
                if isinstance(op, ast.Gt):
                    return False
        return None

    def fullish(self, e) -> Optional[bool]:
        """any ordering test between len(queue) and the capacity: polarity 'at/over the limit'"""
        if isinstance(e, ast.Compare) and len(e.ops) == 1:
            a, b, op = e.left, e.comparators[0], e.ops[0]
            if self.is_len_q(b) and _self_attr(a, self.cap):
                a, b = b, a
                op = {ast.Lt: ast.Gt, ast.LtE: ast.GtE, ast.Gt: ast.Lt, ast.GtE: ast.LtE}.get(type(op), type(op))()
            if self.is_len_q(a) and _self_attr(b, self.cap):
                if isinstance(op, (ast.GtE, ast.Gt, ast.Eq)):
                    return True
                if isinstance(op, (ast.Lt, ast.LtE, ast.NotEq)):
                    return False
        return None

    def check_queue_tests(self, f: Func, cfg):
        """every branch condition that mentions the queue must be of a recognised form"""
        def leaves(e):
            e = strip_await(e)
            if isinstance(e, ast.BoolOp):
                for v in e.values:
                    yield from leaves(v)
            elif isinstance(e, ast.UnaryOp) and isinstance(e.op, ast.Not):
                yield from leaves(e.operand)
            else:
                yield e
        for t in cfg.live_nodes():
            cond = t.ast if t.kind == 'test' else (t.ast.test if t.kind == 'stmt' and isinstance(t.ast, ast.Assert) else None)
            if cond is None:
                continue
            for leaf in leaves(cond):
                if any(_self_attr(x, self.queue) for x in walk_self(leaf)):
                    if not (_self_attr(leaf, self.queue) or self.is_len_q(leaf) or self._len_cmp_const(leaf) is not None or self.fullish(leaf) is not None):
                        raise UnknownIdiom('%s: test on the queue of an unknown form: %s' % (f.qual, short(leaf)))

    def edges_implying(self, cfg, pred, value: bool):
        """CFG edges on which the atom recognised by `pred` (returning True/False polarity) has truth `value`."""
        out = []
        for t in cfg.live_nodes():
            if t.kind != 'test':
                continue
            for lab, truth in (('T', True), ('F', False)):
                for pol in (True, False):
                    r = implied(t.ast, truth, lambda e, pol=pol: pred(e) is pol)
                    if r is not None and (r if pol else not r) == value:
                        out.extend(flow.edges_out(cfg, t.id, lab))
        return out

    def aliases(self, f: Func, attr: str) -> Set[str]:
        """locals that are single-assignment copies of self.<attr>"""
        key = (f.qual, attr)
        c = self.__dict__.setdefault('_alias_cache', {})
        if key not in c:
            out = set()
            for n in walk_self(f.node):
                if isinstance(n, ast.Assign) and len(n.targets) == 1 and isinstance(n.targets[0], ast.Name) and _self_attr(n.value, attr):
                    name = n.targets[0].id
                    if len(local_defs(f, name)) == 1 and name not in f.params():
                        out.add(name)
            c[key] = out
        return c[key]

    def ref(self, f: Optional[Func], e, attr: str) -> bool:
        if _self_attr(e, attr):
            return True
        return f is not None and isinstance(e, ast.Name) and e.id in self.aliases(f, attr)

    def waiter_set(self, e, w, f=None) -> Optional[bool]:
        """e == 'self.w is not None' -> True; 'self.w is None' -> False"""
        if self.ref(f, e, w):
            return True
        if isinstance(e, ast.Compare) and len(e.ops) == 1 and self.ref(f, e.left, w) and _is_none(e.comparators[0]):
            if isinstance(e.ops[0], ast.IsNot):
                return True
            if isinstance(e.ops[0], ast.Is):
                return False
        return None

    def reg_nodes(self, f: Func, cfg, w) -> List[int]:
        out = []
        for n in cfg.live_nodes():
            if n.kind == 'stmt' and isinstance(n.ast, (ast.Assign, ast.AnnAssign)):
                tg = n.ast.targets if isinstance(n.ast, ast.Assign) else [n.ast.target]
                if any(_self_attr(t, w) for t in tg) and self._is_future(f, n.ast.value):
                    out.append(n.id)
        return out

    def clear_nodes(self, cfg, w) -> List[int]:
        out = []
        for n in cfg.live_nodes():
            if n.kind == 'stmt' and isinstance(n.ast, (ast.Assign, ast.AnnAssign)):
                tg = n.ast.targets if isinstance(n.ast, ast.Assign) else [n.ast.target]
                if any(_self_attr(t, w) for t in tg) and _is_none(n.ast.value):
                    out.append(n.id)
        return out

    def notify_nodes(self, cfg, w) -> List[int]:
        out = []
        for n in cfg.live_nodes():
            for c in n.calls():
                if isinstance(c.func, ast.Attribute) and c.func.attr == 'set_result' and self.ref(cfg.func, c.func.value, w):
                    out.append(n.id)
        return out

    def q_nodes(self, cfg, methods) -> List[int]:
        return [n.id for n in cfg.live_nodes() for c in n.calls()
                if isinstance(c.func, ast.Attribute) and c.func.attr in methods and _self_attr(c.func.value, self.queue)]


def _br(run) -> BRModel:
    m = getattr(run, '_c18_model', None)
    if m is None:
        m = BRModel(run.project)
        run._c18_model = m
    return m


def _susp(cfg) -> List[int]:
    return [n.id for n in cfg.live_nodes() if n.susp]


# ---------------------------------------------------------------------------
# R1
# ---------------------------------------------------------------------------

def r1_windows(run):
    p = run.project
    br = _br(run)
    run.extra['c18_roles'] = {'queue': br.queue, 'pop_waiter': br.pop_waiter, 'put_waiter': br.put_waiter, 'task': br.task,
                              'capacity': br.cap, 'producer': br.producer.qual, 'consumer': br.consumer.qual}
    # (a) check-then-register windows
    for f, w, pred, value, what in ((br.consumer, br.pop_waiter, br.nonempty, False, 'the queue is seen empty'),
                                    (br.producer, br.put_waiter, br.fullish, True, 'the queue is seen full')):
        if w is None:
            continue
        cfg = cfg_of(f, p)
        run.use_cfg(cfg)
        br.check_queue_tests(f, cfg)
        regs = br.reg_nodes(f, cfg, w)
        if not regs:
            raise AnchorError('%s: registration of %s not found' % (f.qual, w))
        edges = br.edges_implying(cfg, pred, value)
        for r in regs:
            # the registration happens only after the check said so
            path = flow.find_path(cfg, [cfg.entry], [r], avoid_edges=edges)
            run.check(path is None, '%s: the waiter is registered only after %s' % (f.name, what), f, cfg.node(r).ast,
                      witness=flow.describe_path(cfg, path) if path else None,
                      runtime_witness='a waiter is parked although the condition it waits for does not hold -> a satisfiable receive '
                                      '(or a pump with free capacity) is left waiting')
            tests = {e[0] for e in edges}
            window = flow.reachable(cfg, [e[1] for e in edges], avoid_nodes=tests | {r}) & flow.co_reachable(cfg, [r], avoid_nodes=tests)
            window.discard(r)
            bad = [n for n in sorted(window) if cfg.node(n).susp]
            if cfg.node(r).susp:
                bad.append(r)
            # a suspending test is itself part of the window
            bad += [t for t in tests if cfg.node(t).susp]
            run.check(not bad, '%s: no suspension point between the test in which %s and the registration of the waiter' % (f.name, what),
                      f, cfg.node(r).ast, witness=['%s:%s %s' % (f.file, cfg.node(b).lineno, cfg.node(b).text()) for b in bad],
                      runtime_witness='the other task changes the queue and notifies nobody while this one is suspended inside the window; '
                                      'it then parks on a waiter nobody will resolve')
    # (b) mutate-then-notify
    for f, muts, w, what in ((br.producer, ('append', 'appendleft'), br.pop_waiter, 'enqueued message'),
                             (br.consumer, ('pop', 'popleft'), br.put_waiter, 'freed slot')):
        if w is None:
            continue
        cfg = cfg_of(f, p)
        run.use_cfg(cfg)
        mnodes = br.q_nodes(cfg, muts)
        if not mnodes:
            raise AnchorError('%s: queue mutation not found' % f.qual)
        notif = br.notify_nodes(cfg, w)
        none_edges = br.edges_implying(cfg, lambda e: br.waiter_set(e, w, f), False)
        set_edges = br.edges_implying(cfg, lambda e: br.waiter_set(e, w, f), True)
        goals = set(_susp(cfg)) | {cfg.exit}
        for mn in mnodes:
            starts = [y for (y, l) in cfg.succ[mn] if l != 'exc']
            path = flow.find_path(cfg, starts, goals, avoid_nodes=notif, avoid_edges=none_edges, edge_filter=flow.no_exc)
            if cfg.node(mn).susp:
                path = [mn]
            run.check(path is None, '%s: every %s is announced to the parked waiter (or the slot is seen empty) before the next suspension point' % (f.name, what),
                      f, cfg.node(mn).ast, witness=flow.describe_path(cfg, [mn] + path) if path else None,
                      runtime_witness='the peer task stays parked although the queue changed -> a satisfiable receive (or a pump with free capacity) waits forever')
        for nn in notif:
            run.check(any(flow.dominated_by_edge(cfg, nn, e) for e in set_edges), '%s: the notification is guarded by a test that the waiter slot is occupied' % f.name,
                      f, cfg.node(nn).ast, runtime_witness='AttributeError on None when nobody waits')


# ---------------------------------------------------------------------------
# R2
# ---------------------------------------------------------------------------

def r2_hygiene(run):
    p = run.project
    br = _br(run)
    for f, w in ((br.consumer, br.pop_waiter), (br.producer, br.put_waiter)):
        if w is None:
            continue
        cfg = cfg_of(f, p)
        run.use_cfg(cfg)
        clears = br.clear_nodes(cfg, w)
        for r in br.reg_nodes(f, cfg, w):
            starts = [y for (y, l) in cfg.succ[r] if l != 'exc']
            # the registration must actually be awaited (otherwise the rule is vacuous)
            awaited = [s for s in _susp(cfg) if s in flow.reachable(cfg, starts, avoid_nodes=clears)]
            if not awaited:
                raise UnknownIdiom('%s: no suspension point while %s is registered' % (f.qual, w))
            path = flow.find_path(cfg, starts, [cfg.exit, cfg.xexit], avoid_nodes=clears)
            run.check(path is None, '%s: the registration of %s is cleared on every way out, including cancellation of the await' % (f.name, w), f,
                      cfg.node(r).ast, witness=flow.describe_path(cfg, [r] + path) if path else None,
                      runtime_witness='cancelling the pending %s() leaves a stale waiter: the next notification resolves a dead future '
                                      '(and the next call trips the assertion)' % f.name)
    for f, w in ((br.producer, br.pop_waiter), (br.consumer, br.put_waiter)):
        if w is None:
            continue
        cfg = cfg_of(f, p)
        clears = br.clear_nodes(cfg, w)
        goals = set(_susp(cfg)) | {cfg.exit}
        nn = br.notify_nodes(cfg, w)
        if not nn:
            raise AnchorError('%s: notification of %s not found' % (f.qual, w))
        for n in nn:
            starts = [y for (y, l) in cfg.succ[n] if l != 'exc']
            path = flow.find_path(cfg, starts, goals, avoid_nodes=clears, edge_filter=flow.no_exc)
            if path is not None:
                # clear-then-notify (through a local copy) inside the same await-free section is equally good
                sect = [cfg.entry] + [y for s_ in _susp(cfg) for (y, l) in cfg.succ[s_] if l != 'exc']
                if flow.find_path(cfg, sect, [n], avoid_nodes=clears, edge_filter=flow.no_exc) is None:
                    path = None
            run.check(path is None, '%s: the notified slot %s is emptied before the next suspension point' % (f.name, w), f, cfg.node(n).ast,
                      witness=flow.describe_path(cfg, [n] + path) if path else None,
                      runtime_witness='two queue operations without an intervening switch call set_result() twice -> InvalidStateError')
    # no other writer of the waiter slots
    for w in (br.pop_waiter, br.put_waiter):
        if w is None:
            continue
        for f in br.methods:
            if f is br.init:
                continue
            cfg = cfg_of(f, p)
            for attr, val, node in _stores(f):
                if attr != w:
                    continue
                ok = _is_none(val) or br._is_future(f, val)
                run.check(ok, 'the waiter slot %s only ever holds None or a fresh future' % w, f, node)


class _PumpCtx:
    """The pump's view of the raw receive: where the event is pulled, the local it is bound to, where the
    ``client_disconnected`` flag is raised, and the truth of tests on the event type."""

    def __init__(self, run):
        p = run.project
        br = _br(run)
        f = self.f = br.producer
        cfg = self.cfg = cfg_of(f, p)
        run.use_cfg(cfg)
        self.appends = br.q_nodes(cfg, ('append', 'appendleft'))
        recv_nodes = self.recv_nodes = [n.id for n in cfg.live_nodes() for c in n.calls() if _self_attr(c.func, br.raw_recv)]
        if not recv_nodes:
            raise AnchorError('%s: call of the raw receive not found' % f.qual)
        evs = []
        for rn in recv_nodes:
            n = cfg.node(rn)
            if not (n.kind == 'stmt' and isinstance(n.ast, (ast.Assign, ast.AnnAssign))):
                raise UnknownIdiom('%s: received event not bound: %s' % (f.qual, n.text()))
            tgt = n.ast.targets[0] if isinstance(n.ast, ast.Assign) else n.ast.target
            if not isinstance(tgt, ast.Name):
                raise UnknownIdiom('%s: received event bound to %s' % (f.qual, short(tgt)))
            evs.append(tgt.id)
        ev = self.ev = single(sorted(set(evs)), 'received-event local', f.qual)

        def is_type_expr(e):
            if isinstance(e, ast.Subscript) and isinstance(e.value, ast.Name) and e.value.id == ev and isinstance(e.slice, ast.Constant) and e.slice.value == 'type':
                return True
            if isinstance(e, ast.Name) and e.id != ev:
                ds = local_defs(f, e.id)
                return len(ds) == 1 and ds[0] is not None and is_type_expr(ds[0])
            return False

        def atom_for(evtype, flag):
            def atom(e):
                if isinstance(e, ast.Compare) and len(e.ops) == 1 and isinstance(e.ops[0], (ast.Eq, ast.NotEq)):
                    l, r = e.left, e.comparators[0]
                    if is_type_expr(r):
                        l, r = r, l
                    if is_type_expr(l):
                        k = p.fold(f.module, r, None, f)
                        if not isinstance(k, str):
                            raise UnknownIdiom('%s: event type compared with %s' % (f.qual, short(r)))
                        eq = evtype == k
                        return {eq} if isinstance(e.ops[0], ast.Eq) else {not eq}
                if _self_attr(e, FLAG) and flag is not None:
                    return {flag}
                if isinstance(e, ast.Name) and e.id != ev and e.id not in f.params():
                    # is_disconnect = event['type'] == ...   (single-assignment local holding the comparison)
                    ds = local_defs(f, e.id)
                    if len(ds) == 1 and isinstance(ds[0], ast.Compare):
                        return atom(ds[0])
                return None
            return atom

        self.atom_for = atom_for
        # the flag starts False and only the pump raises it (what makes "flag set <=> the event in hand is the disconnect" sound)
        for attr, val, node in _stores(br.init):
            if attr == FLAG and not (isinstance(val, ast.Constant) and val.value is False):
                raise UnknownIdiom('%s: %s' % (br.init.qual, short(node)))
        wscls = p.cls(WS)
        for g in list(br.methods) + [m for _n, m in sorted(wscls.methods.items())]:
            if g is br.init or g is f:
                continue
            for x in walk_self(g.node):
                if isinstance(x, ast.Attribute) and x.attr == FLAG and isinstance(x.ctx, (ast.Store, ast.Del)):
                    raise UnknownIdiom('%s writes the %s flag' % (g.qual, FLAG))
        self.flag_sets = [n.id for n in cfg.live_nodes() if n.kind == 'stmt' and isinstance(n.ast, ast.Assign) and any(_self_attr(t, FLAG) for t in n.ast.targets)]
        for fs in self.flag_sets:
            v = cfg.node(fs).ast.value
            if not (isinstance(v, ast.Constant) and v.value is True):
                raise UnknownIdiom('%s: %s' % (f.qual, short(cfg.node(fs).ast)))


def _pump_ctx(run) -> _PumpCtx:
    c = getattr(run, '_c18_pump_ctx', None)
    if c is None:
        c = _PumpCtx(run)
        run._c18_pump_ctx = c
    return c


def disconnect_flag_prompt(run):
    """Registered under C17 (R6).  ``WebSocket._send`` and the ``closed``/``ready`` properties learn about a lost
    client only through the receiver's ``client_disconnected`` flag, and another task runs only at a suspension
    point: once the pump has pulled the websocket.disconnect event from the server, the flag is raised before the
    pump suspends again (before it waits for room in the queue, in particular) or ends."""
    ctx = _pump_ctx(run)
    f, cfg = ctx.f, ctx.cfg
    filt = feasible(cfg, ctx.atom_for('websocket.disconnect', None))
    goals = set(_susp(cfg)) | {cfg.exit}
    for rn in ctx.recv_nodes:
        starts = [y for (y, l) in cfg.succ[rn] if l != 'exc']
        path = flow.find_path(cfg, starts, goals, avoid_nodes=ctx.flag_sets, edge_filter=lambda a, b, l: l != 'exc' and filt(a, b, l))
        run.check(path is None, '%s: after a websocket.disconnect event was pulled from the server, the %s flag (consulted by WebSocket._send, closed, ready) '
                                'is raised before the next suspension point' % (f.name, FLAG), f, cfg.node(rn).ast,
                  witness=flow.describe_path(cfg, [rn] + path) if path else None,
                  runtime_witness='the receive queue is full when the client leaves and the responder only sends: the pump parks on the capacity wait '
                                  'with the disconnect in hand, every later send_*() is emitted to a dead connection and no WebSocketDisconnected is raised')



# ---------------------------------------------------------------------------
# R3
# ---------------------------------------------------------------------------

def r3_fifo_bound(run):
    p = run.project
    br = _br(run)
    ins = {m for _f, m, _c in br.q_ops if m in ('append', 'appendleft')}
    outs = {m for _f, m, _c in br.q_ops if m in ('pop', 'popleft')}
    fifo = (ins == {'append'} and outs == {'popleft'}) or (ins == {'appendleft'} and outs == {'pop'})
    for f, m, c in br.q_ops:
        if m in ('append', 'appendleft', 'pop', 'popleft'):
            if m in ('pop', 'popleft') and (c.args or c.keywords):
                raise UnknownIdiom('%s: %s' % (f.qual, short(c)))
            run.check(fifo, 'queue polarity: messages are inserted at one end and removed from the other (FIFO)', f, c,
                      runtime_witness='two buffered messages are delivered in reverse order')
        elif m in ('clear', 'copy', 'count', 'index', '__len__'):
            continue
        else:
            raise UnknownIdiom('%s: queue operation %s' % (f.qual, short(c)))
    # capacity gate
    f = br.producer
    cfg = cfg_of(f, p)
    run.use_cfg(cfg)
    ctx = _pump_ctx(run)
    if br.q_bound == 'unknown':
        raise UnknownIdiom('%s: the receive queue is a deque whose maxlen (%s) is not the configured capacity; whether the container '
                           'can be full where the gate admits an event is not modelled' % (br.init.qual, short(br.q_bound_expr)))
    bounded = br.q_bound == 'cap'
    run.extra['c18_queue_container'] = 'deque bounded by the capacity (maxlen)' if bounded else 'unbounded deque'
    appends = br.q_nodes(cfg, ('append', 'appendleft'))

    def proof_edges(ctx_atom):
        """Branch edges that cannot be taken while len(queue) >= capacity (given what `ctx_atom` knows about the event
        in hand): taking one proves a free slot."""
        def atom(e):
            r = br.full(e)
            if r is not None:
                return {r}              # evaluated under the hypothesis "the queue is full"
            return ctx_atom(e)
        out = []
        for t in cfg.live_nodes():
            if t.kind != 'test':
                continue
            pv = possible(t.ast, atom)
            for lab, want in (('T', True), ('F', False)):
                if want not in pv:
                    out.extend(flow.edges_out(cfg, t.id, lab))
        return out

    # (A) an ordinary message (the flag is down: only the pump raises it, and only for the disconnect event)
    atom_a = ctx.atom_for('websocket.receive', False)
    filt_a = feasible(cfg, atom_a)
    ok_a = proof_edges(atom_a)
    starts = [cfg.entry] + [y for s in _susp(cfg) for (y, l) in cfg.succ[s] if l != 'exc']
    for a in appends:
        path = flow.find_path(cfg, starts, [a], avoid_edges=ok_a, edge_filter=lambda x, y, l: l != 'exc' and filt_a(x, y, l))
        run.check(path is None, '%s: the message is enqueued only right after a test showed len(queue) < capacity, with no suspension in between' % f.name,
                  f, cfg.node(a).ast, witness=flow.describe_path(cfg, path) if path else None,
                  runtime_witness='with capacity k the framework holds k+1 (or more) queued messages' if not bounded else
                                  'with capacity k and k messages buffered the next message evicts the oldest one from the bounded deque')
    # (B) the disconnect marker (the flag is up from the statement that raises it).  It is not a message: appended to an
    #     UNBOUNDED container without waiting for room it still follows every earlier message and nothing is lost.  A
    #     container bounded by maxlen drops its oldest element on an append when full, so there the marker needs the
    #     same proof of a free slot as a message.
    atom_b = ctx.atom_for('websocket.disconnect', True)
    filt_b = feasible(cfg, atom_b)
    fb = lambda x, y, l: l != 'exc' and filt_b(x, y, l)  # noqa: E731
    ok_b = proof_edges(atom_b)
    after_flag = [y for fs in ctx.flag_sets for (y, l) in cfg.succ[fs] if l != 'exc']
    region_b = flow.reachable(cfg, after_flag, avoid_nodes=ctx.recv_nodes, edge_filter=fb)
    starts_b = after_flag + [y for s in _susp(cfg) if s in region_b for (y, l) in cfg.succ[s] if l != 'exc']
    for a in appends:
        if a not in region_b:
            continue
        path = flow.find_path(cfg, starts_b, [a], avoid_nodes=ctx.recv_nodes, avoid_edges=ok_b, edge_filter=fb)
        run.check(path is None or not bounded,
                  '%s: the disconnect marker is never appended to a full container that drops elements (the deque is unbounded, or the '
                  'append follows a test showing len(queue) < capacity with no suspension in between)' % f.name,
                  f, 'disconnect marker -> %s' % short(cfg.node(a).ast), where=f.loc(cfg.node(a).ast),
                  witness=(['queue: %s' % short(br.q_ctor)] + flow.describe_path(cfg, path)) if path else None,
                  runtime_witness='capacity 2, m1 and m2 buffered, the client disconnects, then the application receives: the marker was '
                                  'appended to the full deque(maxlen=2), m1 was silently evicted and receive_*() returns m2 first')
    # the wait in the capacity loop re-tests after waking up: the await on the put waiter is inside a loop headed by the fullness test
    # (already implied: the append is reachable from the await only through an ok-edge)
    # disconnect handling
    recv_nodes, flag_sets, atom_for = ctx.recv_nodes, ctx.flag_sets, ctx.atom_for
    for rn in recv_nodes:
        starts = [y for (y, l) in cfg.succ[rn] if l != 'exc']
        # disconnect event: flag set, then enqueued through the gate, then the pump stops pulling
        filt = feasible(cfg, atom_for('websocket.disconnect', None))
        path = flow.find_path(cfg, starts, appends, avoid_nodes=flag_sets, edge_filter=lambda a, b, l: l != 'exc' and filt(a, b, l))
        run.check(path is None, '%s: a websocket.disconnect event raises the %s flag before it is enqueued' % (f.name, FLAG), f, cfg.node(rn).ast,
                  witness=flow.describe_path(cfg, path) if path else None,
                  runtime_witness='a send after the client left is not refused (the flag is never raised)')
        path = flow.find_path(cfg, starts, [cfg.exit] + recv_nodes, avoid_nodes=appends, edge_filter=lambda a, b, l: l != 'exc' and filt(a, b, l))
        if path is not None:
            # a pump that ends without enqueuing the event can still be correct (the consumer also watches the task);
            # that design is not modelled -> broken check, not an accusation
            raise UnknownIdiom('%s: the disconnect event is not enqueued on the path %s' % (f.qual, ' / '.join(flow.describe_path(cfg, path)[-4:])))
        run.ok('%s: the disconnect event is itself enqueued, at the same end of the queue as every message, '
               'so it is reported after the messages that preceded it' % f.name, f.loc(cfg.node(rn).ast), cfg.node(rn).ast)
        filt2 = feasible(cfg, atom_for('websocket.disconnect', True))
        for fs in flag_sets:
            after = flow.reachable(cfg, [y for (y, l) in cfg.succ[fs] if l != 'exc'], edge_filter=lambda a, b, l: l != 'exc' and filt2(a, b, l))
            run.check(not (set(recv_nodes) & after), '%s: once the flag is raised the pump never calls the ASGI receive again' % f.name, f, cfg.node(fs).ast,
                      runtime_witness='receive() is called on the server after websocket.disconnect')
        # ordinary message: flag untouched
        filt3 = feasible(cfg, atom_for('websocket.receive', None))
        reach = flow.reachable(cfg, starts, avoid_nodes=recv_nodes, edge_filter=lambda a, b, l: l != 'exc' and filt3(a, b, l))
        run.check(not (set(flag_sets) & reach) and bool(set(appends) & reach), '%s: an ordinary message is enqueued and does not raise the flag' % f.name, f,
                  cfg.node(rn).ast, runtime_witness='the first message ends the session')


# ---------------------------------------------------------------------------
# R4
# ---------------------------------------------------------------------------

def r4_lifecycle(run):
    p = run.project
    br = _br(run)
    ws = WSModel(p)
    # close(): stop() first
    f = p.func(WS + '.close')
    cfg = cfg_of(f, p)
    run.use_cfg(cfg)
    stop_nodes = []
    stops = []
    for n in cfg.live_nodes():
        for c in n.calls():
            recv = c.func.value if isinstance(c.func, ast.Attribute) else None
            if isinstance(recv, ast.Name) and recv.id not in f.params():
                # `receiver = self._buffered_receiver` ... `await receiver.stop()`: a local bound once is what it aliases
                ds = local_defs(f, recv.id)
                recv = ds[0] if len(ds) == 1 and ds[0] is not None else recv
            if isinstance(recv, ast.Attribute) and _self_attr(recv, ws.buf_attr):
                m = p.lookup_method(BUFRX, c.func.attr)
                if isinstance(m, Func) and m.qual != br.starter.qual and _touches_task(br, m):
                    stop_nodes.append(n.id)
                    if m not in stops:
                        stops.append(m)
    if not stop_nodes:
        run.fail('WebSocket.close() does not stop the pump task', f, 'close: stop()', runtime_witness='the pump task keeps running after close()')
    else:
        for sn in stop_nodes:
            run.check(cfg.node(sn).susp, 'close(): the stop of the pump is awaited', f, cfg.node(sn).ast)
        risky = [n for n in cfg.live_nodes() if n.id not in stop_nodes and
                 ((n.kind == 'stmt' and isinstance(n.ast, ast.Raise)) or any(l == 'exc' for (_y, l) in cfg.succ[n.id]))]
        for n in risky:
            run.check(flow.dominated_by_nodes(cfg, n.id, stop_nodes), 'close(): the pump is stopped before anything that can raise', f,
                      n.ast if n.ast is not None else n.text(), where='%s:%s' % (f.file, n.lineno),
                      runtime_witness='close(<invalid code>) raises and the pump task is left running')
        run.check(flow.dominated_by_nodes(cfg, cfg.exit, stop_nodes), 'close(): every normal return has stopped the pump', f, 'close: exit after stop')
    # stop(): cancel, await, clear
    if not stops:
        return
    g = single(stops, 'receiver method through which close() stops the pump task', BUFRX)
    cfg = cfg_of(g, p)
    run.use_cfg(cfg)

    def task_atom(e):
        if isinstance(e, ast.Compare) and len(e.ops) == 1 and br.ref(g, e.left, br.task) and _is_none(e.comparators[0]):
            return {isinstance(e.ops[0], ast.IsNot)} if isinstance(e.ops[0], (ast.Is, ast.IsNot)) else None
        if br.ref(g, e, br.task):
            return {True}
        return None

    filt = feasible(cfg, task_atom)
    nf = lambda a, b, l: l != 'exc' and filt(a, b, l)  # noqa: E731
    cancel = [n.id for n in cfg.live_nodes() for c in n.calls() if isinstance(c.func, ast.Attribute) and c.func.attr == 'cancel' and br.ref(g, c.func.value, br.task)]
    awaits = [n.id for n in cfg.live_nodes() if n.susp and any(br.ref(g, x, br.task) for x in n.walk())]
    clears = [n.id for n in cfg.live_nodes() if n.kind == 'stmt' and isinstance(n.ast, ast.Assign) and any(_self_attr(t, br.task) for t in n.ast.targets)
              and _is_none(n.ast.value)]
    path = flow.find_path(cfg, [cfg.entry], [cfg.exit], avoid_nodes=cancel, edge_filter=nf)
    run.check(path is None and bool(cancel), 'stop(): a running pump task is cancelled', g, 'stop: cancel', witness=flow.describe_path(cfg, path) if path else None)
    path = flow.find_path(cfg, [y for c in cancel for (y, l) in cfg.succ[c] if l != 'exc'], [cfg.exit], avoid_nodes=awaits, edge_filter=filt)
    run.check(path is None and bool(awaits), 'stop(): the cancelled task is awaited (nothing is left running when stop() returns)', g, 'stop: await',
              witness=flow.describe_path(cfg, path) if path else None, runtime_witness='pending task after close()')
    for a in awaits:
        hs = [cfg.node(y) for (y, l) in cfg.succ[a] if l == 'exc' and cfg.node(y).kind == 'handler']
        caught = False
        for h in hs:
            ts = [] if h.ast.type is None else (h.ast.type.elts if isinstance(h.ast.type, ast.Tuple) else [h.ast.type])
            qs = [p.resolve_expr(g.module, t, g) for t in ts]
            if h.ast.type is None or any(q in ('asyncio.CancelledError', 'asyncio.exceptions.CancelledError', 'builtins.BaseException', 'concurrent.futures.CancelledError') for q in qs):
                caught = True
        run.check(caught, 'stop(): the CancelledError of the awaited task is absorbed', g, cfg.node(a).ast,
                  runtime_witness='close() raises CancelledError into the responder')
    starts = [y for a in awaits for (y, l) in cfg.succ[a]]
    path = flow.find_path(cfg, starts, [cfg.exit], avoid_nodes=clears)
    run.check(path is None and bool(clears), 'stop(): the task slot is cleared afterwards (stop is idempotent, start may run again)', g, 'stop: clear',
              witness=flow.describe_path(cfg, path) if path else None)
    # start(): idempotent, skipped for capacity 0
    s = br.starter
    cfg = cfg_of(s, p)
    run.use_cfg(cfg)
    creates = [n.id for n in cfg.live_nodes() if n.kind == 'stmt' and isinstance(n.ast, ast.Assign) and any(_self_attr(t, br.task) for t in n.ast.targets)
               and not _is_none(n.ast.value)]

    def task_is_none(e):
        if isinstance(e, ast.Compare) and len(e.ops) == 1 and br.ref(s, e.left, br.task) and _is_none(e.comparators[0]):
            return True if isinstance(e.ops[0], ast.Is) else (False if isinstance(e.ops[0], ast.IsNot) else None)
        if br.ref(s, e, br.task):
            return False
        return None

    def cap_positive(e):
        return _positive(e, lambda x: _self_attr(x, br.cap))

    for c in creates:
        run.check(any(flow.dominated_by_edge(cfg, c, e) for e in br.edges_implying(cfg, task_is_none, True)),
                  'start(): a pump task is created only when none exists (idempotent)', s, cfg.node(c).ast,
                  runtime_witness='two pump tasks pull from the same connection')
        run.check(any(flow.dominated_by_edge(cfg, c, e) for e in br.edges_implying(cfg, cap_positive, True)),
                  'start(): no pump task for capacity 0', s, cfg.node(c).ast,
                  runtime_witness='with max_receive_queue=0 a pump task competes with the direct receive')
    if not creates:
        raise AnchorError('%s: task creation not found' % s.qual)
    # WebSocket.__init__: bypass for capacity 0
    init = ws.init
    cfg = cfg_of(init, p)
    run.use_cfg(cfg)
    capn = br.ws_cap_param

    def ws_cap_positive(e):
        return _positive(e, lambda x: isinstance(x, ast.Name) and x.id == capn)

    pos = br.edges_implying(cfg, ws_cap_positive, True)
    neg = br.edges_implying(cfg, ws_cap_positive, False)
    n_assign = 0
    for n in cfg.live_nodes():
        if n.kind == 'stmt' and isinstance(n.ast, ast.Assign) and any(_self_attr(t, ws.raw_recv) for t in n.ast.targets):
            v = n.ast.value
            n_assign += 1
            if isinstance(v, ast.Attribute) and _self_attr(v.value, ws.buf_attr) and getattr(p.lookup_method(BUFRX, v.attr), 'qual', None) == br.consumer.qual:
                run.check(any(flow.dominated_by_edge(cfg, n.id, e) for e in pos), 'WebSocket: the buffered receive is used only when the capacity is positive', init, n.ast,
                          runtime_witness='max_receive_queue=0: receive_*() trips the assertion that a pump task exists')
            elif isinstance(v, ast.Name) and v.id == 'receive':
                run.check(any(flow.dominated_by_edge(cfg, n.id, e) for e in neg), 'WebSocket: the raw receive is used only when buffering is disabled', init, n.ast,
                          runtime_witness='two readers (pump and application) pull from the same connection')
            else:
                raise UnknownIdiom('%s: %s' % (init.qual, short(n.ast)))
    if n_assign < 2:
        raise AnchorError('%s: expected both a buffered and a direct binding of the receive callable' % init.qual)
    # the consumer is only entered with a running pump (its assertion) - recorded, not required
    run.extra['c18_unbuffered_bypass'] = True


# ---------------------------------------------------------------------------
# R6
# ---------------------------------------------------------------------------

def r6_end_of_stream(run):
    """``receive()`` may return without handing out a queued message (the synthesised "pump ended" disconnect)
    only when the queue is provably empty at that point.

    Lemma: the waiter was registered in the same await-free section in which the queue was seen empty (R1a), every
    append notifies a registered waiter before the pump suspends (R1b), and after the wait no other task runs until
    the next suspension point.  So, inside the await-free section that follows a wait, either of
      * the registered future is not done (nobody notified => nothing was appended while waiting), or
      * an explicit emptiness test of the queue
    establishes "no message is buffered" (the first also spelled ``waiter not in done`` / ``waiter in pending`` over the
    sets the wait returned).  The completion of the pump task establishes nothing: the pump may have
    enqueued messages, woken the waiter, pulled the disconnect and returned in one step."""
    p = run.project
    br = _br(run)
    f = br.consumer
    cfg = cfg_of(f, p)
    run.use_cfg(cfg)
    br.check_queue_tests(f, cfg)
    pops = br.q_nodes(cfg, ('pop', 'popleft'))
    if not pops:
        raise AnchorError('%s: removal from the queue not found' % f.qual)
    regs = br.reg_nodes(f, cfg, br.pop_waiter)
    if not regs:
        raise AnchorError('%s: registration of %s not found' % (f.qual, br.pop_waiter))
    wl: Set[str] = set(br.aliases(f, br.pop_waiter))          # locals holding the registered future
    for r in regs:
        a = cfg.node(r).ast
        v = strip_await(a.value)
        if isinstance(v, ast.Name):
            wl.add(v.id)
        for t in (a.targets if isinstance(a, ast.Assign) else [a.target]):
            if isinstance(t, ast.Name):
                wl.add(t.id)

    susp = _susp(cfg)
    # the outcome of the wait bound to locals.  ``done, pending = await asyncio.wait(<literal collection>, ...)`` is read: in the
    # await-free section after the wait ``X in done`` says what ``X.done()`` says and ``X in pending`` the opposite (asyncio.wait
    # sorts the futures it was given by done() when the waiting task resumes).  Any other binding or use of the outcome is an
    # idiom this rule does not know.
    wait_locals: Set[str] = set()
    done_locals: Set[str] = set()
    pending_locals: Set[str] = set()
    waited: Dict[str, List[ast.AST]] = {}
    for sn in susp:
        a = cfg.node(sn).ast
        if cfg.node(sn).kind == 'stmt' and isinstance(a, (ast.Assign, ast.AnnAssign)):
            tgs = a.targets if isinstance(a, ast.Assign) else [a.target]
            for t in tgs:
                wait_locals.update(x.id for x in ast.walk(t) if isinstance(x, ast.Name))
            v = strip_await(a.value) if a.value is not None else None
            t = tgs[0]
            if len(tgs) == 1 and isinstance(t, ast.Tuple) and len(t.elts) == 2 and all(isinstance(x, ast.Name) for x in t.elts) \
                    and isinstance(v, ast.Call) and p.resolve_expr(f.module, v.func, f) == 'asyncio.wait' and v.args \
                    and isinstance(v.args[0], (ast.List, ast.Set, ast.Tuple)) and not any(isinstance(x, ast.Starred) for x in v.args[0].elts) \
                    and all(len(local_defs(f, x.id)) == 1 for x in t.elts):
                done_locals.add(t.elts[0].id)
                pending_locals.add(t.elts[1].id)
                for x in t.elts:
                    waited[x.id] = list(v.args[0].elts)

    def membership(e):
        """(subject, polarity) for ``subject [not] in <done|pending set of the wait>``; polarity True: 'subject is done'"""
        if isinstance(e, ast.Compare) and len(e.ops) == 1 and isinstance(e.ops[0], (ast.In, ast.NotIn)) and isinstance(e.comparators[0], ast.Name) \
                and e.comparators[0].id in (done_locals | pending_locals):
            s = e.comparators[0].id
            pol = isinstance(e.ops[0], ast.In)
            if s in pending_locals:
                pol = not pol
            subj = e.left
            if not any(ast.dump(subj) == ast.dump(w) for w in waited[s]):
                raise UnknownIdiom('%s: %s tests a future that was not handed to the wait' % (f.qual, short(e)))
            return subj, pol
        return None

    def is_task(e) -> bool:
        return br.ref(f, e, br.task)

    def _is_done_call(e) -> bool:
        return isinstance(e, ast.Call) and isinstance(e.func, ast.Attribute) and e.func.attr == 'done' and not e.args and not e.keywords \
            and isinstance(e.func.value, ast.Name) and e.func.value.id in wl

    # `notified = waiter.done()` ... `if not notified:` - a local bound once is what it aliases, provided nothing can complete the
    # future in between: no suspension point on any path from the binding to a use
    fresh_done: Set[str] = set()
    for nm in sorted({x.id for x in walk_self(f.node) if isinstance(x, ast.Name)} - set(f.params())):
        ds = local_defs(f, nm)
        if len(ds) != 1 or ds[0] is None or not _is_done_call(strip_await(ds[0])):
            continue
        bind = [n.id for n in cfg.live_nodes() if n.kind == 'stmt' and isinstance(n.ast, (ast.Assign, ast.AnnAssign)) and n.ast.value is ds[0]]
        uses = [n.id for n in cfg.live_nodes() if n.id not in bind and any(isinstance(x, ast.Name) and x.id == nm and isinstance(x.ctx, ast.Load)
                                                                             for x in n.walk())]
        live = flow.reachable(cfg, [y for b in bind for (y, l) in cfg.succ[b] if l != 'exc'], avoid_nodes=set(bind))
        stale = [i for i in live if cfg.node(i).susp]
        after = flow.reachable(cfg, [y for i in stale for (y, _l) in cfg.succ[i]], avoid_nodes=set(bind)) if stale else set()
        if bind and not any(u in after or u in stale for u in uses):
            fresh_done.add(nm)

    def notified(e) -> Optional[bool]:
        """polarity True: 'the registered future is done' (the pump announced a message); False: 'it is not done'"""
        if _is_done_call(e):
            return True
        if isinstance(e, ast.Name) and e.id in fresh_done:
            return True
        m = membership(e)
        if m is not None and isinstance(m[0], ast.Name) and m[0].id in wl:
            return m[1]
        return None

    empty_edges = br.edges_implying(cfg, br.nonempty, False) + br.edges_implying(cfg, notified, False)

    def unknown_test(nid) -> Optional[str]:
        n = cfg.node(nid)
        cond = n.ast if n.kind == 'test' else (n.ast.test if n.kind == 'stmt' and isinstance(n.ast, ast.Assert) else None)
        if cond is None:
            return None
        names = {x.id for x in walk_self(cond) if isinstance(x, ast.Name)}
        # one level of single-assignment locals (e.g. notified = waiter.done())
        for nm in sorted(names):
            if nm not in f.params():
                for d in local_defs(f, nm):
                    if d is not None:
                        names |= {x.id for x in walk_self(d) if isinstance(x, ast.Name)}
        if names & wait_locals:
            # read: membership of the registered future (decided by `notified`) or of the pump task (establishes nothing
            # about the queue: the branch is simply not an "empty" edge) in the done/pending set; anything else is not read
            understood = set()
            for x in walk_self(cond):
                m = membership(x)
                if m is not None and ((isinstance(m[0], ast.Name) and m[0].id in wl) or is_task(m[0])):
                    understood.add(id(x.comparators[0]))
                    understood.update(id(y) for y in ast.walk(m[0]))
            direct = [x for x in walk_self(cond) if isinstance(x, ast.Name) and x.id in wait_locals]
            if not direct or any(id(x) not in understood for x in direct):
                return short(cond)
        # completion of some other future/task-like local (not the pump task attribute): not understood
        for x in walk_self(cond):
            if isinstance(x, ast.Call) and isinstance(x.func, ast.Attribute) and x.func.attr in ('done', 'cancelled', 'result', 'exception') \
                    and isinstance(x.func.value, ast.Name) and x.func.value.id not in wl and x.func.value.id not in br.aliases(f, br.task):
                return short(cond)
        if names & wl:
            recognised = {id(x.func.value) for x in walk_self(cond) if isinstance(x, ast.Call) and notified(x)}
            recognised |= {id(membership(x)[0]) for x in walk_self(cond) if isinstance(x, ast.Compare) and membership(x) is not None}
            stray = [x for x in walk_self(cond) if isinstance(x, ast.Name) and x.id in wl and id(x) not in recognised]
            indirect = not any(isinstance(x, ast.Name) and (x.id in wl or x.id in fresh_done) for x in walk_self(cond))
            if stray or indirect:
                return short(cond)
        return None

    # a suspension that can only be reached with a message already taken from the queue starts no section of interest
    sections = [(None, [cfg.entry])] + [(sn, [y for (y, _l) in cfg.succ[sn]]) for sn in susp if not flow.dominated_by_nodes(cfg, sn, pops)]
    for sn, starts in sections:
        path = flow.find_path(cfg, starts, [cfg.exit], avoid_nodes=set(pops) | set(susp), avoid_edges=empty_edges)
        if path is not None:
            for nid in path:
                u = unknown_test(nid)
                if u is not None:
                    raise UnknownIdiom('%s: the test %s on the outcome of the wait is of a form this rule does not know' % (f.qual, u))
        head = cfg.node(sn).ast if sn is not None else None
        run.check(path is None,
                  '%s: %s, a return that hands out no queued message is taken only after a test showing that the waiter was not notified '
                  'or that the queue is empty (never on the completion of the pump task alone)' % (
                      f.name, 'after the wait' if sn is not None else 'on entry'),
                  f, head if head is not None else '%s entry' % f.name,
                  witness=flow.describe_path(cfg, ([sn] if sn is not None else []) + path) if path else None,
                  runtime_witness='the pump enqueues message(s), wakes the waiter, pulls the disconnect and returns before the receiving task runs: '
                                  'receive() reports the disconnect while messages are still buffered - they are lost')


def _positive(e, is_cap) -> Optional[bool]:
    if is_cap(e):
        return True
    if isinstance(e, ast.Compare) and len(e.ops) == 1:
        a, b, op = e.left, e.comparators[0], e.ops[0]
        if is_cap(a) and isinstance(b, ast.Constant) and isinstance(b.value, int):
            k = b.value
            if (isinstance(op, ast.Gt) and k == 0) or (isinstance(op, ast.GtE) and k == 1) or (isinstance(op, ast.NotEq) and k == 0):
                return True
            if (isinstance(op, ast.LtE) and k == 0) or (isinstance(op, ast.Lt) and k == 1) or (isinstance(op, ast.Eq) and k == 0):
                return False
        if is_cap(b) and isinstance(a, ast.Constant) and isinstance(a.value, int):
            k = a.value
            if (isinstance(op, ast.Lt) and k == 0) or (isinstance(op, ast.LtE) and k == 1):
                return True
            if (isinstance(op, ast.GtE) and k == 0) or (isinstance(op, ast.Gt) and k == 1):
                return False
    return None


def _touches_task(br: BRModel, m: Func) -> bool:
    return any(_self_attr(x, br.task) for x in walk_self(m.node))


# ---------------------------------------------------------------------------
# R7 the disconnect flag never pre-empts buffered messages on the receive side
# ---------------------------------------------------------------------------

def _ws_helper_uses(p, ws, f: Func):
    """(expression, callee) for every use in `f` of another member of the WebSocket class that runs code of that
    class: ``self.m(...)`` for a method, ``self.prop`` (loaded) for a property."""
    out = []
    called = set()
    for c in walk_self(f.node):
        if isinstance(c, ast.Call) and isinstance(c.func, ast.Attribute) and isinstance(c.func.value, ast.Name) and c.func.value.id == 'self':
            m = p.lookup_method(ws.qual, c.func.attr)
            if m is not None and not m.is_property():
                out.append((c, m))
                called.add(id(c.func))
    for x in walk_self(f.node):
        if isinstance(x, ast.Attribute) and id(x) not in called and isinstance(x.ctx, ast.Load) and isinstance(x.value, ast.Name) and x.value.id == 'self':
            m = p.lookup_method(ws.qual, x.attr)
            if m is not None and m.is_property():
                out.append((x, m))
    return out


R7_DEPTH = 4    # bound on the chain of same-class helpers looked through (deeper -> unknown idiom)


def _ws_closure(p, ws, root: Func, stop=lambda m: False) -> Dict[str, Func]:
    """`root` and the members of the WebSocket class it uses, transitively (bounded)."""
    seen: Dict[str, Func] = {}
    work = [(root, 0)]
    while work:
        f, d = work.pop()
        if f.qual in seen:
            continue
        seen[f.qual] = f
        for (_e, m) in _ws_helper_uses(p, ws, f):
            if stop(m) or m.qual in seen:
                continue
            if d + 1 > R7_DEPTH:
                raise UnknownIdiom('%s: chain of WebSocket helpers deeper than %d below %s' % (m.qual, R7_DEPTH, root.qual))
            work.append((m, d + 1))
    return seen


def r7_receive_ignores_flag(run):
    """The pump raises `client_disconnected` as soon as it PULLS the disconnect
    event, possibly while earlier messages are still queued.  The flag is for
    senders ("reported to a sender promptly"); a receiver learns about the
    disconnect from the queue, after the messages that preceded it.  Decided:
    no code that runs on the receive path of WebSocket before the queued event
    is obtained (the receive_* methods, their shared state guard, and every
    method/property of the class these use, transitively) reads the flag.
    W: client sends m0 then leaves before the app's next receive:
    receive_text() raises WebSocketDisconnected and m0 is lost.

    The flag is identified by def-use in the pump (the attribute set to True
    only with a disconnect event in hand), independently of who reads it: a
    patch that MOVES the sender's bookkeeping (flag -> CLOSED + code) out of
    ``_send`` into the guard the receive_* methods share (seed s9-c18-3) is
    judged like one that copies it there.
    Same-class helpers are looked through on both sides: sender-side code is
    ``_send`` and what it calls; on the receive path a
    helper that belongs to the sender's side (reachable from ``_send``) is
    legitimate code - the defect is the place where the receive path enters it,
    so the violation is the call (or property read) in the receive-side
    function."""
    p = run.project
    ws = p.cls('falcon.asgi.ws.WebSocket')
    recv = p.cls('falcon.asgi.ws._BufferedReceiver')
    # the flag(s), by def-use in the pump alone (who READS it is what the rule judges, so the identification must not depend on a
    # reader): the attributes of the buffered receiver that the pump sets to True at a statement it only executes when the event
    # it has just pulled is the websocket.disconnect (reachable from the pull, before the next pull, under "type == disconnect"
    # and not under another event type)
    ctx = _pump_ctx(run)
    if getattr(recv.methods.get(ctx.f.name), 'qual', None) != ctx.f.qual:
        raise AnchorError('the pump %s is not a method of _BufferedReceiver' % ctx.f.qual)

    def after_pull(evtype):
        filt = feasible(ctx.cfg, ctx.atom_for(evtype, None))
        starts = [y for rn in ctx.recv_nodes for (y, l) in ctx.cfg.succ[rn] if l != 'exc']
        return flow.reachable(ctx.cfg, starts, avoid_nodes=ctx.recv_nodes, edge_filter=lambda a, b, l: l != 'exc' and filt(a, b, l))

    flags = set()
    for nid in sorted(after_pull('websocket.disconnect') - after_pull('websocket.receive')):
        n = ctx.cfg.node(nid)
        if n.kind == 'stmt' and isinstance(n.ast, ast.Assign) and isinstance(n.ast.value, ast.Constant) and n.ast.value.value is True:
            flags.update(t.attr for t in n.ast.targets if _self_attr(t))
    if not flags:
        raise AnchorError('the disconnect flag (an attribute the pump sets to True only with a websocket.disconnect event in hand) was not identified')
    send = ws.methods.get('_send')
    if send is None:
        raise AnchorError('WebSocket._send not found')
    sender_side = _ws_closure(p, ws, send)

    def direct_reads(f: Func, names):
        return [x for x in ast.walk(f.node) if isinstance(x, ast.Attribute) and x.attr in names and isinstance(x.ctx, ast.Load)]

    run.extra['c18_sender_side_flag'] = {'flags': sorted(flags), 'read_in': sorted(q for q, g in sender_side.items() if direct_reads(g, flags))}
    entry = [m for name, m in sorted(ws.methods.items()) if name.startswith('receive_')]
    if len(entry) < 3:
        raise AnchorError('WebSocket.receive_* methods not found')

    # the raw/buffered receive itself (and what it calls) obtains the event: stop there
    def obtains_event(m: Func) -> bool:
        return m.name in ('_receive',) or m.name.startswith('_asgi')

    seen: Dict[str, Func] = {}
    for e in entry:
        seen.update(_ws_closure(p, ws, e, stop=obtains_event))

    memo: Dict[str, bool] = {}

    def consults(m: Func) -> bool:
        """`m`, or a member of the class it uses (transitively), reads the flag"""
        if m.qual not in memo:
            memo[m.qual] = any(direct_reads(g, flags) for g in _ws_closure(p, ws, m, stop=obtains_event).values())
        return memo[m.qual]

    n_own = 0
    for q, f in sorted(seen.items()):
        run.use(f)
        if q in sender_side:
            if f in entry:
                raise UnknownIdiom('%s is reachable from WebSocket._send' % q)
            continue        # sender-side code; judged at the place where the receive path enters it
        if f.is_property():
            continue        # judged at the place where it is read
        n_own += 1
        bad = list(direct_reads(f, flags))
        bad += [e for (e, m) in _ws_helper_uses(p, ws, f) if not obtains_event(m) and (m.qual in sender_side or m.is_property()) and consults(m)]
        bad.sort(key=lambda x: (x.lineno, x.col_offset))
        run.check(not bad, 'the receive path (%s) does not consult the sender-side disconnect flag - directly, through a property or through a '
                           'helper of the sender\'s side - before the queued event is obtained' % f.name,
                  f, bad[0] if bad else 'no read of %s' % '/'.join(sorted(flags)), where=f.loc(bad[0] if bad else None),
                  runtime_witness='client sends m0 and disconnects before the next receive_*(): WebSocketDisconnected is raised and m0 is lost')
    if n_own < len(entry):
        raise AnchorError('receive path of WebSocket not found')


def r9_status_views(run):
    """``WebSocket.ready`` and ``WebSocket.closed`` are two views of the same pair (connection state, client-disconnected
    flag of the receiver); a sender that only polls (the documented ``while ws.ready:`` loop) learns about a lost client from
    ``ready`` alone.  Both property bodies are evaluated over the finite abstract state space
    {members of the state enum the class records} x {flag down, flag up} (same three-valued evaluator as C17 R1; same-class
    properties are looked through), and must satisfy

    * ``closed``  ==  state is terminal (CLOSED or another recorded end state)  or  the flag is up;
    * ``ready``   =>  not ``closed``  - in particular ``ready`` is false in every cell with the flag up;
    * ``ready``   is true in (ACCEPTED, flag down) and false before the handshake completed.

    A body that is not a function of (state, flag) alone is an unknown idiom.
    W (auto-mutation seed sa-am01220): ``ready`` without the flag conjunct - buffered mode, accepted socket, the client
    leaves while the responder runs ``while ws.ready: await asyncio.sleep(..)``: the loop never ends."""
    p = run.project
    ws = WSModel(p)
    views = {}
    for name in ('ready', 'closed'):
        m = p.lookup_method(ws.cls.qual, name)
        if m is None or not m.is_property():
            raise AnchorError('%s.%s: property not found' % (WS, name))
        body = single_return_expr(m)
        run.use(m)
        table = {}
        for cell in ws.all_cells():
            if body is None:
                # more than one return expression (`disconnected = self.<receiver>.client_disconnected` ... `return ... or
                # disconnected`, early returns): the returns reachable for the cell, evaluated for the cell
                vals = ws._property_truth(m, cell, 0)
                if vals is None:
                    raise UnknownIdiom('%s: the property is not a function of (state, disconnect flag) that the rule can evaluate' % m.qual)
            else:
                vals = possible(body, ws.atom_for(m, cell))
            if len(vals) != 1:
                raise UnknownIdiom('%s: %s is not a function of (state, disconnect flag) alone (cell %s/%s)' % (
                    m.qual, short(body, 80) if body is not None else 'the property', cell[0], 'flag up' if cell[1] else 'flag down'))
            table[cell] = next(iter(vals))
        views[name] = (m, body if body is not None else name, table)
    terminal = set(ws.terminal_states())

    def cs(cell):
        return '%s/%s' % (cell[0], 'flag up' if cell[1] else 'flag down')

    run.sample({'rule': 'R9', 'ready': {cs(c): v for c, v in views['ready'][2].items()}, 'closed': {cs(c): v for c, v in views['closed'][2].items()}})
    mc, bc, tc = views['closed']
    bad = [c for c in ws.all_cells() if tc[c] != (c[0] in terminal or c[1])]
    run.check(not bad, 'closed is true exactly when the recorded state is terminal (%s) or the client-disconnected flag is up' % '/'.join(sorted(terminal)),
              mc, bc, witness=['%s -> closed == %s' % (cs(c), tc[c]) for c in bad],
              runtime_witness='ws.closed is False although the client left (or the server closed): a sender loop keeps sending into a dead socket')
    mr, br, tr = views['ready']
    bad = [c for c in ws.all_cells() if tr[c] and (c[0] in terminal or c[1])]
    run.check(not bad, 'ready is false whenever the connection is closed or the client has disconnected (ready => not closed over every '
              '(state, flag) cell)', mr, br, witness=['%s -> ready == True' % cs(c) for c in bad],
              runtime_witness='buffered mode, accepted socket, the client disconnects while the responder only polls `while ws.ready:` - '
                              'ready stays True and the loop never learns about the disconnect')
    run.check(tr.get(('ACCEPTED', False)) is True, 'ready is true for an accepted connection whose client is still there', mr, br,
              witness=['ACCEPTED/flag down -> ready == %s' % tr.get(('ACCEPTED', False))],
              runtime_witness='`while ws.ready:` never runs its body on a healthy connection')
    bad = [c for c in ws.all_cells() if c[0] == 'HANDSHAKE' and tr[c]]
    run.check(not bad, 'ready is false before the connection was accepted', mr, br, witness=['%s -> ready == True' % cs(c) for c in bad],
              runtime_witness='ws.ready is True in on_websocket before accept(): a send raises OperationNotAllowed')


def check(run):
    run.assume('asyncio semantics: a task is preempted only at await / async for / async with; one consumer (the application) and one producer (the pump task)')
    run.assume('set_result() on a pending future and deque operations do not raise')
    run.rule('R1', r1_windows, 'await-free check-then-register windows; mutate-then-notify before the next suspension', floor=8)
    run.rule('R2', r2_hygiene, 'waiter registrations cleared on every exit; notification clears the slot', floor=6)
    run.rule('R3', r3_fifo_bound, 'FIFO polarity, capacity gate per event in hand (a maxlen-bounded deque never receives an append when full), '
                                  'disconnect enqueued behind the messages and ending the pump', floor=8)
    run.rule('R4', r4_lifecycle, 'close->stop first, stop cancels/awaits/clears, start idempotent and skipped for 0, bypass for 0', floor=12)
    from . import c17 as _c17  # lazy: c17 imports this module (its R6 lives here)
    run.extra['c18_not_decided'] = [
        'a *custom* WebSocket error handler (user code) that does not close the socket: _handle_websocket has no fallback close, '
        'so the pump task keeps running (R5 covers the framework\'s own paths and default handlers only)',
    ]
    run.rule('R5', _c17.r3_session_paths, 'every framework path that ends a session passes a completed ws.close() - the only caller of the '
                                         'pump\'s stop() - whatever closed/ready say (shared with C17 R3)', floor=12)
    run.rule('R7', r7_receive_ignores_flag, 'the receive path does not consult the sender-side disconnect flag', floor=4)
    run.rule('R6', r6_end_of_stream, 'receive() concludes "no more messages" only when the waiter was not notified or the queue is empty', floor=2)
    run.rule('R8', _c17.r1_receive_disconnect, 'a disconnect event in hand on the receive path (buffered or not) is reported as WebSocketDisconnected, '
                                               'leaves the state terminal without relying on the pump\'s flag, and its close code is the event\'s '
                                               '(part of C17 R1, shared)', floor=5)
    run.rule('R9', r9_status_views, 'ready/closed are complementary views over (state, client-disconnected flag): evaluated over every cell of '
                                    'the abstract state space; ready => not closed, closed == terminal state or flag', floor=4)
