"""C19 - concurrent requests (DESIGN.md section 3, C19).

R1  lazy router compilation: writes reachable from find() only under the
    compile lock, re-checked under the lock, the finder published after the
    tables were built, current tables re-read after the lock.
    The finder call of find() / of the stub may sit in ONE same-class helper
    method (write-free, exactly one finder call; its parameters are bound to
    the caller's arguments): the order clause "finder slot loaded before the
    tables are read" is then decided inside the helper (a table bound to a
    local / a local tuple before ``self.<slot>`` is loaded, or evaluated by
    find() and passed in, is a violation; ``f = self.<slot>`` first, or the
    tables read inside the call's own argument list, is fine).
R2  no per-request state on shared objects: nothing reachable from the
    request-path entry points of the shared classes stores into ``self`` --
    directly, or THROUGH A LOCAL ALIAS of state reachable from self (may-alias
    forward dataflow; a rebinding to a fresh copy kills the alias).  The
    request path includes the process_request/resource/response[_ws|_async]
    and __call__ methods of every class of falcon.middleware (derived,
    printed as c19_middleware_request_path).
R3  shared-state inventory: module-level mutable objects, mutable default
    arguments, class-level attributes of per-request classes; every survivor
    is on a frozen, reasoned allow-list whose side condition is re-checked.
R4  params / req / resp are created per call and never parked on ``self``.
R7  a raised exception OBJECT is private to the call that raises it: ``raise <name>`` / ``raise self.<attr>`` of an exception instance
    constructed in an enclosing function scope (closure), at module level or on a non-per-request object is a violation (seeded s8-c19-1).

R8  ``wrap_sync_to_async(func, threadsafe=False)``: the executor the wrapper submits to is ONE process-wide object shared by all wrappers
    (module level, or memoised once by a zero-argument getter; max_workers=1; never rebound) - an executor constructed inside the factory
    or the wrapper, the default pool, or more than one worker is a violation (seeded s10-c19-3).

R2 (wave 8) also covers the per-request objects that hold a HANDLE on shared configuration: an attribute that a per-request class's
``__init__`` binds to a parameter annotated with a configuration class (a class an instance of which a shared object creates and keeps in
its own ``__init__``: MultipartParseOptions, RequestOptions, ResponseOptions, ...; derived, printed as c19_configuration_classes /
c19_shared_handles) is an alias of shared state - no method of that class stores into it, directly or through a local alias (seeded
s8-c19-2).  Anchors: the four multipart classes must still bind such a handle.

Second preserving wave (k2-*): R1 reads the lock region in the stub OR in one helper the stub calls (a same-class method, or a module-level
function handed `self`, read through RouterModel.view as if it were a method), spelled ``with <lock>:`` or ``<lock>.acquire()`` + try/finally
``release()``; the stub may route without the lock exactly where a test has just found the finder slot no longer to hold the stub
(double-checked locking).  RouterModel.writes / R6 follow `self` into module-level helpers (``_reset_tables(self)``); R6 also reads a table
through a local bound once to it, pairwise tuple rebinding and ``self.t = <local bound once to a fresh list>``.  R4 reads ``params =
_new_params()`` through a plain helper every return of which is a fresh empty dict.  R3 accepts an un-reviewed module-level display of
immutable constants that no function writes (directly or through a local alias) and that is only read through copies / iteration /
membership / subscripts (handing the object itself on is exit 2).  R8 evaluates a module-level selector ``_pick_executor(threadsafe)`` over
the paths feasible for threadsafe=False and, with several coroutine functions, examines the one the factory returns for threadsafe=False.

Declared anchors: ``CompiledRouter.find`` / ``__init__`` (lock = the attribute
that receives ``threading.Lock()``; finder slot, stub, builder and tables are
derived from ``find``'s call), the entry-point tables R2_ENTRIES / R2_FAMILIES,
``App._request_type`` / ``_response_type``, the per-request class list and the
allow-list R3_ALLOWED (one symbol + one reason per line; a stale or renamed
entry is exit 2).
"""

from __future__ import annotations

import ast
import re
from typing import Dict, List, Optional, Set, Tuple

from .. import flow
from ..cfg import cfg_of
from ..model import AnchorError, Class, Func, UnknownIdiom, func_owner_class, short
from .common import implied, nodes_within, single, strip_await, walk_self

ROUTER = 'falcon.routing.compiled.CompiledRouter'
WSGI_APP = 'falcon.app.App'
ASGI_APP = 'falcon.asgi.app.App'

MUTATORS = {'append', 'appendleft', 'extend', 'extendleft', 'insert', 'pop', 'popleft', 'popitem', 'remove', 'clear', 'update',
            'setdefault', 'add', 'discard', 'sort', 'reverse', '__setitem__', '__delitem__', 'difference_update', 'intersection_update',
            'symmetric_difference_update'}
MUTABLE_CTORS = {'builtins.dict', 'builtins.list', 'builtins.set', 'builtins.bytearray', 'collections.deque', 'collections.defaultdict',
                 'collections.OrderedDict', 'collections.Counter', 'collections.ChainMap'}
LRU_WRAPPERS = {'functools.lru_cache', 'functools.cache', 'falcon.util.misc._lru_cache_for_simple_logic'}


def _in_scope(modname: str) -> bool:
    return not modname.startswith(('falcon.bench', 'falcon.cmd', 'falcon.testing'))


def _self_attr(e, attr=None):
    return isinstance(e, ast.Attribute) and isinstance(e.value, ast.Name) and e.value.id == 'self' and (attr is None or e.attr == attr)


def _root_and_first(e) -> Tuple[Optional[str], Optional[str]]:
    """('self', 'a') for self.a.b[c].d ; (name, None) for a bare name chain root."""
    first = None
    while True:
        if isinstance(e, ast.Attribute):
            first = e.attr
            e = e.value
        elif isinstance(e, ast.Subscript):
            e = e.value
        elif isinstance(e, ast.Call):
            return None, None
        else:
            break
    if isinstance(e, ast.Name):
        return e.id, first
    return None, None


def self_writes(func: Func) -> List[Tuple[str, ast.AST]]:
    """(attribute, construct) for every store/mutation through `self` in func (not nested defs)."""
    out = []
    for root, first, n in _mutations(walk_self(func.node)):
        if root == 'self' and first is not None:
            out.append((first, n))
    return out


def self_closure(p, entry: Func, stop: Set[str] = frozenset()) -> List[Func]:
    """entry + everything reachable through resolved self./cls./super() method calls and nested defs."""
    seen: Dict[str, Func] = {}
    work = [entry]
    while work:
        f = work.pop()
        if f.qual in seen or f.qual in stop:
            continue
        seen[f.qual] = f
        for g in f.nested.values():
            work.append(g)
        for c in walk_self(f.node):
            if isinstance(c, ast.Call) and isinstance(c.func, ast.Attribute):
                v = c.func.value
                if (isinstance(v, ast.Name) and v.id in ('self', 'cls')) or (isinstance(v, ast.Call) and isinstance(v.func, ast.Name) and v.func.id == 'super'):
                    m = p.callee(f, c)
                    if isinstance(m, Func):
                        work.append(m)
            # property reads on self
            if isinstance(c, ast.Attribute) and isinstance(c.value, ast.Name) and c.value.id == 'self' and isinstance(c.ctx, ast.Load):
                oc = func_owner_class(f)
                if oc is not None:
                    m = p.lookup_method(oc.qual, c.attr)
                    if m is not None and m.is_property():
                        work.append(m)
    return list(seen.values())


# ---------------------------------------------------------------------------
# stores THROUGH AN ALIAS of shared state
# ---------------------------------------------------------------------------

_ELEMENT_ACCESSORS = ('get', 'values', 'items', '__getitem__')


def _shared_origin(p, f: Func, e, facts: Dict[str, str], _depth=0) -> Optional[str]:
    """Text of the shared object `e` evaluates to (or may evaluate to), None when e is not known to denote state reachable
    from self: an attribute/subscript chain rooted at self (`self.a`, `self.a.b`, `self.a[k]`), an element accessor on such a
    chain (`self.a.get(k)`), a property of the class that returns such a chain, a local that currently aliases one,
    and `x or y` / `x if c else y` / `(n := x)` over these.  Calls (`dict(self.a)`, `self.a.copy()`), displays
    (`{**self.a}`) and everything else build or return objects this analysis does not follow: not an alias."""
    if isinstance(e, ast.NamedExpr):
        return _shared_origin(p, f, e.value, facts, _depth)
    if isinstance(e, ast.BoolOp):
        for v in e.values:
            o = _shared_origin(p, f, v, facts, _depth)
            if o:
                return o
        return None
    if isinstance(e, ast.IfExp):
        return _shared_origin(p, f, e.body, facts, _depth) or _shared_origin(p, f, e.orelse, facts, _depth)
    if isinstance(e, ast.Name):
        return facts.get(e.id)
    if isinstance(e, ast.Call) and isinstance(e.func, ast.Attribute) and e.func.attr in _ELEMENT_ACCESSORS:
        o = _shared_origin(p, f, e.func.value, facts, _depth)
        return ('%s.%s()' % (o, e.func.attr)) if o else None
    if isinstance(e, (ast.Attribute, ast.Subscript)):
        root, first = _root_and_first(e)
        if root == 'self' and first is not None:
            # a property of the class: follow `return self.<chain>`, anything else is computed per call
            oc = func_owner_class(f)
            inner = e
            while isinstance(inner, (ast.Attribute, ast.Subscript)) and not _self_attr(inner):
                inner = inner.value
            if oc is not None and _self_attr(inner) and _depth < 2:
                m = p.lookup_method(oc.qual, inner.attr)
                if m is not None and m.is_property():
                    rets = [r.value for r in walk_self(m.node) if isinstance(r, ast.Return) and r.value is not None]
                    if len(rets) == 1 and _shared_origin(p, m, rets[0], {}, _depth + 1):
                        return ast.unparse(e)
                    return None
                if m is not None:
                    return None     # bound method object
            return ast.unparse(e)
        if root is not None and root in facts and root != 'self':
            return '%s (= %s)' % (ast.unparse(e), facts[root])
    return None


def _binds(p, f: Func, node, facts: Dict[str, str]) -> Dict[str, Optional[str]]:
    """local name -> origin text (alias of shared state) or None (bound to something else) for the names one CFG node binds"""
    out: Dict[str, Optional[str]] = {}

    def names(t):
        return [x.id for x in ast.walk(t) if isinstance(x, ast.Name) and isinstance(x.ctx, ast.Store)]

    def bind(t, v):
        if isinstance(t, ast.Name):
            out[t.id] = _shared_origin(p, f, v, facts) if v is not None else None
        elif isinstance(t, (ast.Tuple, ast.List)):
            if isinstance(v, (ast.Tuple, ast.List)) and len(v.elts) == len(t.elts) and not any(isinstance(x, ast.Starred) for x in list(t.elts) + list(v.elts)):
                for a, b in zip(t.elts, v.elts):
                    bind(a, b)
            else:
                # unpacking a shared container hands out its (shared) elements
                o = _shared_origin(p, f, v, facts) if v is not None else None
                for nm in names(t):
                    out[nm] = ('element of %s' % o) if o else None
        elif isinstance(t, ast.Starred):
            bind(t.value, None)

    if node.kind == 'stmt':
        a = node.ast
        if isinstance(a, ast.Assign):
            for t in a.targets:
                bind(t, a.value)
        elif isinstance(a, ast.AnnAssign) and a.value is not None:
            bind(a.target, a.value)
        elif isinstance(a, ast.AugAssign) and isinstance(a.target, ast.Name):
            out[a.target.id] = facts.get(a.target.id)       # x += ... keeps (or mutates) the object; not judged
        elif isinstance(a, ast.Delete):
            for t in a.targets:
                if isinstance(t, ast.Name):
                    out[t.id] = None
        elif isinstance(a, (ast.Import, ast.ImportFrom)):
            for al in a.names:
                out[(al.asname or al.name).split('.')[0]] = None
    elif node.kind == 'iter':
        o = _shared_origin(p, f, node.stmt.iter, facts)
        for nm in names(node.stmt.target):
            out[nm] = ('element of %s' % o) if o else None
    elif node.kind == 'with':
        for it in node.stmt.items:
            if it.optional_vars is not None:
                for nm in names(it.optional_vars):
                    out[nm] = None
    elif node.kind == 'handler':
        if getattr(node.ast, 'name', None):
            out[node.ast.name] = None
    for x in node.walk():
        if isinstance(x, ast.NamedExpr) and isinstance(x.target, ast.Name):
            out[x.target.id] = _shared_origin(p, f, x.value, facts)
    return out


def _mutations(nodes) -> List[Tuple[str, Optional[str], ast.AST]]:
    """(root name, first attribute, construct) for every store / in-place mutation through a name-rooted chain"""
    out = []
    for n in nodes:
        tgts = []
        if isinstance(n, ast.Assign):
            tgts = list(n.targets)
        elif isinstance(n, (ast.AugAssign, ast.AnnAssign)):
            tgts = [n.target] if not (isinstance(n, ast.AnnAssign) and n.value is None) else []
        elif isinstance(n, ast.Delete):
            tgts = list(n.targets)
        elif isinstance(n, (ast.For, ast.AsyncFor)):
            tgts = [n.target]
        elif isinstance(n, (ast.With, ast.AsyncWith)):
            tgts = [i.optional_vars for i in n.items if i.optional_vars is not None]
        flat = []
        for t in tgts:
            if isinstance(t, (ast.Tuple, ast.List)):
                flat.extend(x.value if isinstance(x, ast.Starred) else x for x in ast.walk(t) if isinstance(x, (ast.Attribute, ast.Subscript, ast.Starred)))
            else:
                flat.append(t)
        for t in flat:
            if isinstance(t, (ast.Attribute, ast.Subscript)):
                root, first = _root_and_first(t)
                if root is not None:
                    out.append((root, first, n))
        if isinstance(n, ast.Call) and isinstance(n.func, ast.Attribute) and n.func.attr in MUTATORS:
            root, first = _root_and_first(n.func.value)
            if root is not None:
                out.append((root, first, n))
        if isinstance(n, ast.Call) and isinstance(n.func, ast.Name) and n.func.id in ('setattr', 'delattr') and n.args and isinstance(n.args[0], ast.Name):
            out.append((n.args[0].id, '<setattr>', n))
    return out


def _inherited_aliases(p, f: Func) -> Dict[str, str]:
    """free variables of a nested function that an enclosing function binds to shared state (flow-insensitive)"""
    out: Dict[str, str] = {}
    own = set(f.params()) | {x.id for x in walk_self(f.node) if isinstance(x, ast.Name) and isinstance(x.ctx, ast.Store)}
    g = f.parent
    while g is not None:
        for n in walk_self(g.node):
            if isinstance(n, (ast.Assign, ast.AnnAssign)) and getattr(n, 'value', None) is not None:
                for t in (n.targets if isinstance(n, ast.Assign) else [n.target]):
                    if isinstance(t, ast.Name) and t.id not in own and t.id not in out:
                        o = _shared_origin(p, g, n.value, {})
                        if o:
                            out[t.id] = o
        own |= set(g.params())
        g = g.parent
    return out


def alias_writes(p, f: Func) -> List[Tuple[str, str, ast.AST]]:
    """(local, origin, construct) for every store / in-place mutation in f through a local that -- on some path reaching
    the construct -- is an alias of state reachable from self.  A may-alias forward dataflow over f's CFG: a binding
    from a self-rooted chain (or from another alias) creates the fact, any other binding of the name (a fresh copy
    `dict(self.x)`, `self.x.copy()`, `{**self.x}`, `list(self.x)`, ...) kills it."""
    muts = [(r, a, n) for (r, a, n) in _mutations(walk_self(f.node)) if r not in ('self', 'cls')]
    if not muts:
        return []
    roots = {r for r, _a, _n in muts}
    inherited = _inherited_aliases(p, f) if f.parent is not None else {}
    # cheap pre-filter: no binding in f mentions self and nothing is inherited -> nothing can alias
    if not inherited and not any(isinstance(x, ast.Name) and x.id == 'self' for x in walk_self(f.node)):
        return []
    cfg = cfg_of(f, p)

    def transfer(node, facts, label):
        d = dict(facts)
        b = _binds(p, f, node, d)
        if not b:
            return facts
        if label == 'exc':
            # the binding may or may not have happened
            return facts | frozenset((k, v) for k, v in b.items() if v)
        if node.kind == 'iter' and label != 'next':
            return facts
        keep = frozenset((k, v) for k, v in facts if k not in b)
        return keep | frozenset((k, v) for k, v in b.items() if v)

    IN = flow.forward(cfg, transfer, init=frozenset(inherited.items()), must=False)
    out = []
    seen = set()
    for node in cfg.live_nodes():
        facts = {}
        for k, v in sorted(IN.get(node.id, frozenset())):
            facts.setdefault(k, v)
        if not (set(facts) & roots):
            continue
        if node.kind == 'stmt':
            here = [node.ast] + list(node.walk())
        else:
            here = list(node.walk())
        for r, a, n in _mutations(here):
            if r in facts and id(n) not in seen:
                seen.add(id(n))
                out.append((r, facts[r], n))
    return out


# ---------------------------------------------------------------------------
# R1
# ---------------------------------------------------------------------------

def _name_stores(f: Func, name: str) -> int:
    n = sum(1 for x in walk_self(f.node) if isinstance(x, ast.Name) and x.id == name and isinstance(x.ctx, (ast.Store, ast.Del)))
    return n + sum(1 for x in walk_self(f.node) if isinstance(x, (ast.Global, ast.Nonlocal)) and name in x.names)


def _single_def(f: Func, name: str):
    """the one `name = value` / `name: T = value` statement of f when that is the ONLY binding of the local; else None"""
    if name in f.params() or _name_stores(f, name) != 1:
        return None
    for n in walk_self(f.node):
        if isinstance(n, ast.Assign) and len(n.targets) == 1 and isinstance(n.targets[0], ast.Name) and n.targets[0].id == name:
            return n
        if isinstance(n, ast.AnnAssign) and n.value is not None and isinstance(n.target, ast.Name) and n.target.id == name:
            return n
    return None


def _rebinds(f: Func, name: str) -> bool:
    return _name_stores(f, name) > 0


def _bind_params(h: Func, call: ast.Call) -> Dict[str, Optional[ast.AST]]:
    """parameter name of the method h -> argument expression of `self.h(...)` (None: left to its default)"""
    a = h.node.args
    if a.vararg is not None or a.kwarg is not None or any(isinstance(x, ast.Starred) for x in call.args) or any(k.arg is None for k in call.keywords):
        raise UnknownIdiom('%s: cannot bind the arguments of %s' % (h.qual, short(call)))
    pos = [x.arg for x in a.posonlyargs + a.args]
    if pos and pos[0] in ('self', 'cls'):
        pos = pos[1:]
    names = pos + [x.arg for x in a.kwonlyargs]
    out: Dict[str, Optional[ast.AST]] = {n: None for n in names}
    if len(call.args) > len(pos):
        raise UnknownIdiom('%s: too many arguments in %s' % (h.qual, short(call)))
    for n, e in zip(pos, call.args):
        out[n] = e
    for k in call.keywords:
        if k.arg not in out or out[k.arg] is not None:
            raise UnknownIdiom('%s: keyword %s in %s' % (h.qual, k.arg, short(call)))
        out[k.arg] = k.value
    return out


class FinderSite:
    """one call of the router's finder slot as seen from `caller`"""

    def __init__(self, caller, call, host, finder_call, slot, args, early, helper):
        self.caller = caller            # find() or the lazy-compile stub
        self.call = call                # node in caller: the finder call, or the call of the helper
        self.host = host                # function that contains the finder call (caller or helper)
        self.finder_call = finder_call
        self.slot = slot
        self.args = args                # positional arguments of the finder, expressed in caller's scope
        self.early = early              # [(func, stmt)] table reads that happen before the finder slot is loaded
        self.helper = helper


class RouterModel:
    def __init__(self, p):
        self.p = p
        self.cls = p.cls(ROUTER)
        self.init = p.func(ROUTER + '.__init__')
        self.find = p.func(ROUTER + '.find')
        self.lock = None
        # the compile lock: the attribute of self that receives threading.Lock() / RLock().  It is looked for in the
        # constructor first; a router that creates it anywhere else (lock_created_late: [(method, statement)]) still HAS a
        # lock -- whether that creation is sound is R1's verdict, not an anchor failure.  No lock at all: AnchorError.
        self.lock_created_late: List[Tuple[Func, ast.AST]] = []
        for attr, n in self._lock_stores(self.init):
            self.lock = attr
        if self.lock is None:
            late = [(m, attr, n) for _nm, m in sorted(self.cls.methods.items()) if m is not self.init for attr, n in self._lock_stores(m)]
            if len({attr for _m, attr, _n in late}) > 1:
                raise UnknownIdiom('%s: several attributes receive a threading.Lock(): %s' % (ROUTER, sorted({a for _m, a, _n in late})))
            for m, attr, n in late:
                self.lock = attr
                self.lock_created_late.append((m, n))
        if self.lock is None:
            raise AnchorError('%s.__init__ creates no threading.Lock' % ROUTER)
        self._w: Dict[str, Set[str]] = {}
        # the finder slot: attribute of self that find() calls and that is not a
        # method.  The call may sit in find() itself or -- looked through ONE
        # level -- in a same-class helper method that find() calls (see sites()).
        self.slot = None
        self.site = single(self.sites(self.find), 'call of the finder slot', self.find.qual)
        self.slot = self.site.slot
        self.find_call = self.site.call          # node inside find(): the finder call or the helper call
        self.helper = self.site.helper
        stubs = []
        for n in walk_self(self.init.node):
            if isinstance(n, ast.Assign) and any(_self_attr(t, self.slot) for t in n.targets) and _self_attr(n.value):
                m = p.lookup_method(ROUTER, n.value.attr)
                if m is not None:
                    stubs.append(m)
        self.stub = single(stubs, 'lazy-compile stub assigned to self.%s' % self.slot, self.init.qual)
        # table attributes: the self.X arguments of the finder call, star-tuples
        # and single-assignment locals looked through, helper parameters bound to
        # the caller's arguments.  site.early remembers every table that is read
        # BEFORE the finder slot is loaded (see r1).
        self.find_args = self.site.args
        self.tables_read_early = self.site.early[0] if self.site.early else None
        self.tables = [(i, a.attr) for i, a in enumerate(self.find_args) if _self_attr(a) and p.lookup_method(ROUTER, a.attr) is None]
        if len(self.tables) < 2:
            raise AnchorError('%s: the finder is not called with the router tables' % self.find.qual)

    # -- the compile lock ------------------------------------------------------

    def _lock_stores(self, m: Func) -> List[Tuple[str, ast.AST]]:
        """(attribute, statement) for every `self.<attr> = threading.Lock()` / `RLock()` of the method m (chained targets
        `lock = self.<attr> = Lock()` and annotated assignments included)"""
        out = []
        for n in walk_self(m.node):
            if isinstance(n, ast.Assign):
                tg, v = n.targets, n.value
            elif isinstance(n, ast.AnnAssign) and n.value is not None:
                tg, v = [n.target], n.value
            else:
                continue
            if isinstance(v, ast.Call) and self.p.resolve_expr(m.module, v.func, m) in ('threading.Lock', 'threading.RLock'):
                for t in tg:
                    if _self_attr(t):
                        out.append((t.attr, n))
        return out

    def is_lock_expr(self, f: Func, e) -> bool:
        """e denotes the router's compile lock inside f: `self.<lock>`, or a local EVERY binding of which in f takes the
        object from / stores the object into `self.<lock>` (`lock = self.<lock>`, `lock = self.<lock> = Lock()`)"""
        if _self_attr(e, self.lock):
            return True
        if not isinstance(e, ast.Name) or e.id in f.params():
            return False
        vals, others, handler = _local_bindings(f, e.id)
        if others or handler or not vals or _declared_outer(f, e.id):
            return False
        for n in walk_self(f.node):
            if isinstance(n, ast.Assign) and any(isinstance(t, ast.Name) and t.id == e.id for t in n.targets):
                if not (_self_attr(n.value, self.lock) or any(_self_attr(t, self.lock) for t in n.targets)):
                    return False
            elif isinstance(n, ast.AnnAssign) and n.value is not None and isinstance(n.target, ast.Name) and n.target.id == e.id:
                if not _self_attr(n.value, self.lock):
                    return False
            elif isinstance(n, ast.NamedExpr) and n.target.id == e.id:
                if not _self_attr(n.value, self.lock):
                    return False
        return True

    # -- looking through side-effect-free helpers ---------------------------------

    def _summary(self, m: Func):
        """the expression a same-class property / zero-argument helper method evaluates to when its body is ONE
        `return <expr>` (docstring aside) and it writes no router state; else None"""
        if m.cls is None or self.writes(m) or any(d in ('staticmethod', 'classmethod') for d in m.decorators):
            return None
        ps = m.params()
        if not ps or ps[0] != 'self':
            return None
        body = [s_ for s_ in m.node.body if not (isinstance(s_, ast.Expr) and isinstance(s_.value, ast.Constant) and isinstance(s_.value.value, str))]
        if len(body) == 1 and isinstance(body[0], ast.Return) and body[0].value is not None:
            return body[0].value
        return None

    def inline_pure(self, e, depth=0):
        """copy of the expression e in which every read of a same-class property `self.<p>` and every call `self.<h>()` of a
        zero-argument helper -- side-effect free, body = one return -- is replaced by the returned expression (3 levels)"""
        rm = self

        class Inl(ast.NodeTransformer):
            def visit_Call(self, node):
                if _self_attr(node.func) and not node.args and not node.keywords and depth < 3:
                    m = rm.p.lookup_method(ROUTER, node.func.attr)
                    if m is not None and not m.is_property() and len(m.params()) == 1:
                        r = rm._summary(m)
                        if r is not None:
                            return rm.inline_pure(r, depth + 1)
                return self.generic_visit(node)

            def visit_Attribute(self, node):
                if _self_attr(node) and isinstance(node.ctx, ast.Load) and depth < 3:
                    m = rm.p.lookup_method(ROUTER, node.attr)
                    if m is not None and m.is_property():
                        r = rm._summary(m)
                        if r is not None:
                            return rm.inline_pure(r, depth + 1)
                return self.generic_visit(node)

        import copy
        return Inl().visit(copy.deepcopy(e))

    # -- finder call sites ---------------------------------------------------

    def _is_slot(self, attr: str) -> bool:
        if self.slot is not None:
            return attr == self.slot
        return self.p.lookup_method(ROUTER, attr) is None

    def _direct(self, f: Func):
        """[(call, slot attribute, load)] for the calls of the finder slot written in f itself:
        `self.<slot>(...)` (load = None: the callee is evaluated by the call, before its arguments) or
        `<local>(...)` with the local bound exactly once from `self.<slot>` (load = that assignment)."""
        out = []
        for c in walk_self(f.node):
            if not isinstance(c, ast.Call):
                continue
            if _self_attr(c.func) and self._is_slot(c.func.attr):
                out.append((c, c.func.attr, None))
            elif isinstance(c.func, ast.Name):
                d = _single_def(f, c.func.id)
                if d is not None and _self_attr(d.value) and self._is_slot(d.value.attr):
                    out.append((c, d.value.attr, d))
        return out

    def _expand(self, h: Func, call: ast.Call, load):
        """positional arguments of the finder call in h as [(expr, read)]: star-tuples expanded, locals bound once
        from a self attribute resolved; read = the earlier statement of h that read the value (None: read by the call itself)"""
        if call.keywords:
            raise UnknownIdiom('%s: keyword arguments in the finder call %s' % (h.qual, short(call)))
        out = []
        for a in call.args:
            if isinstance(a, ast.Starred):
                v = a.value
                origin = None
                if isinstance(v, ast.Name):
                    d = _single_def(h, v.id)
                    if d is None or not isinstance(d.value, (ast.Tuple, ast.List)):
                        raise UnknownIdiom('%s: starred argument %s of the finder call is not a local bound once to a tuple display' % (h.qual, short(a)))
                    v, origin = d.value, d
                if not isinstance(v, (ast.Tuple, ast.List)) or any(isinstance(e, ast.Starred) for e in v.elts):
                    raise UnknownIdiom('%s: starred argument %s of the finder call' % (h.qual, short(a)))
                elts = [(e, origin) for e in v.elts]
            else:
                elts = [(a, None)]
            for e, origin in elts:
                if isinstance(e, ast.Name):
                    d = _single_def(h, e.id)
                    if d is not None and _self_attr(d.value) and self.p.lookup_method(ROUTER, d.value.attr) is None:
                        e, origin = d.value, d
                out.append((e, origin))
        return out

    def _read_after_load(self, h: Func, read, load) -> bool:
        """the statement `read` can only run after the statement `load` (which loaded the finder slot into a local)"""
        if load is None:
            return False        # the slot is loaded by the call expression itself, i.e. after every earlier statement
        cfg = cfg_of(h, self.p)
        loads = cfg.nodes_for(load)
        reads = cfg.nodes_for(read)
        if not loads or not reads:
            raise UnknownIdiom('%s: cannot place %s / %s in the control flow' % (h.qual, short(load), short(read)))
        return all(r not in loads and flow.dominated_by_nodes(cfg, r, loads) for r in reads)

    def sites(self, f: Func) -> List['FinderSite']:
        """the finder calls f makes: directly, or through ONE same-class helper method (which must not write router
        state and must contain exactly one finder call); arguments are expressed in f's scope"""
        p = self.p
        out = []
        for call, slot, load in self._direct(f):
            ex = self._expand(f, call, load)
            early = [(f, rd) for e, rd in ex if rd is not None and _self_attr(e) and not self._read_after_load(f, rd, load)]
            out.append(FinderSite(f, call, f, call, slot, [e for e, _rd in ex], early, None))
        for c in walk_self(f.node):
            if not (isinstance(c, ast.Call) and _self_attr(c.func)):
                continue
            h = p.lookup_method(ROUTER, c.func.attr)
            if h is None or h is f or h.is_property() or h.qual == getattr(getattr(self, 'stub', None), 'qual', None):
                continue
            inner = self._direct(h)
            if not inner or self.writes(h):
                continue
            if len(inner) != 1:
                raise UnknownIdiom('%s: helper %s calls the finder slot %d times' % (f.qual, h.name, len(inner)))
            call, slot, load = inner[0]
            ex = self._expand(h, call, load)
            binding = _bind_params(h, c)
            args, early = [], []
            for e, rd in ex:
                if isinstance(e, ast.Name) and e.id in binding:
                    if _rebinds(h, e.id):
                        raise UnknownIdiom('%s: helper %s rebinds its parameter %s' % (f.qual, h.name, e.id))
                    e = binding[e.id]
                    if e is None:
                        raise UnknownIdiom('%s: parameter of helper %s is not bound by %s' % (f.qual, h.name, short(c)))
                    # evaluated by the caller, i.e. before the helper loads the finder slot
                    rd_f = c
                    if isinstance(e, ast.Name):
                        d = _single_def(f, e.id)
                        if d is not None and _self_attr(d.value) and p.lookup_method(ROUTER, d.value.attr) is None:
                            e, rd_f = d.value, d
                    if _self_attr(e):
                        early.append((f, rd_f))
                elif rd is not None and _self_attr(e) and not self._read_after_load(h, rd, load):
                    early.append((h, rd))
                elif isinstance(e, ast.Name):
                    raise UnknownIdiom('%s: helper %s passes its local %s to the finder' % (f.qual, h.name, e.id))
                args.append(e)
            out.append(FinderSite(f, c, h, call, slot, args, early, h))
        return out


    def writes(self, f: Func, _stack=()) -> Set[str]:
        """self attributes written by f or (transitively) by the self-methods it calls and by the module-level helpers it hands
        `self` to (see call_writes)"""
        if f.qual in self._w:
            return self._w[f.qual]
        if f.qual in _stack:
            return set()
        out = {a for a, _n in self_writes(f)}
        for g in [f] + list(f.nested.values()):
            if g is not f:
                out |= self.writes(g, _stack + (f.qual,))
            for c in walk_self(g.node):
                if isinstance(c, ast.Call):
                    out |= self.call_writes(g, c, _stack + (f.qual,))
        if not _stack:
            self._w[f.qual] = out
        return out

    def call_writes(self, f: Func, c: ast.Call, _stack=()) -> Set[str]:
        """router attributes written by the call `c` made in the method f: ``self.<m>(..)`` -> writes(m); ``helper(self, ..)`` /
        ``helper(router=self)`` of a module-level function -> what the helper stores through the parameter that receives `self`"""
        if _self_attr(c.func):
            m = self.p.lookup_method(ROUTER, c.func.attr)
            return set(self.writes(m, _stack)) if m is not None else set()
        h, q = self.handed_self(f, c)
        if h is None:
            return set()
        return self.param_writes(h, q, _stack)

    def handed_self(self, f: Func, c: ast.Call, recv: str = 'self'):
        """(module-level function, parameter) when the call `c` in f passes the receiver `recv` itself to a resolved module-level
        function; (None, None) otherwise"""
        if not isinstance(c.func, (ast.Name, ast.Attribute)) or _self_attr(c.func):
            return None, None
        passed = [a for a in c.args if isinstance(a, ast.Name) and a.id == recv] + [k.value for k in c.keywords if isinstance(k.value, ast.Name) and k.value.id == recv]
        if not passed:
            return None, None
        h = self.p.callee(f, c)
        if not isinstance(h, Func) or h.cls is not None or h.parent is not None:
            return None, None
        try:
            binding = _bind_params(h, c)
        except UnknownIdiom:
            return None, None
        qs = [n for n, e in binding.items() if isinstance(e, ast.Name) and e.id == recv]
        if len(qs) != 1 or _rebinds(h, qs[0]):
            return None, None
        return h, qs[0]

    def view(self, h: Func, q: str) -> Func:
        """the module-level function h, handed the router as its parameter q, seen as if it were a method: a copy of its definition in which
        q is spelled `self` (line numbers kept), owned by the router class - so that the same-class reading applies to it unchanged"""
        import copy
        key = (h.qual, q)
        views = self.__dict__.setdefault('_views', {})
        if key not in views:
            if any(isinstance(x, ast.Name) and x.id == 'self' for x in ast.walk(h.node)) or 'self' in h.params():
                raise UnknownIdiom('%s: already uses the name self' % h.qual)
            node = copy.deepcopy(h.node)
            for x in ast.walk(node):
                if isinstance(x, ast.Name) and x.id == q:
                    x.id = 'self'
                elif isinstance(x, ast.arg) and x.arg == q:
                    x.arg = 'self'
            views[key] = Func(node, h.qual, h.module, cls=self.cls, parent=None)
        return views[key]

    def param_writes(self, h: Func, q: str, _stack=()) -> Set[str]:
        """router attributes the module-level function h stores through its parameter q (which receives the router)"""
        key = '%s(%s)' % (h.qual, q)
        if key in _stack or len(_stack) > 8:
            return set()
        out = {first for root, first, _n in _mutations(walk_self(h.node)) if root == q and first is not None}
        for c in walk_self(h.node):
            if not isinstance(c, ast.Call):
                continue
            if isinstance(c.func, ast.Attribute) and isinstance(c.func.value, ast.Name) and c.func.value.id == q:
                m = self.p.lookup_method(ROUTER, c.func.attr)
                if m is not None:
                    out |= self.writes(m, _stack + (key,))
            else:
                h2, q2 = self.handed_self(h, c, recv=q)
                if h2 is not None:
                    out |= self.param_writes(h2, q2, _stack + (key,))
        return out


def _stmt_of(f: Func, node):
    """the simple statement of f that contains `node`"""
    for s_ in walk_self(f.node):
        if isinstance(s_, ast.stmt) and not isinstance(s_, (ast.If, ast.For, ast.AsyncFor, ast.While, ast.With, ast.AsyncWith, ast.Try, ast.FunctionDef,
                                                           ast.AsyncFunctionDef, ast.ClassDef)) and any(x is node for x in ast.walk(s_)):
            return s_
    return None


def _lock_regions(rm: 'RouterModel', fn: Func, cfg):
    """(gates, region, any_with) of the function fn: `gates` = the CFG nodes at which the router's compile lock is taken, `region` = the nodes
    that run while it is held, `any_with` = the nodes inside any ``with`` block.  Two spellings are read: ``with <lock>:`` (region = the
    block) and ``<lock>.acquire()`` immediately followed by ``try: ... finally: <lock>.release()`` (region = the whole try statement bar the
    release; plain blocking acquire only).  An acquire in any other position is an unknown idiom."""
    gates: List[int] = []
    region: Set[int] = set()
    any_with: Set[int] = set()
    for n in cfg.live_nodes():
        if n.kind == 'with':
            any_with |= nodes_within(cfg, n.stmt.body)
            if any(rm.is_lock_expr(fn, i.context_expr) for i in n.stmt.items):
                gates.append(n.id)
                region |= nodes_within(cfg, n.stmt.body)

    def lock_call(st, name):
        return isinstance(st, ast.Expr) and isinstance(st.value, ast.Call) and isinstance(st.value.func, ast.Attribute) \
            and st.value.func.attr == name and rm.is_lock_expr(fn, st.value.func.value)

    for blk in ast.walk(fn.node):
        for field in ('body', 'orelse', 'finalbody'):
            stmts = getattr(blk, field, None)
            if not isinstance(stmts, list):
                continue
            for i, st in enumerate(stmts):
                if not lock_call(st, 'acquire'):
                    continue
                nxt = stmts[i + 1] if i + 1 < len(stmts) else None
                if st.value.args or st.value.keywords or not isinstance(nxt, ast.Try) or not any(lock_call(x, 'release') for x in nxt.finalbody):
                    raise UnknownIdiom('%s: %s is not directly followed by try/finally releasing the lock' % (fn.qual, short(st)))
                ids = cfg.nodes_for(st)
                if not ids:
                    continue
                gates += list(ids)
                region |= nodes_within(cfg, nxt.body) | nodes_within(cfg, nxt.orelse) | nodes_within(cfg, [h for h in nxt.handlers])
    for x in walk_self(fn.node):
        if isinstance(x, ast.Call) and isinstance(x.func, ast.Attribute) and x.func.attr == 'acquire' and rm.is_lock_expr(fn, x.func.value):
            st = _stmt_of(fn, x)
            if not lock_call(st, 'acquire'):
                raise UnknownIdiom('%s: the result of %s is used (non-blocking / timed acquisition is not understood)' % (fn.qual, short(x)))
    return gates, region, any_with


def r1_compile_lock(run):
    p = run.project
    rm = RouterModel(p)
    run.extra['c19_router'] = {'lock': rm.lock, 'finder_slot': rm.slot, 'stub': rm.stub.qual, 'tables': [t for _i, t in rm.tables]}
    f = rm.stub
    cfg = cfg_of(f, p)
    run.use_cfg(cfg)
    run.use_cfg(cfg_of(rm.find, p))
    # the function that takes the lock: the stub itself, or ONE same-class helper the stub calls (`self._ensure_compiled()`)
    lf, lcfg, via, via_call = f, cfg, None, None
    if not _lock_regions(rm, f, cfg)[0]:
        cands = []
        for n in cfg.live_nodes():
            for c in n.calls():
                h = None
                if _self_attr(c.func):
                    h = p.lookup_method(ROUTER, c.func.attr)
                    if h is not None and (h is f or h.is_property()):
                        h = None
                else:
                    h0, q0 = rm.handed_self(f, c)
                    if h0 is not None and any(isinstance(x, (ast.With, ast.Try)) for x in walk_self(h0.node)):
                        h = rm.view(h0, q0)     # a module-level function handed the router, read as a method
                if h is not None and _lock_regions(rm, h, cfg_of(h, p))[0]:
                    cands.append((n, c, h))
        if len(cands) > 1:
            raise UnknownIdiom('%s: the compile lock is taken by several helpers (%s)' % (f.qual, ', '.join(sorted({h.name for _n, _c, h in cands}))))
        if cands:
            via, via_call, lf = cands[0]
            lcfg = cfg_of(lf, p)
            run.use_cfg(lcfg)
            run.extra['c19_router']['lock_taken_in'] = lf.qual
    gates, region, any_with = _lock_regions(rm, lf, lcfg)
    # find() itself writes nothing
    for a, n in self_writes(rm.find):
        run.fail('find() writes shared router state outside any lock', rm.find, n, runtime_witness='two concurrent find() calls interfere')
    for c in walk_self(rm.find.node):
        if isinstance(c, ast.Call) and _self_attr(c.func):
            m = p.lookup_method(ROUTER, c.func.attr)
            if m is not None:
                run.check(not rm.writes(m), 'find() calls no method that writes router state (other than through the finder slot)', rm.find, c,
                          witness=sorted(rm.writes(m)))
    run.ok('find() performs no store into the router', rm.find.loc(), 'find: no self stores')
    # evaluation order inside find(): the finder slot must be loaded BEFORE the
    # tables are read (Python evaluates `self.slot(...)`'s callee first).  The
    # lazy compile publishes tables first and the finder last, so a reader that
    # loads the finder first always gets tables at least as new as the finder;
    # the opposite order can pair the freshly published finder with the stale
    # (empty) tables read a moment earlier.
    if rm.helper is not None:
        run.use_cfg(cfg_of(rm.helper, p))
        run.extra['c19_router']['finder_called_through'] = rm.helper.qual
    early_f, early_n = rm.tables_read_early if rm.tables_read_early is not None else (rm.site.host, rm.site.finder_call)
    run.check(rm.tables_read_early is None,
              'find() loads the finder slot before it reads the routing tables (publish order is tables, then finder)'
              + (' -- decided inside the helper %s() that find() calls' % rm.helper.name if rm.helper is not None else ''),
              early_f, early_n,
              runtime_witness='two first-ever requests: A builds the argument tuple with the empty tables, B compiles and publishes, '
                              'A loads the compiled finder and calls it with the stale tables -> IndexError (500)')
    # every write reachable from the stub is inside `with self.<lock>`
    n_w = 0
    lock_writes: List = []
    scopes = [(lf, lcfg, region, any_with)]
    if lf is not f:
        # the stub's own writes: only the call of the helper that takes the lock (its writes are examined inside the helper)
        scopes.append((f, cfg, set(), set()))
    for wf, wcfg, wregion, wany in scopes:
      for n in wcfg.live_nodes():
        written: Set[str] = set()
        construct = None
        for x in n.own():
            for sub in walk_self(x):
                if isinstance(sub, ast.Call):
                    if wf is f and lf is not f and sub is via_call:
                        continue
                    cw = rm.call_writes(wf, sub)
                    if cw:
                        written |= cw
                        construct = construct or sub
        if n.kind == 'stmt':
            fake = type('F', (), {'node': ast.Module(body=[n.ast], type_ignores=[])})
            for a, st in self_writes(fake):
                written.add(a)
                construct = construct or st
        if not written:
            continue
        if rm.lock in written:
            # the lock that serialises the first compile is itself (re)bound on the request path
            lock_writes.append(n)
            if n.id in (wany - wregion):
                raise UnknownIdiom('%s: self.%s is bound inside another `with` block (%s); whether that block serialises the creation of the '
                                   'compile lock is not understood' % (wf.qual, rm.lock, n.text()))
            run.fail('lazy compile: the lock self.%s that serialises the first compilation is created by the constructor, before the router is shared; '
                     'here it is created/rebound on the request path (check-then-act on shared state: every racing first request may install and '
                     'take ITS OWN lock)' % rm.lock, wf, construct if construct is not None else n.text(), where='%s:%s' % (wf.file, n.lineno),
                     witness=['%s: %s' % (m_.loc(s_), short(s_)) for m_, s_ in rm.lock_created_late] or None,
                     runtime_witness='two first-ever requests both read self.%s as None, each creates a Lock of its own, both pass the re-check '
                                     'and run the table builder concurrently: one renders the other\'s half-built tree -> 500 / 404 for a valid route' % rm.lock)
            written.discard(rm.lock)
            if not written:
                continue
        n_w += 1
        run.check(n.id in wregion, 'lazy compile: the write of %s happens inside `with self.%s`' % (', '.join(sorted(written)), rm.lock), wf,
                  construct if construct is not None else n.text(), where='%s:%s' % (wf.file, n.lineno),
                  runtime_witness='two first requests compile concurrently: one resets the tables while the other one (or a third request) routes with them '
                                  '-> wrong route / IndexError / 404')
    if n_w == 0:
        raise AnchorError('%s writes nothing' % f.qual)
    if rm.lock_created_late and not lock_writes:
        # created neither by the constructor nor on the lazy-compile path: some other method (configuration time?) owns it
        raise UnknownIdiom('%s: the compile lock self.%s is created by %s, neither by the constructor nor on the lazy-compile path; '
                           'whether it exists before the router is shared is not understood'
                           % (ROUTER, rm.lock, ', '.join(sorted({m_.name for m_, _s in rm.lock_created_late}))))
    if not lock_writes:
        run.ok('lazy compile: the lock self.%s is created by the constructor and never rebound on the lazy-compile path' % rm.lock,
               rm.init.loc(), 'self.%s = Lock() in __init__ only' % rm.lock)
    # publication of the finder: inside the lock, re-checked, after the build
    pubs = [n for n in lcfg.live_nodes() if n.kind == 'stmt' and isinstance(n.ast, ast.Assign) and any(_self_attr(t, rm.slot) for t in n.ast.targets)]
    if not pubs:
        raise AnchorError('%s never assigns self.%s' % (lf.qual, rm.slot))

    def still_stub(e):
        if isinstance(e, ast.Compare) and len(e.ops) == 1:
            a, b = e.left, e.comparators[0]
            pair = {(_self_attr(a, rm.slot), _self_attr(b, rm.stub.name)), (_self_attr(b, rm.slot), _self_attr(a, rm.stub.name))}
            if (True, True) in pair:
                if isinstance(e.ops[0], (ast.Eq, ast.Is)):
                    return True
                if isinstance(e.ops[0], (ast.NotEq, ast.IsNot)):
                    return False
        return None

    def recheck_expr(t):
        """the test as a predicate over self.<slot>: same-class side-effect-free properties / zero-argument helpers inlined
        (`not self.is_compiled` with `is_compiled = self._find != self._stub` reads `not (self._find != self._stub)`), a local
        bound once UNDER THE LOCK replaced by its value"""
        import copy
        e = copy.deepcopy(t.ast)

        class Loc(ast.NodeTransformer):
            def visit_Name(self, node):
                if isinstance(node.ctx, ast.Load):
                    d = _single_def(lf, node.id)
                    if d is not None:
                        ids = lcfg.nodes_for(d)
                        if ids and all(i in region for i in ids) and all(flow.dominated_by_nodes(lcfg, t.id, [i]) for i in ids):
                            return copy.deepcopy(d.value)
                return node

        return rm.inline_pure(Loc().visit(e))

    tests_in_region = [(t, recheck_expr(t)) for t in lcfg.live_nodes() if t.kind == 'test' and t.id in region]
    for s in pubs:
        ok = False
        for t, texpr in tests_in_region:
            for lab, truth in (('T', True), ('F', False)):
                for pol in (True, False):
                    r = implied(texpr, truth, lambda e, pol=pol: still_stub(e) is pol)
                    if r is not None and (r if pol else not r) is True and any(flow.dominated_by_edge(lcfg, s.id, e) for e in flow.edges_out(lcfg, t.id, lab)):
                        ok = True
        run.check(ok, 'lazy compile: under the lock it is re-checked that the finder slot still holds the stub (only one compilation)', lf, s.ast,
                  runtime_witness='a second first-request recompiles: it resets the tables while compiled finders of other threads are using them')
        # RHS is the compile call (evaluated to completion before the store) or a local bound to it
        v = s.ast.value
        src = v
        if isinstance(v, ast.Name):
            defs = [m for m in lcfg.live_nodes() if m.kind == 'stmt' and isinstance(m.ast, ast.Assign) and any(isinstance(t, ast.Name) and t.id == v.id for t in m.ast.targets)]
            if len(defs) == 1 and flow.dominated_by_nodes(lcfg, s.id, [defs[0].id]):
                src = defs[0].ast.value
        builder = None
        if isinstance(src, ast.Call) and _self_attr(src.func):
            builder = p.lookup_method(ROUTER, src.func.attr)
        built = builder is not None and {t for _i, t in rm.tables} <= rm.writes(builder)
        run.check(built, 'lazy compile: the finder is published only after the call that (re)builds the tables %s has returned' % [t for _i, t in rm.tables],
                  lf, s.ast, runtime_witness='a concurrent request sees the new finder with empty/half-built tables -> IndexError or a wrong route')
        if builder is not None:
            run.check(rm.slot not in rm.writes(builder), 'lazy compile: the builder itself never assigns the finder slot (tables before function pointer)',
                      builder, '%s writes %s' % (builder.name, rm.slot) if rm.slot in rm.writes(builder) else builder.name,
                      runtime_witness='the finder becomes visible before the tables are complete')
            # within the builder the tables are replaced, not mutated in place before being rebuilt
    # after the lock the current tables are re-read
    stub_sites = rm.sites(f)
    if not stub_sites:
        raise AnchorError('%s does not call the finder' % f.qual)
    # the routing call of the stub runs after the lock was taken -- or on a path on which a test has just found the finder slot NOT to
    # hold the stub any more (double-checked locking: the compiled finder is published after its tables, so whoever sees it may use it)
    gate_ids = list(gates) if lf is f else [via.id]
    published_edges = []
    for t in cfg.live_nodes():
        if t.kind != 'test':
            continue
        texpr = rm.inline_pure(t.ast)
        for lab, truth in (('T', True), ('F', False)):
            for pol in (True, False):
                r = implied(texpr, truth, lambda e, pol=pol: still_stub(e) is pol)
                if r is not None and (r if pol else not r) is False:
                    published_edges += flow.edges_out(cfg, t.id, lab)
    for st in stub_sites:
        c = st.call
        st_ = _stmt_of(f, c)
        nids = (cfg.nodes_for(st_) if st_ is not None else []) or [n.id for n in cfg.live_nodes() if any(x is c for x in n.walk())]
        if not nids:
            raise UnknownIdiom('%s: cannot place %s in the control flow' % (f.qual, short(c)))
        if st.helper is not None:
            run.use_cfg(cfg_of(st.helper, p))
        free = flow.reachable(cfg, [cfg.entry], avoid_nodes=gate_ids, avoid_edges=published_edges) if gate_ids else set(nids)
        run.check(bool(gate_ids) and not any(nid in free for nid in nids),
                  'lazy compile: the routing call happens after the lock was taken (and released or the build finished)', f, c)
        bad = [(i, t) for (i, t) in rm.tables if not (i < len(st.args) and _self_attr(st.args[i], t))]
        run.check(not bad, 'lazy compile: the finder is called with the *current* tables (re-read from self), not with the stale ones received as arguments',
                  f, c, witness=['argument %d should be self.%s' % b for b in bad],
                  runtime_witness='the very first request is routed with the empty tables created in __init__ -> 404 for a valid route')


# ---------------------------------------------------------------------------
# R2
# ---------------------------------------------------------------------------

R2_ENTRIES = [
    # (class, entry methods that run per request)
    (WSGI_APP, ['__call__']),
    (ASGI_APP, ['__call__']),
    (ROUTER, ['find']),
    ('falcon.routing.static.StaticRoute', ['__call__', 'match']),
    ('falcon.routing.static.StaticRouteAsync', ['__call__', 'match']),
    ('falcon.middleware.CORSMiddleware', ['process_response', 'process_response_async']),
    ('falcon.media.handlers.Handlers', ['_create_resolver']),
]
R2_FAMILIES = [
    ('falcon.media.base.BaseHandler', ['serialize', 'deserialize', 'serialize_async', 'deserialize_async', '_serialize_sync', '_deserialize_sync']),
    ('falcon.media.base.TextBaseHandlerWS', ['serialize', 'deserialize']),
    ('falcon.media.base.BinaryBaseHandlerWS', ['serialize', 'deserialize']),
    ('falcon.routing.converters.BaseConverter', ['convert']),
]
# writes that are legitimate: (function qual, attribute) -> one-line reason
R2_ALLOWED: Dict[Tuple[str, str], str] = {
}


MIDDLEWARE_MODULE = 'falcon.middleware'
_MW_PER_REQUEST = re.compile(r'^(process_(request|resource|response)(_ws|_async)?|__call__)$')


def _origin_attr(origin: str) -> str:
    """first attribute after `self.` in an origin text produced by _shared_origin"""
    m = re.search(r'self\.([A-Za-z_][A-Za-z_0-9]*)', origin)
    return m.group(1) if m else origin


def r2_no_request_state(run):
    p = run.project
    todo: List[Tuple[Class, Func]] = []
    for cq, names in R2_ENTRIES:
        c = p.cls(cq)
        for nm in names:
            m = p.lookup_method(cq, nm)
            if m is None:
                raise AnchorError('%s.%s not found' % (cq, nm))
            todo.append((c, m))
    for app in (WSGI_APP, ASGI_APP):
        for cq in p.mro(app):
            c0 = p.classes.get(cq)
            if c0 is None or '__init__' not in c0.methods:
                continue
            for x in walk_self(c0.methods['__init__'].node):
                if isinstance(x, ast.Call):
                    for a in list(x.args) + [k.value for k in x.keywords]:
                        if _self_attr(a):
                            m = p.lookup_method(app, a.attr)
                            if m is not None and not m.is_property():
                                todo.append((p.classes[app], m))
    # per-request methods of the middleware classes falcon ships (derived, not listed): the app calls the bound
    # methods process_request / process_resource / process_response (+ _async, + _ws) of ONE shared instance for every
    # request; a callable middleware-like class is entered through __call__
    mw_mod = p.module(MIDDLEWARE_MODULE)
    mw_entries = []
    for _cn, c in sorted(mw_mod.classes.items()):
        for nm, m in sorted(c.methods.items()):
            if _MW_PER_REQUEST.match(nm) and not m.is_property():
                mw_entries.append('%s.%s' % (c.qual, nm))
                todo.append((c, m))
    if not mw_entries:
        raise AnchorError('%s: no middleware class with a per-request process_* method' % MIDDLEWARE_MODULE)
    run.extra['c19_middleware_request_path'] = mw_entries
    for base, names in R2_FAMILIES:
        p.cls(base)
        for cq in sorted(p.subclasses(base)):
            if not _in_scope(p.classes[cq].module.name):
                continue
            for nm in names:
                m = p.lookup_method(cq, nm)
                if m is not None:
                    todo.append((p.classes[cq], m))
    seen = set()
    for c, entry in todo:
        # Handlers._create_resolver runs at configuration time; its nested resolver runs per request
        funcs = self_closure(p, entry)
        if entry.name == '_create_resolver':
            funcs = [g for g in funcs if g.parent is not None]
            if not funcs:
                raise AnchorError('%s: nested resolver not found' % entry.qual)
        for g in funcs:
            if g.qual in seen:
                continue
            seen.add(g.qual)
            run.use(g)
            ws = self_writes(g)
            ws = [(a, n) for (a, n) in ws if (g.qual, a) not in R2_ALLOWED]
            # a store through a local that aliases state reachable from self is a store into the shared object
            al = [(nm, o, n) for (nm, o, n) in alias_writes(p, g) if (g.qual, _origin_attr(o)) not in R2_ALLOWED]
            if not ws and not al:
                run.ok('request path of %s: %s stores nothing into the shared object (directly or through a local alias of self.<attr>)'
                       % (c.name, g.name), g.loc(), g.qual)
            for a, n in ws:
                run.fail('request path of the shared %s: %s writes self.%s' % (c.name, g.name, a), g, n,
                         runtime_witness='two concurrent requests overwrite each other\'s value of %s.%s (one request observes the other\'s data)' % (c.name, a))
            for nm, o, n in al:
                run.fail('request path of the shared %s: %s stores into %s through its local alias `%s` (no fresh copy was taken)' % (c.name, g.name, o, nm),
                         g, n, witness=['%s is bound from %s' % (nm, o)],
                         runtime_witness='two concurrent requests write their own data into the one object %s of the shared %s; '
                                         'one of them reads back (or sends) the other\'s values' % (o, c.name))
    _r2_shared_handles_of_request_objects(run)


def _configuration_classes(p) -> Dict[str, str]:
    """class qual -> 'Owner.__init__: self.a = ...' for the package classes an instance of which a SHARED object (the apps, the router,
    every media handler, every middleware class) creates and keeps on itself in its ``__init__``: option/configuration objects that live as
    long as the app and are seen by every request."""
    owners: List[str] = [q for app in (WSGI_APP, ASGI_APP) for q in p.mro(app) if q in p.classes] + [ROUTER]
    for base, _names in R2_FAMILIES:
        owners += [base] + sorted(p.subclasses(base))
    owners += [c.qual for c in p.module(MIDDLEWARE_MODULE).classes.values()]
    out: Dict[str, str] = {}
    work = list(dict.fromkeys(owners))
    seen = set()
    while work:
        oq = work.pop(0)
        if oq in seen or oq not in p.classes or not _in_scope(p.classes[oq].module.name):
            continue
        seen.add(oq)
        init = p.classes[oq].methods.get('__init__')
        if init is None:
            continue
        for n in walk_self(init.node):
            if not isinstance(n, (ast.Assign, ast.AnnAssign)) or getattr(n, 'value', None) is None:
                continue
            tg = n.targets if isinstance(n, ast.Assign) else [n.target]
            if not any(_self_attr(t) for t in tg):
                continue
            for c in ast.walk(n.value):
                if isinstance(c, ast.Call):
                    q = p.resolve_expr(init.module, c.func, init)
                    if q in p.classes and _in_scope(p.classes[q].module.name) and not _is_immutable_class(p, q):
                        out.setdefault(q, '%s: %s' % (init.qual, short(n)))
                        work.append(q)      # what a configuration object keeps is configuration too
    return out


def _shared_handle_attrs(p, cq: str, config: Dict[str, str]) -> Dict[str, str]:
    """attribute of the per-request class `cq` -> why it denotes shared state: ``self.<attr> = <parameter>`` in the class's ``__init__``
    where the parameter is annotated with a configuration class (see _configuration_classes)"""
    init = p.lookup_method(cq, '__init__')
    if init is None:
        return {}
    ann: Dict[str, str] = {}
    a = init.node.args
    for arg in a.posonlyargs + a.args + a.kwonlyargs:
        if arg.annotation is None:
            continue
        for x in ast.walk(arg.annotation):
            if isinstance(x, (ast.Name, ast.Attribute)):
                q = p.resolve_expr(init.module, x, init)
                if q in config:
                    ann[arg.arg] = q
            elif isinstance(x, ast.Constant) and isinstance(x.value, str):
                try:
                    sub = ast.parse(x.value, mode='eval').body
                except SyntaxError:
                    continue
                for y in ast.walk(sub):
                    if isinstance(y, (ast.Name, ast.Attribute)):
                        q = p.resolve_expr(init.module, y, init)
                        if q in config:
                            ann[arg.arg] = q
    out: Dict[str, str] = {}
    for n in walk_self(init.node):
        if isinstance(n, (ast.Assign, ast.AnnAssign)) and getattr(n, 'value', None) is not None:
            tg = n.targets if isinstance(n, ast.Assign) else [n.target]
            v = n.value
            srcs = [v] + (list(v.values) if isinstance(v, ast.BoolOp) else [v.body, v.orelse] if isinstance(v, ast.IfExp) else [])
            for t in tg:
                if _self_attr(t):
                    for s in srcs:
                        if isinstance(s, ast.Name) and s.id in ann:
                            out[t.attr] = '%s binds self.%s to its parameter %s: %s, the object created and kept by %s' % (
                                init.qual, t.attr, s.id, ann[s.id].rsplit('.', 1)[1], config[ann[s.id]])
    return out


def _stores_through_self_attr(f: Func, attrs) -> List[Tuple[str, ast.AST]]:
    """(attr, construct) for every store into an attribute/subscript OF ``self.<attr>`` (attr in attrs) and every in-place mutator called on
    it (or below it) in f; rebinding ``self.<attr>`` itself is the per-request object's own business"""
    out = []
    for n in walk_self(f.node):
        tgts = []
        if isinstance(n, ast.Assign):
            tgts = list(n.targets)
        elif isinstance(n, (ast.AugAssign, ast.AnnAssign)):
            tgts = [n.target] if not (isinstance(n, ast.AnnAssign) and n.value is None) else []
        elif isinstance(n, ast.Delete):
            tgts = list(n.targets)
        elif isinstance(n, (ast.For, ast.AsyncFor)):
            tgts = [n.target]
        elif isinstance(n, (ast.With, ast.AsyncWith)):
            tgts = [i.optional_vars for i in n.items if i.optional_vars is not None]
        flat = []
        for t in tgts:
            if isinstance(t, (ast.Tuple, ast.List)):
                flat.extend(x.value if isinstance(x, ast.Starred) else x for x in ast.walk(t) if isinstance(x, (ast.Attribute, ast.Subscript, ast.Starred)))
            else:
                flat.append(t)
        for t in flat:
            if isinstance(t, (ast.Attribute, ast.Subscript)) and not _self_attr(t):
                root, first = _root_and_first(t)
                if root == 'self' and first in attrs:
                    out.append((first, n))
        if isinstance(n, ast.Call) and isinstance(n.func, ast.Attribute) and n.func.attr in MUTATORS:
            root, first = _root_and_first(n.func.value)
            if root == 'self' and first in attrs:
                out.append((first, n))
        if isinstance(n, ast.Call) and isinstance(n.func, ast.Name) and n.func.id in ('setattr', 'delattr') and n.args:
            root, first = _root_and_first(n.args[0])
            if root == 'self' and first in attrs:
                out.append((first, n))
    return out


# the per-request objects of the media layer that are handed the handler's options object (anchors: each must still bind one)
R2_REQUEST_OBJECTS_WITH_SHARED_HANDLE = ['falcon.media.multipart.MultipartForm', 'falcon.media.multipart.BodyPart',
                                         'falcon.asgi.multipart.MultipartForm', 'falcon.asgi.multipart.BodyPart']


def _r2_shared_handles_of_request_objects(run):
    """R2, per-request objects holding a handle on shared configuration (wave 8, seeded s8-c19-2).  The per-request classes are private to a
    request, but an attribute that their ``__init__`` binds to a parameter annotated with a configuration class - a class an instance of
    which a shared object (app, router, media handler, middleware) creates and keeps in its own ``__init__``; e.g.
    ``MultipartForm._parse_options`` <- ``MultipartFormHandler.parse_options`` - is an ALIAS OF SHARED STATE.  No method of such a class
    (sync or async, nested functions included; ``__init__`` excepted) stores into an attribute/subscript of that object, calls an
    in-place mutator on it, or does so through a local alias of it.
    W: one client posts a form with ``_charset_=iso-8859-1``; the parser writes it to ``self._parse_options.default_charset``; every
    request in flight and every later one decodes its un-annotated text parts with that client's charset."""
    p = run.project
    config = _configuration_classes(p)
    run.extra['c19_configuration_classes'] = {k: v for k, v in sorted(config.items())}
    classes: List[str] = []
    for b in PER_REQUEST_BASES:
        p.cls(b)
        for cq in [b] + sorted(p.subclasses(b)):
            if cq not in classes and _in_scope(p.classes[cq].module.name):
                classes.append(cq)
    handles: Dict[str, Dict[str, str]] = {cq: _shared_handle_attrs(p, cq, config) for cq in classes}
    for cq in R2_REQUEST_OBJECTS_WITH_SHARED_HANDLE:
        if not handles.get(cq):
            raise AnchorError('%s.__init__: the attribute bound to the media handler\'s shared options object was not found' % cq)
    run.extra['c19_shared_handles'] = {cq: sorted(h) for cq, h in handles.items() if h}
    by_class: Dict[str, List[Func]] = {}
    for g in p.all_functions():
        oc = func_owner_class(g)
        if oc is not None and handles.get(oc.qual):
            by_class.setdefault(oc.qual, []).append(g)
    for cq in classes:
        attrs = dict(handles.get(cq) or {})
        if not attrs:
            continue
        # (inherited methods are decided under the class that defines them, with the handles its __init__ binds)
        funcs = list(by_class.get(cq, []))
        c = p.classes[cq]
        for g in funcs:
            if g.name == '__init__' and g.cls is not None:
                continue
            run.use(g)
            direct = _stores_through_self_attr(g, attrs)
            al = [(nm, o, n) for (nm, o, n) in alias_writes(p, g) if _origin_attr(o) in attrs]
            if not direct and not al:
                run.ok('per-request %s: %s stores nothing into the shared object(s) behind self.%s' % (c.name, g.name, '/self.'.join(sorted(attrs))),
                       g.loc(), g.qual)
            rw = ('a value taken from one request is written into the options object every request of the app reads (%s): '
                  'requests in flight and all later ones are processed with that request\'s value')
            for a, n in direct:
                run.fail('per-request %s: %s stores into the shared object behind self.%s' % (c.name, g.name, a), g, n,
                         witness=[attrs[a]], runtime_witness=rw % attrs[a].split(', the object')[0])
            for nm, o, n in al:
                a = _origin_attr(o)
                run.fail('per-request %s: %s stores into the shared object behind self.%s through its local alias `%s`' % (c.name, g.name, a, nm), g, n,
                         witness=[attrs[a], '%s is bound from %s' % (nm, o)], runtime_witness=rw % attrs[a].split(', the object')[0])


# ---------------------------------------------------------------------------
# R3
# ---------------------------------------------------------------------------

# module-level / default-argument / class-level mutable objects that are legitimate.
# kind: const   = never written by any function of the package (checked)
#       registry = written only by the listed configuration-time functions (checked)
#       memo    = cache whose value is a pure function of its key (checked: purity of the cached function)
#       instance = object of a package class none of whose methods (except __init__) stores into self (checked) or listed reason
R3_ALLOWED: Dict[str, Tuple[str, str]] = {
    'falcon.asgi.app._EVT_RESP_EOF': ('const', 'constant end-of-response ASGI event, only ever passed to send()'),
    'falcon.constants.HTTP_METHODS': ('const', 'RFC 7231/5789 method names, read-only table'),
    'falcon.constants.WEBDAV_METHODS': ('const', 'WebDAV method names, read-only table'),
    'falcon.constants.FALCON_CUSTOM_HTTP_METHODS': ('const', 'computed once from the environment at import time'),
    'falcon.constants._META_METHODS': ('const', 'read-only table'),
    'falcon.util.uri._HEX_TO_BYTE': ('const', 'percent-decoding lookup table built at import time'),
    'falcon.inspect._supported_routers': ('registry:falcon.inspect.register_router.wraps', 'router-inspection registry filled by the @register_router decorator at import time'),
    'falcon.asgi._asgi_helpers._validate_asgi_scope': ('memo', 'lru_cache of a pure validation of three strings'),
    'falcon.asgi.ws._supports_reason': ('memo', 'lru_cache of a pure version comparison'),
    'falcon.media.handlers._best_match': ('memo', 'lru_cache (PyPy only) of a pure media-type match'),
    'falcon.media.handlers.Handlers._create_resolver.resolve': ('memo-instance', 'per-Handlers lru_cache; invalidated by __setitem__/__delitem__ (C11 R4)'),
    'falcon.util.mediatypes._parse_media_type': ('memo', 'lru_cache of the pure parser _MediaType.parse; results are never mutated'),
    'falcon.util.mediatypes._parse_media_range': ('memo', 'lru_cache of the pure parser _MediaRange.parse; results are never mutated'),
    'falcon.util.mediatypes._parse_media_ranges': ('memo', 'lru_cache of a pure parser returning a tuple'),
    'falcon.util.mediatypes.quality': ('memo', 'lru_cache of a pure function of two strings'),
    'falcon.util.misc.http_status_to_code': ('memo', 'lru_cache of a pure normalisation'),
    'falcon.util.misc.code_to_http_status': ('memo', 'lru_cache of a pure normalisation'),
    'falcon.media.json._DEFAULT_JSON_HANDLER': ('instance', 'stateless JSON handler (configuration fixed in __init__)'),
    'falcon.http_error._DEFAULT_JSON_HANDLER': ('instance', 'the same stateless JSON handler object, injected into http_error to break an import cycle'),
    'falcon.media.multipart.MultipartParseOptions._DEFAULT_HANDLERS': ('instance-copied', 'template Handlers; every MultipartParseOptions takes a .copy() of it'),
    'falcon.util.sync._active_runner': ('not-request-path', 'event-loop runner of async_to_sync(); a sync-bridge/test utility not reachable from either App.__call__'),
    'falcon.asgi.request.Request.get_header._name_cache': ('memo-default', 'header-name memo: value = name.lower().encode(), a pure function of the key'),
}

PER_REQUEST_BASES = [
    'falcon.request.Request', 'falcon.response.Response', 'falcon.asgi.ws.WebSocket', 'falcon.asgi.ws._BufferedReceiver',
    'falcon.stream.BoundedStream', 'falcon.asgi.stream.BoundedStream', 'falcon.util.reader.BufferedReader', 'falcon.asgi.reader.BufferedReader',
    'falcon.media.multipart.MultipartForm', 'falcon.media.multipart.BodyPart', 'falcon.asgi.multipart.MultipartForm', 'falcon.asgi.multipart.BodyPart',
    'falcon.util.structures.Context', 'falcon.util.structures.ETag', 'falcon.asgi.structures.SSEvent', 'falcon.forwarded.Forwarded',
]
CLASS_ATTR_EXEMPT = {'__slots__': 'consumed by type() when the class is created', '__all__': 'module export list',
                     '__match_args__': 'consumed by the interpreter'}


def _mutable_kind(p, module, e, func=None) -> Optional[str]:
    """'dict literal', 'call list()', 'lru_cache', 'instance of X' ... or None when not (known to be) mutable"""
    if isinstance(e, ast.Dict):
        return 'dict literal'
    if isinstance(e, ast.List):
        return 'list literal'
    if isinstance(e, ast.Set):
        return 'set literal'
    if isinstance(e, (ast.ListComp, ast.DictComp, ast.SetComp)):
        return 'comprehension'
    if isinstance(e, ast.Call):
        q = p.resolve_expr(module, e.func, func)
        if q in MUTABLE_CTORS:
            return 'call %s()' % q.split('.')[-1]
        if q in LRU_WRAPPERS:
            return 'lru_cache'
        if isinstance(e.func, ast.Call):
            q2 = p.resolve_expr(module, e.func.func, func)
            if q2 in LRU_WRAPPERS:
                return 'lru_cache'
        if q in p.classes and not _is_immutable_class(p, q):
            return 'instance of %s' % q
    return None


def _is_immutable_class(p, q) -> bool:
    return any(p.is_subclass(q, b) is True for b in ('builtins.BaseException', 'builtins.str', 'builtins.int', 'builtins.tuple', 'builtins.frozenset', 'enum.Enum'))


def _lru_decorated(p, f: Func) -> bool:
    for d in f.node.decorator_list:
        e = d.func if isinstance(d, ast.Call) else d
        q = p.resolve_expr(f.module, e, f.parent)
        if q in LRU_WRAPPERS:
            return True
        last = e.attr if isinstance(e, ast.Attribute) else (e.id if isinstance(e, ast.Name) else '')
        if q is None and last in ('lru_cache', 'cache', 'cached_property', '_lru_cache_for_simple_logic'):
            return True
    return False


def _writers_of_symbol(p, qual: str) -> List[Tuple[Func, ast.AST]]:
    """functions (in scope) that store into / mutate the module-level object `qual`"""
    mod, _, name = qual.rpartition('.')
    out = []
    for g in p.all_functions():
        if not _in_scope(g.module.name):
            continue
        for n in walk_self(g.node):
            exprs = []
            if isinstance(n, ast.Assign):
                exprs = [t for t in n.targets]
            elif isinstance(n, (ast.AugAssign,)):
                exprs = [n.target]
            elif isinstance(n, ast.Delete):
                exprs = list(n.targets)
            elif isinstance(n, ast.Call) and isinstance(n.func, ast.Attribute) and n.func.attr in MUTATORS:
                exprs = [n.func]  # chain root = the object
            for t in exprs:
                base = t
                depth = 0
                while isinstance(base, (ast.Subscript, ast.Attribute)):
                    # resolve every prefix
                    q = p.resolve_expr(g.module, base, g) if isinstance(base, ast.Attribute) else None
                    if q == qual and depth > 0:
                        out.append((g, n))
                        break
                    base = base.value
                    depth += 1
                else:
                    if isinstance(base, ast.Name):
                        q = p.resolve_expr(g.module, base, g)
                        if q == qual and (depth > 0 or _declares_global(g, base.id)):
                            out.append((g, n))
    return out


def _declares_global(g: Func, name: str) -> bool:
    return any(isinstance(n, (ast.Global, ast.Nonlocal)) and name in n.names for n in walk_self(g.node))


def _pure(p, f: Func, inventory: Set[str], memo_ok: Set[str]) -> Optional[str]:
    """None if f reads only its arguments, immutable module constants and other memoised/pure callables; else the reason."""
    for n in walk_self(f.node):
        if isinstance(n, (ast.Global, ast.Nonlocal)):
            return 'declares %s' % ', '.join(n.names)
        if isinstance(n, ast.Name) and isinstance(n.ctx, ast.Load):
            q = p.resolve_expr(f.module, n, f)
            if q in inventory and q not in memo_ok:
                return 'reads the mutable module object %s' % q
        if isinstance(n, ast.Attribute) and isinstance(n.ctx, ast.Load):
            q = p.resolve_expr(f.module, n, f)
            if q in inventory and q not in memo_ok:
                return 'reads the mutable module object %s' % q
        if isinstance(n, (ast.Assign, ast.AugAssign)):
            tg = n.targets if isinstance(n, ast.Assign) else [n.target]
            for t in tg:
                if isinstance(t, (ast.Attribute, ast.Subscript)):
                    root, _first = _root_and_first(t)
                    if root in f.params():
                        return 'stores into its argument %s' % root
        if isinstance(n, ast.Call) and isinstance(n.func, ast.Attribute) and n.func.attr in MUTATORS:
            root, _first = _root_and_first(n.func.value)
            if root in f.params() and root not in ('self', 'cls'):
                return 'mutates its argument %s' % root
    return None


_IMMUTABLE_ELEMENT = (str, bytes, int, float, bool, type(None), tuple, frozenset)
_COPYING_CALLS = ('list', 'tuple', 'set', 'frozenset', 'sorted', 'len', 'dict', 'enumerate', 'any', 'all', 'sum', 'min', 'max', 'iter', 'reversed', 'zip', 'map', 'filter', 'bool',
                  'repr', 'str')


def _constant_display(p, m, node) -> bool:
    """the module-level statement binds a NON-EMPTY list / set / dict display every element (key, value) of which folds to an immutable
    constant.  (An empty container is a cache waiting to be filled, not a table.)"""
    v = node.value if isinstance(node, (ast.Assign, ast.AnnAssign)) else node
    if isinstance(v, (ast.List, ast.Set)):
        elts = list(v.elts)
    elif isinstance(v, ast.Dict):
        if any(k is None for k in v.keys):
            return False
        elts = list(v.keys) + list(v.values)
    else:
        return False
    if not elts or any(isinstance(e, ast.Starred) for e in elts):
        return False
    for e in elts:
        x = p.fold(m, e)
        if not isinstance(x, _IMMUTABLE_ELEMENT):
            return False
        if isinstance(x, tuple) and not all(isinstance(y, _IMMUTABLE_ELEMENT) and not isinstance(y, tuple) for y in x):
            return False
    return True


def _escaping_use(p, q: str, m):
    """(where, node) of the first use of the module-level object q that is not a plain read of its contents; None when every use is one of:
    ``list(X)`` and the other copying / reducing builtins, ``X.copy()`` / ``.get`` / ``.keys`` / ``.values`` / ``.items`` / ``.index`` /
    ``.count``, ``sep.join(X)``, ``X[...]`` (load), ``a in X``, comparison, ``for .. in X``, ``[*X]`` / ``{**X}``, ``X + y`` / ``X | y``,
    a truth test.  Looked for in every function of the package and in the top-level / class-level code of every module."""
    name = q.rsplit('.', 1)[1]
    by_def = {id(g.node): g for g in p.all_functions()}
    for mn, m2 in sorted(p.modules.items()):
        if not any((isinstance(n, ast.Name) and n.id == name) or (isinstance(n, ast.Attribute) and n.attr == name) or (isinstance(n, ast.alias) and n.name == name)
                   for n in ast.walk(m2.tree)):
            continue
        par: Dict[int, ast.AST] = {}
        for n in ast.walk(m2.tree):
            for ch in ast.iter_child_nodes(n):
                par[id(ch)] = n
        for n in ast.walk(m2.tree):
            if not isinstance(n, (ast.Name, ast.Attribute)) or not isinstance(getattr(n, 'ctx', None), ast.Load):
                continue
            if isinstance(n, ast.Name) and n.id != name and n.id not in m2.imports:
                continue
            if isinstance(n, ast.Attribute) and n.attr != name:
                continue
            up = par.get(id(n))
            g = None
            while up is not None:
                if id(up) in by_def:
                    g = by_def[id(up)]
                    break
                up = par.get(id(up))
            r = p.resolve_expr(m2, n, g)
            if r is None or p.canonical(r) != q:
                continue
            up = par.get(id(n))
            where = g.qual if g is not None else m2.name
            ok = False
            if isinstance(up, ast.Call) and n in up.args and isinstance(up.func, ast.Name) and up.func.id in _COPYING_CALLS:
                ok = True
            elif isinstance(up, ast.Call) and n in up.args and isinstance(up.func, ast.Attribute) and up.func.attr == 'join':
                ok = True
            elif isinstance(up, ast.Attribute) and up.value is n and isinstance(par.get(id(up)), ast.Call) and par[id(up)].func is up \
                    and up.attr in ('copy', 'get', 'keys', 'values', 'items', 'index', 'count', '__contains__', '__len__'):
                ok = True
            elif isinstance(up, ast.Subscript) and up.value is n and isinstance(up.ctx, ast.Load):
                ok = True
            elif isinstance(up, ast.Compare):
                ok = True
            elif isinstance(up, (ast.For, ast.AsyncFor, ast.comprehension)) and up.iter is n:
                ok = True
            elif isinstance(up, ast.Starred) and isinstance(par.get(id(up)), (ast.List, ast.Tuple, ast.Set)):
                ok = True
            elif isinstance(up, ast.Dict) and any(k is None and v is n for k, v in zip(up.keys, up.values)):
                ok = True
            elif isinstance(up, ast.BinOp) and isinstance(up.op, (ast.Add, ast.BitOr, ast.BitAnd, ast.Sub, ast.Mult)):
                ok = True
            elif isinstance(up, (ast.If, ast.While, ast.IfExp)) and up.test is n:
                ok = True
            elif isinstance(up, ast.UnaryOp) and isinstance(up.op, ast.Not):
                ok = True
            elif isinstance(up, ast.BoolOp) and isinstance(par.get(id(up)), (ast.If, ast.While)):
                ok = True
            if not ok and g is not None and isinstance(up, (ast.Assign, ast.AnnAssign)) and up.value is n:
                # bound to a local: mutated through that local -> a writer; only read through it -> fine
                tg = up.targets if isinstance(up, ast.Assign) else [up.target]
                if len(tg) == 1 and isinstance(tg[0], ast.Name) and _name_stores(g, tg[0].id) == 1 and tg[0].id not in g.params():
                    loc_ = tg[0].id
                    if any(root == loc_ for root, _first, _n in _mutations(walk_self(g.node))) \
                            or any(isinstance(x, ast.AugAssign) and isinstance(x.target, ast.Name) and x.target.id == loc_ for x in walk_self(g.node)):
                        return where, up, 'write'
            if not ok:
                return where, up if up is not None else n, 'escape'
    return None


def _ctor_only_methods(p, cq: str) -> Set[str]:
    """quals of the private methods of the class cq (and its bases) that run only as part of construction: every mention of the method name
    anywhere in the package is a call ``self.<name>(...)`` made inside ``__init__`` / ``__new__`` of a class, or inside another such method
    (fixpoint).  A method that is also mentioned elsewhere - called on another receiver, passed around, called from an ordinary method - is
    not constructor-only."""
    cands: Dict[str, Func] = {}
    for k in p.mro(cq):
        c = p.classes.get(k)
        if c is None:
            continue
        for nm, mth in c.methods.items():
            if nm.startswith('_') and not nm.startswith('__') and not mth.is_property() and not mth.decorators:
                cands.setdefault(nm, mth)
    if not cands:
        return set()
    mentions: Dict[str, List[Tuple[Func, bool]]] = {nm: [] for nm in cands}    # name -> [(function, is a self-call)]
    for g in p.all_functions():
        par = None
        for x in walk_self(g.node):
            if isinstance(x, ast.Attribute) and x.attr in cands:
                if par is None:
                    par = {}
                    for n in walk_self(g.node):
                        for ch in ast.iter_child_nodes(n):
                            par[id(ch)] = n
                up = par.get(id(x))
                is_call = isinstance(up, ast.Call) and up.func is x and isinstance(x.value, ast.Name) and x.value.id == 'self' and g.cls is not None
                mentions[x.attr].append((g, is_call))
            elif isinstance(x, ast.Constant) and isinstance(x.value, str) and x.value in cands:
                mentions[x.value].append((g, False))      # getattr(self, '<name>') and the like
    ok = set(cands)
    changed = True
    while changed:
        changed = False
        for nm in sorted(ok):
            for g, is_call in mentions[nm]:
                in_ctor = g.cls is not None and g.parent is None and (g.name in ('__init__', '__new__') or (g.name in ok and cands[g.name].qual == g.qual))
                if not (is_call and in_ctor):
                    ok.discard(nm)
                    changed = True
                    break
    return {cands[nm].qual for nm in ok if mentions[nm]}


def r3_inventory(run):
    p = run.project
    found: Dict[str, Tuple[str, object, ast.AST]] = {}   # qual -> (kind, owner(Func|Module|Class), node)
    # (1) module-level mutable objects
    for mn, m in sorted(p.modules.items()):
        if not _in_scope(mn):
            continue
        for k, v in m.consts.items():
            if k in CLASS_ATTR_EXEMPT:
                continue
            kind = _mutable_kind(p, m, v)
            if kind:
                found['%s.%s' % (mn, k)] = (kind, m, m.const_nodes.get(k, v))
        # attribute assignments at module level (Class.ATTR = mutable)
        for s in m.tree.body:
            if isinstance(s, ast.Assign):
                for t in s.targets:
                    if isinstance(t, ast.Attribute):
                        q = p.resolve_expr(m, t)
                        kind = _mutable_kind(p, m, s.value)
                        if q and kind:
                            found[q] = (kind, m, s)
    # lru_cache-decorated functions (module level, methods and closures)
    for g in p.all_functions():
        if _in_scope(g.module.name) and _lru_decorated(p, g):
            found[g.qual] = ('lru_cache', g, g.node)
    # (2) mutable default arguments
    for g in p.all_functions():
        if not _in_scope(g.module.name):
            continue
        a = g.node.args
        pos = a.posonlyargs + a.args
        pairs = list(zip(pos[len(pos) - len(a.defaults):], a.defaults)) + [(x, d) for x, d in zip(a.kwonlyargs, a.kw_defaults) if d is not None]
        for arg, d in pairs:
            kind = _mutable_kind(p, g.module, d, g.parent)
            if kind:
                found['%s.%s' % (g.qual, arg.arg)] = ('default argument: ' + kind, g, d)
    # (3) class-level attributes of per-request classes
    per_request: List[Class] = []
    missing = [b for b in PER_REQUEST_BASES if b not in p.classes]
    if len(missing) > 2:
        raise AnchorError('per-request classes not found: %s' % missing)
    seen = set()
    for b in PER_REQUEST_BASES:
        if b not in p.classes:
            continue
        for cq in sorted(p.subclasses(b)):
            c = p.classes[cq]
            if cq in seen or not _in_scope(c.module.name):
                continue
            seen.add(cq)
            per_request.append(c)
    n_attrs = 0
    for c in per_request:
        for k, v in c.attrs.items():
            n_attrs += 1
            if k in CLASS_ATTR_EXEMPT:
                continue
            kind = _mutable_kind(p, c.module, v)
            if kind and kind != 'lru_cache':
                found['%s.%s' % (c.qual, k)] = ('class attribute of a per-request class: ' + kind, c, c.attr_nodes.get(k, v))
    run.extra['c19_inventory'] = {q: k for q, (k, _o, _n) in sorted(found.items())}
    run.extra['c19_per_request_classes'] = [c.qual for c in per_request]
    run.extra['c19_class_attrs_scanned'] = n_attrs
    if len(found) < 10 or len(per_request) < 12:
        raise AnchorError('shared-state inventory implausibly small (%d objects, %d per-request classes)' % (len(found), len(per_request)))
    inventory = set(found)
    stale_owners = {q.rsplit('.', 1)[0] for q in set(R3_ALLOWED) - set(found)}
    memo_ok = {q for q, (k, _r) in R3_ALLOWED.items() if k.startswith('memo') or k == 'const'}
    # un-reviewed module-level displays of immutable constants: 'ok' (never written, never handed on) | (where, node) of an escaping use
    tables: Dict[str, object] = {}
    for q, (kind, owner, node) in sorted(found.items()):
        if q not in R3_ALLOWED and not isinstance(owner, (Func, Class)) and _constant_display(p, owner, node) and not _writers_of_symbol(p, q) \
                and not any(_declares_global(g_, q.rsplit('.', 1)[1]) for g_ in owner.all_funcs):
            st = _escaping_use(p, q, owner) or 'ok'
            if st == 'ok' or st[2] != 'write':      # written through a local alias: an ordinary shared mutable object (reported below)
                tables[q] = st
    memo_ok |= {q for q, st in tables.items() if st == 'ok'}
    for q, (kind, owner, node) in sorted(found.items()):
        where_f = owner if isinstance(owner, Func) else None
        loc = owner.loc(node) if isinstance(owner, (Func, Class)) else '%s:%s' % (owner.relpath, getattr(node, 'lineno', 0))
        rule = R3_ALLOWED.get(q)
        if rule is None and kind == 'lru_cache' and isinstance(owner, Func):
            # a memo nobody reviewed yet: acceptable iff the cached function is pure and not bound to an object
            why = _pure(p, owner, inventory, memo_ok | {q})
            if why is None and any(isinstance(x, ast.Name) and x.id in ('self', 'cls') for x in walk_self(owner.node)):
                why = 'is a method reading self: the cache is shared by all requests and keyed by (and keeps alive) per-request objects'
            run.check(why is None, 'memo %s (not on the allow-list): the cached function reads only its arguments and immutable constants' % q, owner,
                      '%s purity' % owner.name, witness=[why] if why else None,
                      runtime_witness='a result cached for one request is served to another although the state it depends on differs')
            continue
        if rule is None and q.rsplit('.', 1)[0] in stale_owners:
            # an allow-listed object of the same owner vanished: this is most likely that object under a new name
            raise AnchorError('allow-listed shared object in %s was renamed (now %s?); the allow-list must be updated by hand' % (q.rsplit('.', 1)[0], q))
        if rule is None and q in tables:
            # a module-level display of immutable constants nobody reviewed yet (a hoisted literal table): acceptable iff no function writes
            # it and every use is a read that cannot hand the object itself to anyone (copy, iteration, membership, subscript, len, ...)
            esc = tables[q]
            if esc != 'ok':
                raise UnknownIdiom('module-level table %s is never written, but %s hands the object itself on (%s); whether it is mutated there is '
                                   'not decided' % (q, esc[0], short(esc[1], 60)))
            run.ok('%s (not on the allow-list) is a display of immutable constants, never written and only read through copies / iteration / '
                   'membership / subscripts' % q, loc, q)
            continue
        if rule is None:
            run.fail('shared mutable object %s (%s) is not on the reasoned allow-list' % (q, kind), where_f if where_f is not None else q.rsplit('.', 1)[0],
                     '%s: %s' % (q.rsplit('.', 1)[1], short(node, 100)), where=loc,
                     runtime_witness='state written while serving one request is visible to every other request (and to every instance of the class)')
            continue
        cat, reason = rule
        if cat == 'const':
            wr = _writers_of_symbol(p, q)
            run.check(not wr, '%s is never written after import (%s)' % (q, reason), wr[0][0] if wr else q.rsplit('.', 1)[0],
                      wr[0][1] if wr else q, where=wr[0][0].loc(wr[0][1]) if wr else loc,
                      runtime_witness='a request mutates the shared table %s' % q)
        elif cat.startswith('registry:'):
            allowed = set(cat.split(':', 1)[1].split(','))
            wr = [(g, n) for (g, n) in _writers_of_symbol(p, q) if g.qual not in allowed]
            run.check(not wr, '%s is written only by %s (%s)' % (q, sorted(allowed), reason), wr[0][0] if wr else q.rsplit('.', 1)[0],
                      wr[0][1] if wr else q, where=wr[0][0].loc(wr[0][1]) if wr else loc)
        elif cat in ('memo', 'memo-instance'):
            target = None
            if isinstance(owner, Func):
                target = owner
            else:
                v = node.value if isinstance(node, (ast.Assign, ast.AnnAssign)) else node
                # lru_cache(f) or lru_cache(...)(f)
                if isinstance(v, ast.Call) and v.args:
                    tq = p.resolve_expr(owner, v.args[0])
                    target = p.funcs.get(tq) if tq else None
                    if target is None and tq:
                        head, _, tail = tq.rpartition('.')
                        if head in p.classes:
                            target = p.lookup_method(head, tail)
            if target is None:
                raise UnknownIdiom('cannot find the function memoised by %s' % q)
            run.use(target)
            why = _pure(p, target, inventory, memo_ok | {q})
            if why is None and cat == 'memo':
                # a module-level memo must not depend on per-object state either
                if any(isinstance(x, ast.Name) and x.id == 'self' for x in walk_self(target.node)):
                    why = 'reads self'
            run.check(why is None, 'memo %s: the cached function reads only its arguments and immutable constants (%s)' % (q, reason), target,
                      '%s purity' % target.name, witness=[why] if why else None,
                      runtime_witness='a cached result computed for one request is served to another although the inputs it depends on differ')
        elif cat == 'memo-default':
            g = owner
            run.use(g)
            _check_name_cache(run, g, q.rsplit('.', 1)[1], reason)
        elif cat in ('instance', 'instance-copied'):
            v = node.value if isinstance(node, (ast.Assign, ast.AnnAssign)) else node
            cq = p.resolve_expr(owner, v.func) if isinstance(v, ast.Call) else None
            if cq not in p.classes:
                raise UnknownIdiom('class of %s' % q)
            if cat == 'instance':
                bad = []
                ctor_only = _ctor_only_methods(p, cq)
                for k in p.mro(cq):
                    c = p.classes.get(k)
                    if c is None:
                        continue
                    for nm, mth in c.methods.items():
                        if nm in ('__init__', '__new__') or mth.qual in ctor_only:
                            continue
                        for a, n in self_writes(mth):
                            bad.append((mth, n))
                run.check(not bad, 'shared instance %s: no method of %s stores into self after construction (%s)' % (q, cq.rsplit('.', 1)[1], reason),
                          bad[0][0] if bad else q.rsplit('.', 1)[0], bad[0][1] if bad else q, where=bad[0][0].loc(bad[0][1]) if bad else loc)
            else:
                # every reader of the template copies it
                _mod, _, attr = q.rpartition('.')
                uses = []
                for g in p.all_functions():
                    if not _in_scope(g.module.name):
                        continue
                    for x in walk_self(g.node):
                        if isinstance(x, ast.Attribute) and x.attr == attr and isinstance(x.ctx, ast.Load):
                            uses.append((g, x))
                if not uses:
                    raise AnchorError('no reader of %s' % q)
                par = {}
                for g, x in uses:
                    for n in walk_self(g.node):
                        for ch in ast.iter_child_nodes(n):
                            par[id(ch)] = n
                for g, x in uses:
                    up = par.get(id(x))
                    up2 = par.get(id(up)) if up is not None else None
                    ok = isinstance(up, ast.Attribute) and up.attr == 'copy' and isinstance(up2, ast.Call)
                    run.check(ok, 'template %s is only ever used through .copy() (%s)' % (q, reason), g, up2 if ok else (up if up is not None else x))
        elif cat == 'not-request-path':
            run.ok('%s: %s' % (q, reason), loc, q)
        else:
            raise UnknownIdiom('allow-list category %s' % cat)
    # stale allow-list entries are an analysis error (the table must stay exact)
    stale = sorted(set(R3_ALLOWED) - set(found))
    if stale:
        raise AnchorError('allow-listed shared objects no longer exist: %s' % stale)
    # objects returned by the cached media-type parsers are never mutated after construction
    mt = p.module('falcon.util.mediatypes')
    for cname in ('_MediaType', '_MediaRange'):
        c = p.cls('falcon.util.mediatypes.' + cname)
        init = c.methods.get('__init__')
        fields = {s_.target.id for s_ in c.node.body if isinstance(s_, ast.AnnAssign) and isinstance(s_.target, ast.Name) and s_.value is None}
        if init is not None:
            fields |= {a for a, _n in self_writes(init)}
        if not fields:
            raise AnchorError('%s: no instance fields found' % c.qual)
        bad = []
        for g in mt.all_funcs:
            if g is init:
                continue
            for n in walk_self(g.node):
                tg = []
                if isinstance(n, ast.Assign):
                    tg = n.targets
                elif isinstance(n, ast.AugAssign):
                    tg = [n.target]
                for t in tg:
                    if isinstance(t, (ast.Attribute, ast.Subscript)):
                        chain = t
                        while isinstance(chain, ast.Subscript):
                            chain = chain.value
                        if isinstance(chain, ast.Attribute) and chain.attr in fields:
                            bad.append((g, n))
                if isinstance(n, ast.Call) and isinstance(n.func, ast.Attribute) and n.func.attr in MUTATORS and isinstance(n.func.value, ast.Attribute) \
                        and n.func.value.attr in fields:
                    bad.append((g, n))
        run.check(not bad, 'objects returned by the cached parsers (%s) are never mutated after construction' % cname, bad[0][0] if bad else c.qual,
                  bad[0][1] if bad else c.qual, where=bad[0][0].loc(bad[0][1]) if bad else c.loc(),
                  runtime_witness='one request changes the parsed Accept data that the cache hands to all later requests')


def _check_name_cache(run, g: Func, pname: str, reason: str):
    """every store into the default-argument dict is `cache[k] = f(k)` with f reading nothing but k, under a size bound"""
    p = run.project
    cfg = cfg_of(g, p)
    run.use_cfg(cfg)
    stores = [n for n in cfg.live_nodes() if n.kind == 'stmt' and isinstance(n.ast, ast.Assign) and len(n.ast.targets) == 1
              and isinstance(n.ast.targets[0], ast.Subscript) and isinstance(n.ast.targets[0].value, ast.Name) and n.ast.targets[0].value.id == pname]
    others = [n for n in walk_self(g.node) if isinstance(n, ast.Call) and isinstance(n.func, ast.Attribute) and n.func.attr in MUTATORS
              and isinstance(n.func.value, ast.Name) and n.func.value.id == pname]
    if others:
        raise UnknownIdiom('%s: %s mutated through %s' % (g.qual, pname, short(others[0])))
    if not stores:
        raise AnchorError('%s never fills %s' % (g.qual, pname))
    for s in stores:
        key = s.ast.targets[0].slice
        val = s.ast.value
        if not isinstance(key, ast.Name):
            raise UnknownIdiom('%s: cache key %s' % (g.qual, short(key)))
        exprs = [val]
        if isinstance(val, ast.Name):
            exprs = [n.value for n in walk_self(g.node) if isinstance(n, ast.Assign) and any(isinstance(t, ast.Name) and t.id == val.id for t in n.targets)]
        bad = []
        for e in exprs:
            # reading the cache at the same key is fine; otherwise only the key and constants
            if isinstance(e, ast.Subscript) and isinstance(e.value, ast.Name) and e.value.id == pname and isinstance(e.slice, ast.Name) and e.slice.id == key.id:
                continue
            names = {x.id for x in walk_self(e) if isinstance(x, ast.Name)}
            if not names <= {key.id}:
                bad.append(short(e))
        run.check(not bad and bool(exprs), '%s: the memoised value is a pure function of its key (%s)' % (pname, reason), g, s.ast, witness=bad,
                  runtime_witness='a header name looked up by one request changes what another request reads')
    # the parameter is not handed to anyone else and not rebound
    leaks = [n for n in walk_self(g.node) if isinstance(n, ast.Call) and any(isinstance(a, ast.Name) and a.id == pname for a in list(n.args) + [k.value for k in n.keywords])
             and not (isinstance(n.func, ast.Name) and n.func.id == 'len')]
    run.check(not leaks, '%s does not escape from %s' % (pname, g.name), g, leaks[0] if leaks else pname)


# ---------------------------------------------------------------------------
# R4
# ---------------------------------------------------------------------------

def _fresh_def(f: Func, name: str):
    defs = []
    for n in walk_self(f.node):
        if isinstance(n, ast.Assign) and any(isinstance(t, ast.Name) and t.id == name for t in n.targets):
            defs.append(n.value)
        elif isinstance(n, ast.AnnAssign) and isinstance(n.target, ast.Name) and n.target.id == name and n.value is not None:
            defs.append(n.value)
        elif isinstance(n, ast.Assign):
            for t in n.targets:
                if isinstance(t, (ast.Tuple, ast.List)) and any(isinstance(x, ast.Name) and x.id == name for x in ast.walk(t)):
                    defs.append(n)
    return defs


def _parked(f: Func, names: Set[str]):
    """stores through self whose value mentions one of the names"""
    out = []
    for n in walk_self(f.node):
        if isinstance(n, (ast.Assign, ast.AnnAssign, ast.AugAssign)):
            tg = n.targets if isinstance(n, ast.Assign) else [n.target]
            val = n.value
            if val is None:
                continue
            if any(_root_and_first(t)[0] == 'self' for t in tg if isinstance(t, (ast.Attribute, ast.Subscript))):
                # plain value flow: the object itself (not a call result derived from it)
                mention = [x for x in _value_atoms(val) if isinstance(x, ast.Name) and x.id in names]
                if mention:
                    out.append(n)
        if isinstance(n, ast.Call) and isinstance(n.func, ast.Attribute) and n.func.attr in MUTATORS and _root_and_first(n.func.value)[0] == 'self':
            for a in list(n.args) + [k.value for k in n.keywords]:
                if any(isinstance(x, ast.Name) and x.id in names for x in _value_atoms(a)):
                    out.append(n)
    return out


def _value_atoms(e):
    """sub-expressions whose identity flows into the value of e (names, containers of names), not call arguments"""
    if isinstance(e, ast.Name):
        yield e
    elif isinstance(e, (ast.Tuple, ast.List, ast.Set)):
        for x in e.elts:
            yield from _value_atoms(x)
    elif isinstance(e, ast.Dict):
        for x in list(e.keys) + list(e.values):
            if x is not None:
                yield from _value_atoms(x)
    elif isinstance(e, ast.IfExp):
        yield from _value_atoms(e.body)
        yield from _value_atoms(e.orelse)
    elif isinstance(e, ast.BoolOp):
        for x in e.values:
            yield from _value_atoms(x)
    elif isinstance(e, ast.NamedExpr):
        yield from _value_atoms(e.value)
    elif isinstance(e, ast.Starred):
        yield from _value_atoms(e.value)


def r4_fresh_per_call(run):
    p = run.project
    rm = RouterModel(p)
    f = rm.find
    # params: the non-table, non-path local passed to the finder must be a fresh dict created in find()
    tab_idx = {i for i, _t in rm.tables}
    cand = [(i, a) for i, a in enumerate(rm.find_args) if i not in tab_idx and isinstance(a, ast.Name)]
    fresh = []

    def fresh_dict(h: Func, e, depth=0) -> bool:
        """e evaluates to a NEW empty dict on every evaluation: ``{}``, ``dict()``, or a call of a resolved, un-memoised plain function
        every return of which is such an expression (``params = _new_params()``), a local bound once to one included"""
        if isinstance(e, ast.Dict):
            return not e.keys
        if isinstance(e, ast.Name) and depth > 0:
            d = _single_def(h, e.id)
            return d is not None and not isinstance(d.value, ast.Name) and fresh_dict(h, d.value, depth)
        if not isinstance(e, ast.Call):
            return False
        if isinstance(e.func, ast.Name) and e.func.id == 'dict' and not e.args and not e.keywords and p.resolve_expr(h.module, e.func, h) in (None, 'builtins.dict'):
            return True
        if depth >= 3:
            return False
        t = p.callee(h, e)
        if not isinstance(t, Func) or t.is_async or _lru_decorated(p, t) or t.decorators and not all(d in ('staticmethod',) for d in t.decorators) \
                or any(isinstance(x, (ast.Yield, ast.YieldFrom)) for x in walk_self(t.node)):
            return False
        rets = [r for r in walk_self(t.node) if isinstance(r, ast.Return)]
        return bool(rets) and all(r.value is not None and fresh_dict(t, r.value, depth + 1) for r in rets)

    for i, a in cand:
        defs = _fresh_def(f, a.id)
        if len(defs) == 1 and fresh_dict(f, defs[0]):
            fresh.append((i, a.id))
    run.check(len(fresh) == 1, 'find(): the params dict handed to the finder is created inside the call', f, rm.find_call,
              runtime_witness='two concurrent requests share one params dict and see each other\'s path fields')
    if fresh:
        pidx, pname = fresh[0]
        park = _parked(f, {pname})
        run.check(not park, 'find(): params is not stored on the router', f, park[0] if park else pname)
        # the stub passes the same params object on
        stub = rm.stub
        sp = [a for a in stub.params() if a != 'self']
        for st in rm.sites(stub):
            ok = pidx < len(st.args) and isinstance(st.args[pidx], ast.Name) and pidx < len(sp) and st.args[pidx].id == sp[pidx]
            run.check(ok, 'lazy-compile stub: the caller\'s params dict is passed through to the compiled finder', stub, st.call,
                      runtime_witness='path fields of the first request are lost or land in a shared dict')
        park = _parked(stub, set(sp))
        run.check(not park, 'lazy-compile stub: no argument is stored on the router', stub, park[0] if park else stub.name)
    # req / resp in both __call__ and in _handle_websocket
    for q, makers in ((WSGI_APP + '.__call__', ('_request_type', '_response_type')), (ASGI_APP + '.__call__', ('_request_type', '_response_type')),
                      (ASGI_APP + '._handle_websocket', ('_request_type',))):
        g = p.func(q)
        run.use(g)
        names = set()
        for n in walk_self(g.node):
            if isinstance(n, (ast.Assign, ast.AnnAssign)) and isinstance(n.value, ast.Call) and _self_attr(n.value.func) and n.value.func.attr in makers:
                tg = n.targets if isinstance(n, ast.Assign) else [n.target]
                if len(tg) == 1 and isinstance(tg[0], ast.Name):
                    names.add(tg[0].id)
                    # created unconditionally per call (not inside a loop is irrelevant; not cached: a fresh call expression)
                    run.ok('%s: %s is a fresh %s(...) object created inside the call' % (g.name, tg[0].id, n.value.func.attr), g.loc(n), n)
                else:
                    run.fail('%s: the request/response object is bound to %s' % (g.name, short(tg[0])), g, n,
                             runtime_witness='concurrent requests share one request/response object')
        if len(names) < len(makers):
            raise AnchorError('%s: creation of the per-request objects not found' % q)
        # other per-call locals worth guarding: params / resource / the WebSocket
        for n in walk_self(g.node):
            if isinstance(n, (ast.Assign, ast.AnnAssign)):
                tg = n.targets if isinstance(n, ast.Assign) else [n.target]
                if len(tg) == 1 and isinstance(tg[0], ast.Name) and isinstance(n.value, ast.Dict) and not n.value.keys:
                    names.add(tg[0].id)
                if len(tg) == 1 and isinstance(tg[0], ast.Name) and isinstance(n.value, ast.Call) and p.resolve_callable(g, n.value.func) is p.classes.get('falcon.asgi.ws.WebSocket'):
                    names.add(tg[0].id)
        for h in self_closure(p, g):
            if h is g:
                park = _parked(h, names)
            else:
                park = _parked(h, {a for a in h.params() if a in ('req', 'resp', 'request', 'response', 'ws', 'web_socket', 'params')})
            run.check(not park, '%s (reached from %s): no per-request object is stored on the shared app' % (h.name, g.name), h,
                      park[0] if park else h.name,
                      runtime_witness='a later request (or another thread) reads the previous request through the app object')


# ---------------------------------------------------------------------------
# R5 a memoised function does not hand out a mutable container it built
# ---------------------------------------------------------------------------

_FRESH_MUTABLE_CALLS = ('dict', 'list', 'set', 'bytearray', 'defaultdict', 'OrderedDict', 'deque')


def _fresh_mutable(e) -> bool:
    if isinstance(e, (ast.Dict, ast.List, ast.Set, ast.ListComp, ast.DictComp, ast.SetComp)):
        return True
    return isinstance(e, ast.Call) and isinstance(e.func, ast.Name) and e.func.id in _FRESH_MUTABLE_CALLS


def r5_memo_returns_mutable(run):
    """An lru_cache returns the SAME object to every caller with that key.  If
    that object is a dict/list/set the function built, any caller that keeps
    and later mutates it (falcon stores the parsed query parameters on the
    request and updates them in place) changes what every other request with
    the same key receives.  Decided for every memoised function of the
    package: no return value is, or is a local bound to, a freshly built
    mutable container (tuples/frozensets/strings/numbers/instances are not
    judged here; instances are covered by the allow-list of R3).
    W: lru_cache on parse_query_string: a POST's form fields appear in the
    params of a concurrent GET with the same query string."""
    p = run.project
    n = 0
    # functions memoised through a module-level alias, in ANY module of the package:
    #   X = functools.lru_cache(f)      X = functools.lru_cache(maxsize=..)(f)
    aliased = {}
    for mn, m in sorted(p.modules.items()):
        if not _in_scope(mn):
            continue
        for k, v in m.consts.items():
            if not (isinstance(v, ast.Call) and v.args):
                continue
            mf = _ModF(m)
            w = p.resolve_callable(mf, v.func)
            if not (isinstance(w, str) and w in LRU_WRAPPERS):
                if isinstance(v.func, ast.Call):
                    w = p.resolve_callable(mf, v.func.func)
                if not (isinstance(w, str) and w in LRU_WRAPPERS):
                    continue
            t = p.resolve_callable(mf, v.args[0])
            if isinstance(t, Func):
                aliased[t.qual] = '%s.%s' % (mn, k)
    for g in p.all_functions():
        if not _in_scope(g.module.name):
            continue
        memo = _lru_decorated(p, g) or g.qual in aliased
        if not memo:
            continue
        n += 1
        local_fresh = {}
        for a in walk_self(g.node):
            if isinstance(a, (ast.Assign, ast.AnnAssign)) and a.value is not None:
                tg = a.targets if isinstance(a, ast.Assign) else [a.target]
                for t in tg:
                    if isinstance(t, ast.Name) and _fresh_mutable(a.value):
                        local_fresh[t.id] = a
        bad = None
        for r in walk_self(g.node):
            if isinstance(r, ast.Return) and r.value is not None:
                v = r.value
                if _fresh_mutable(v) or (isinstance(v, ast.Name) and v.id in local_fresh):
                    bad = r
        run.check(bad is None, 'memoised %s does not return a mutable container it built (every caller with the same key would share it)' % g.qual, g,
                  bad if bad is not None else 'returns of %s' % g.name, where=g.loc(bad),
                  runtime_witness='two requests with the same query string share one params dict; an in-place update by one is seen by the other')
    if n < 5:
        raise AnchorError('memoised functions of the package not found (%d)' % n)


class _ModF:
    def __init__(self, module):
        self.module = module
        self.parent = None
        self.nested = {}
        self.cls = None
        self.node = ast.parse('def _m(): pass').body[0]

    def params(self):
        return []


_IN_PLACE_RESET = ('clear', 'pop', 'remove', 'insert', 'sort', 'reverse', '__delitem__', '__setitem__')


def r6_tables_rebound(run):
    """A lookup that is already running holds the finder AND the table
    objects it was started with.  A recompile must therefore PUBLISH NEW
    tables (rebind the attributes to fresh lists, then fill them) and leave
    the old list objects alone; emptying or reordering a table in place
    (clear(), del t[:], t[:] = ..., pop/insert/sort) pulls the entries from
    under an in-flight finder: it returns another route's resource or fails
    with IndexError.

    Read in every method of the router AND in every module-level function a method hands `self` to (``_reset_tables(self)``; the
    parameter that receives the router plays the part of `self`).  A table reached through a local bound once to it
    (``t = self._patterns; t.clear()``) is the table; ``self.a, self.b = [], []`` binds pairwise; ``self.t = name`` with the local
    bound once to a fresh list publishes that fresh list."""
    p = run.project
    rm = RouterModel(p)
    tables = [t for _i, t in rm.tables]
    fresh_binds = {t: [] for t in tables}
    # (function, receiver name, reached from a method other than __init__)
    scopes: Dict[Tuple[str, str], list] = {}

    def visit(fn, recv, outside, depth=0):
        key = (fn.qual, recv)
        ent = scopes.get(key)
        if ent is not None and (ent[2] or not outside):
            return
        if ent is None:
            scopes[key] = [fn, recv, outside]
        else:
            ent[2] = True
        if depth > 8:
            return
        for g in [fn] + list(fn.nested.values()):
            for c in walk_self(g.node):
                if isinstance(c, ast.Call):
                    h, q = rm.handed_self(g, c, recv=recv)
                    if h is not None:
                        visit(h, q, outside, depth + 1)

    for m in rm.cls.methods.values():
        ps = m.params()
        if ps and not any(d in ('staticmethod', 'classmethod') for d in m.decorators):
            visit(m, ps[0], m.name != '__init__')

    def fresh(fn, v):
        if isinstance(v, ast.List) and not v.elts:
            return True
        if isinstance(v, ast.Call) and isinstance(v.func, ast.Name) and v.func.id == 'list' and not v.args and not v.keywords:
            return True
        if isinstance(v, ast.Name):
            d = _single_def(fn, v.id)
            return d is not None and fresh(fn, d.value) and not isinstance(d.value, ast.Name)
        return False

    for f, recv, outside_init in scopes.values():
        hit = False

        def table_of(e):
            """table attribute denoted by e: ``<recv>.<table>`` or a local bound once to it"""
            if isinstance(e, ast.Attribute) and isinstance(e.value, ast.Name) and e.value.id == recv and e.attr in tables:
                return e.attr
            if isinstance(e, ast.Name):
                d = _single_def(f, e.id)
                if d is not None and isinstance(d.value, ast.Attribute) and isinstance(d.value.value, ast.Name) and d.value.value.id == recv \
                        and d.value.attr in tables:
                    return d.value.attr
            return None

        for x in walk_self(f.node):
            if isinstance(x, ast.Call) and isinstance(x.func, ast.Attribute) and table_of(x.func.value) is not None:
                hit = True
                if x.func.attr in _IN_PLACE_RESET:
                    run.fail('%s changes the published table self.%s in place (%s): a lookup in flight on another thread reads the same list object'
                             % (f.name, table_of(x.func.value), x.func.attr), f, x,
                             runtime_witness="thread A is inside the finder for '/items/7' while thread B adds '/items' and recompiles: A answers "
                                             "with the wrong resource or raises IndexError")
            elif isinstance(x, ast.Delete):
                for t in x.targets:
                    if isinstance(t, ast.Subscript) and table_of(t.value) is not None:
                        hit = True
                        run.fail('%s deletes entries of the published table self.%s in place' % (f.name, table_of(t.value)), f, x)
            elif isinstance(x, (ast.Assign, ast.AugAssign, ast.AnnAssign)):
                tg = x.targets if isinstance(x, ast.Assign) else [x.target]
                v = getattr(x, 'value', None)
                flat = []
                for t in tg:
                    if isinstance(t, (ast.Tuple, ast.List)):
                        if isinstance(v, (ast.Tuple, ast.List)) and len(v.elts) == len(t.elts) and not any(isinstance(e, ast.Starred) for e in list(t.elts) + list(v.elts)):
                            flat += list(zip(t.elts, v.elts))
                        else:
                            flat += [(e, None) for e in t.elts]
                    else:
                        flat.append((t, v))
                for t, tv in flat:
                    if isinstance(t, ast.Subscript) and table_of(t.value) is not None:
                        hit = True
                        run.fail('%s overwrites entries of the published table self.%s in place' % (f.name, table_of(t.value)), f, x)
                    elif isinstance(t, ast.Attribute) and table_of(t) is not None:
                        hit = True
                        if isinstance(x, ast.AugAssign):
                            run.fail('%s extends the published table self.%s in place of rebinding it' % (f.name, t.attr), f, x)
                        elif tv is not None and fresh(f, tv):
                            if outside_init:
                                fresh_binds[t.attr].append((f, x))
                        else:
                            raise UnknownIdiom('%s: table self.%s bound to %s' % (f.qual, t.attr, short(tv if tv is not None else v)))
        if hit:
            run.use(f)
    for t in tables:
        outside_init = [(f, x) for f, x in fresh_binds[t] if f.name != '__init__']
        run.check(bool(outside_init), 'the (re)compile routine publishes a fresh list for the table self.%s' % t,
                  rm.stub, 'self.%s = []' % t, where=(outside_init[0][0].loc(outside_init[0][1]) if outside_init else rm.stub.loc()),
                  runtime_witness='a recompile refills the list object that a lookup in flight is indexing')


# ---------------------------------------------------------------------------
# R7  raised error objects are private to the call that raises them
# ---------------------------------------------------------------------------

def _is_exc_class(p, q) -> bool:
    return q is not None and p.is_subclass(q, 'builtins.BaseException') is True


def _is_per_request_class(p, cq: str) -> bool:
    return any(cq == b or p.is_subclass(cq, b) is True for b in PER_REQUEST_BASES)


def _local_bindings(f: Func, name: str):
    """(values assigned to the plain local `name` in f, other binding constructs, is an except-handler name)"""
    vals, others, handler = [], [], False
    for n in walk_self(f.node):
        if isinstance(n, ast.Assign):
            for t in n.targets:
                if isinstance(t, ast.Name) and t.id == name:
                    vals.append(n.value)
                elif not isinstance(t, ast.Name) and any(isinstance(x, ast.Name) and x.id == name and isinstance(x.ctx, ast.Store) for x in ast.walk(t)):
                    others.append(n)
        elif isinstance(n, ast.AnnAssign) and isinstance(n.target, ast.Name) and n.target.id == name:
            if n.value is not None:
                vals.append(n.value)
        elif isinstance(n, ast.NamedExpr) and n.target.id == name:
            vals.append(n.value)
        elif isinstance(n, ast.ExceptHandler) and n.name == name:
            handler = True
        elif isinstance(n, (ast.AugAssign, ast.For, ast.AsyncFor, ast.With, ast.AsyncWith, ast.Import, ast.ImportFrom)):
            tg = [n.target] if isinstance(n, (ast.AugAssign, ast.For, ast.AsyncFor)) else \
                 [i.optional_vars for i in n.items if i.optional_vars is not None] if isinstance(n, (ast.With, ast.AsyncWith)) else []
            if any(isinstance(x, ast.Name) and x.id == name and isinstance(x.ctx, ast.Store) for t in tg for x in ast.walk(t)):
                others.append(n)
            if isinstance(n, (ast.Import, ast.ImportFrom)) and any((al.asname or al.name).split('.')[0] == name for al in n.names):
                others.append(n)
    return vals, others, handler


def _declared_outer(f: Func, name: str) -> bool:
    return any(isinstance(x, (ast.Global, ast.Nonlocal)) and name in x.names for x in walk_self(f.node))


def _raised_origin(p, f: Func, e, depth=0) -> Tuple[str, str]:
    """('fresh' | 'shared' | 'unknown', why) for the object ``raise <e>`` raises in f.  fresh: built by a call evaluated for this raise, an
    exception CLASS (instantiated by the raise), the exception caught by an enclosing ``except ... as``, a parameter, an attribute of a
    per-request object.  shared: an exception INSTANCE constructed once and kept where every call sees it - a local of an enclosing function
    (closure), a module-level name, an attribute of a non-per-request object."""
    if depth > 4:
        return 'unknown', 'chain of locals too long'
    if isinstance(e, ast.Call):
        return 'fresh', 'built by a call evaluated for this raise'
    if isinstance(e, ast.Constant):
        return 'fresh', 'a constant (not an exception instance: the raise itself fails with a new TypeError)'
    if isinstance(e, ast.IfExp):
        rs = [_raised_origin(p, f, x, depth + 1) for x in (e.body, e.orelse)]
        for kind in ('shared', 'unknown'):
            for r in rs:
                if r[0] == kind:
                    return r
        return rs[0]
    if isinstance(e, ast.Name):
        name = e.id
        if not _declared_outer(f, name):
            if name in f.params():
                return 'fresh', 'a parameter: the caller\'s object'
            vals, others, handler = _local_bindings(f, name)
            if others:
                return 'unknown', '%s is bound by %s' % (name, short(others[0]))
            if vals or handler:
                rs = [_raised_origin(p, f, v, depth + 1) for v in vals]
                for kind in ('shared', 'unknown'):
                    for r in rs:
                        if r[0] == kind:
                            return r
                return 'fresh', 'a local of this call'
        # a free variable: locals of the enclosing functions
        g = f.parent
        while g is not None:
            if name in g.params():
                return 'unknown', '%s is a parameter of the enclosing %s: whether every call may raise that one object is the caller\'s knowledge' % (name, g.qual)
            vals, others, handler = _local_bindings(g, name)
            if others or handler:
                return 'unknown', '%s is bound in the enclosing %s by something other than an assignment' % (name, g.qual)
            if vals:
                for v in vals:
                    if isinstance(v, ast.Call) and _is_exc_class(p, p.resolve_expr(g.module, v.func, g)):
                        return 'shared', '%s = %s in the enclosing %s: ONE instance, captured by the closure and raised by every call of %s' % (
                            name, short(v), g.qual, f.name)
                if all(isinstance(v, (ast.Name, ast.Attribute)) and _is_exc_class(p, p.resolve_expr(g.module, v, g)) for v in vals):
                    return 'fresh', 'an exception class'
                return 'unknown', '%s = %s in the enclosing %s' % (name, short(vals[0]), g.qual)
            g = g.parent
        q = p.resolve_expr(f.module, e, f)
        if _is_exc_class(p, q):
            return 'fresh', 'the exception class %s (instantiated by the raise)' % q
        return _module_level_origin(p, q, name)
    if isinstance(e, ast.Attribute):
        q = p.resolve_expr(f.module, e, f)
        if _is_exc_class(p, q):
            return 'fresh', 'the exception class %s (instantiated by the raise)' % q
        root, first = _root_and_first(e)
        if root == 'self' and first is not None:
            oc = func_owner_class(f)
            if oc is None:
                return 'unknown', 'self outside a class'
            if _is_per_request_class(p, oc.qual):
                return 'fresh', 'an attribute of the per-request %s' % oc.name
            for cq in p.mro(oc.qual):
                c = p.classes.get(cq)
                if c is None:
                    continue
                if first in c.attrs and isinstance(c.attrs[first], ast.Call) and _is_exc_class(p, p.resolve_expr(c.module, c.attrs[first].func)):
                    return 'shared', '%s.%s = %s at class level' % (c.name, first, short(c.attrs[first]))
                for m in c.methods.values():
                    for n in walk_self(m.node):
                        if isinstance(n, ast.Assign) and any(_self_attr(t, first) for t in n.targets) and isinstance(n.value, ast.Call) \
                                and _is_exc_class(p, p.resolve_expr(m.module, n.value.func, m)):
                            return 'shared', '%s: self.%s = %s - one instance kept on the %s object and raised by every call' % (m.qual, first, short(n.value), c.name)
            return 'unknown', 'self.%s of the (not per-request) class %s' % (first, oc.name)
        if q is not None:
            return _module_level_origin(p, q, ast.unparse(e))
        return 'unknown', 'the object %s' % short(e)
    return 'unknown', 'the expression %s' % short(e)


def _module_level_origin(p, q, text) -> Tuple[str, str]:
    if q is None:
        return 'unknown', 'the name %s' % text
    q = p.canonical(q)
    if _is_exc_class(p, q):
        return 'fresh', 'the exception class %s (instantiated by the raise)' % q
    mod, _, nm = q.rpartition('.')
    m = p.modules.get(mod)
    if m is not None and nm in m.consts:
        v = m.consts[nm]
        if isinstance(v, ast.Call) and _is_exc_class(p, p.resolve_expr(m, v.func)):
            return 'shared', '%s = %s at module level: ONE instance raised by every call' % (q, short(v))
        if isinstance(v, (ast.Name, ast.Attribute)) and _is_exc_class(p, p.resolve_expr(m, v)):
            return 'fresh', 'an alias of an exception class'
    return 'unknown', 'the name %s (%s)' % (text, q)


def r7_raised_errors_fresh(run):
    """An exception OBJECT raised by package code is private to the call that raises it (wave 8, seeded s8-c19-1): ``raise <name>`` /
    ``raise self.<attr>`` where the name denotes an exception INSTANCE constructed in an enclosing function scope (captured by the closure),
    at module level, or kept on a non-per-request object is a violation; ``raise C(...)``, ``raise C`` (a class), re-raising what an ``except``
    arm caught, a parameter, a local built by this call and an attribute of a per-request object are not.
    Lemma: the error object the app hands to error handlers / serializers and renders into the response (``_handle_exception``,
    ``_compose_error_response``) is not reachable from any other request.  An exception instance is mutable (description, headers, title,
    ``__traceback__``, ``__context__``).
    W: two requests rejected by the same route's default 405 responder interleave at an ``await`` of a custom error handler that completes the
    error's description/headers and re-raises it: one client receives the other's description and request id."""
    p = run.project
    n_calls = n_bare = 0
    for f in p.all_functions():
        if not _in_scope(f.module.name):
            continue
        for n in walk_self(f.node):
            if not isinstance(n, ast.Raise):
                continue
            if n.exc is None:
                n_bare += 1
                continue
            if isinstance(n.exc, ast.Call):
                n_calls += 1
                continue
            kind, why = _raised_origin(p, f, n.exc)
            if kind == 'unknown':
                raise UnknownIdiom('%s: %s - where the raised object comes from is not understood (%s)' % (f.qual, short(n), why))
            run.use(f)
            run.check(kind == 'fresh', 'the raised error object is private to this call (built for this raise, an exception class, the caught exception, '
                                       'a parameter or a per-request attribute): %s' % why, f, n, witness=[why],
                      runtime_witness='concurrent requests raise the SAME exception instance: an error handler that completes its description/headers for one '
                                      'request and re-raises it changes what the other request\'s client receives')
    run.extra['c19_raise_sites'] = {'raise C(...)': n_calls, 'bare re-raise': n_bare}
    if n_calls < 50:
        raise AnchorError('only %d `raise C(...)` statements found in the package: the scan does not see the code' % n_calls)


# ---------------------------------------------------------------------------
# R8  threadsafe=False: ONE process-wide single-thread executor
# ---------------------------------------------------------------------------

SYNC_WRAP = 'falcon.util.sync.wrap_sync_to_async'
SYNC_WRAP_FLAG = 'threadsafe'       # public keyword argument of wrap_sync_to_async
# documented promise (docstring of wrap_sync_to_async; tabled, not re-read from the source text):
#   "If the callable is not thread-safe, it can be scheduled serially in a global single-threaded executor."
#   "When this argument is ``False``, the wrapped callable will be scheduled to run serially in a global single-threaded executor."
# i.e. ALL callables wrapped with threadsafe=False are serialised against EACH OTHER (two methods of one non-thread-safe client object,
# wrapped separately, never overlap), not merely the calls of one wrapper.
EXECUTOR_CTORS = ('concurrent.futures.ThreadPoolExecutor', 'concurrent.futures.thread.ThreadPoolExecutor')
_SYNC_PRIMITIVES = ('Lock', 'RLock', 'Semaphore', 'BoundedSemaphore', 'Condition')

_UNK = object()


def _abs_value(e, env):
    """value of the expression e over the finite environment env (name -> None/True/False); _UNK when not determined"""
    if isinstance(e, ast.Constant):
        return e.value
    if isinstance(e, ast.Name):
        return env.get(e.id, _UNK)
    if isinstance(e, ast.NamedExpr):
        return _abs_value(e.value, env)
    if isinstance(e, ast.UnaryOp) and isinstance(e.op, ast.Not):
        v = _abs_value(e.operand, env)
        return _UNK if v is _UNK else (not v)
    if isinstance(e, ast.Call) and isinstance(e.func, ast.Name) and e.func.id == 'bool' and len(e.args) == 1 and not e.keywords:
        v = _abs_value(e.args[0], env)
        return _UNK if v is _UNK else bool(v)
    if isinstance(e, ast.Compare) and len(e.ops) == 1:
        a, b = _abs_value(e.left, env), _abs_value(e.comparators[0], env)
        if a is _UNK or b is _UNK:
            return _UNK
        op = e.ops[0]
        if isinstance(op, ast.Is):
            return a is b
        if isinstance(op, ast.IsNot):
            return a is not b
        if isinstance(op, ast.Eq):
            return a == b
        if isinstance(op, ast.NotEq):
            return a != b
        return _UNK
    if isinstance(e, ast.BoolOp):
        # Python semantics: `and` yields the first falsy operand (else the last), `or` the first truthy one
        last = _UNK
        for x in e.values:
            v = _abs_value(x, env)
            if v is _UNK:
                return _UNK
            last = v
            if isinstance(e.op, ast.And) and not v:
                return v
            if isinstance(e.op, ast.Or) and v:
                return v
        return last
    if isinstance(e, ast.IfExp):
        c = _abs_value(e.test, env)
        if c is _UNK:
            return _UNK
        return _abs_value(e.body if c else e.orelse, env)
    return _UNK


def _bindings_at_exit(p, g: Func, name: Optional[str], env0: Dict[str, object], returns: bool = False) -> List[Tuple[Optional[ast.AST], Dict[str, object]]]:
    """[(value expression last bound to the local `name` (None: unbound), environment at the exit)] over every path of g from its entry
    to its normal exit that is feasible when the names of env0 have the given values.  The environment follows the locals: a name
    assigned a determined value (constant, comparison / not / and / or / conditional over determined names) joins it, a name bound to
    anything else leaves it.  Tests determined by the environment select one branch; other tests fork.  A binding of `name` that is not
    a plain assignment is UnknownIdiom.
    returns=True: [(returned expression (None: `return` / falling off the end), environment there)] over the feasible paths instead."""
    cfg = cfg_of(g, p)
    out = []
    seen = set()

    def freeze(env):
        return tuple(sorted(env.items(), key=lambda kv: kv[0]))

    work = [(cfg.entry, None, freeze(env0))]
    binds: Dict[int, ast.AST] = {}
    while work:
        nid, b, envt = work.pop()
        key = (nid, b, envt)
        if key in seen:
            continue
        seen.add(key)
        env = dict(envt)
        b0 = b
        node = cfg.nodes[nid]
        if nid == cfg.exit:
            out.append((None, env) if returns else (binds.get(b), env))
            continue
        if returns and node.kind == 'stmt' and isinstance(node.ast, ast.Return):
            out.append((node.ast.value, env))
            continue
        allowed = None

        def forget(names, what):
            if name is not None and name in names:
                raise UnknownIdiom('%s: %s is bound by %s' % (g.qual, name, what))
            for nm in names:
                env.pop(nm, None)

        if node.kind == 'stmt':
            a = node.ast
            tg, v = [], None
            if isinstance(a, ast.Assign):
                tg, v = a.targets, a.value
            elif isinstance(a, ast.AnnAssign) and a.value is not None:
                tg, v = [a.target], a.value
            elif isinstance(a, (ast.AugAssign, ast.Delete)):
                ts = [a.target] if isinstance(a, ast.AugAssign) else a.targets
                forget([x.id for t in ts for x in ast.walk(t) if isinstance(x, ast.Name) and isinstance(x.ctx, (ast.Store, ast.Del))], short(a))
            elif isinstance(a, (ast.Import, ast.ImportFrom)):
                forget([(al.asname or al.name).split('.')[0] for al in a.names], short(a))
            for t in tg:
                if isinstance(t, ast.Name):
                    if name is not None and t.id == name:
                        binds[id(v)] = v
                        b = id(v)
                    else:
                        nv = _abs_value(v, env)
                        if nv is _UNK:
                            env.pop(t.id, None)
                        else:
                            env[t.id] = nv
                else:
                    forget([x.id for x in ast.walk(t) if isinstance(x, ast.Name) and isinstance(x.ctx, ast.Store)], short(a))
        elif node.kind == 'iter':
            forget([x.id for x in ast.walk(node.stmt.target) if isinstance(x, ast.Name)], 'a for loop')
        elif node.kind == 'with':
            forget([x.id for it in node.stmt.items if it.optional_vars is not None for x in ast.walk(it.optional_vars) if isinstance(x, ast.Name)], 'a with statement')
        elif node.kind == 'handler':
            if getattr(node.ast, 'name', None):
                forget([node.ast.name], 'an except clause')
        elif node.kind == 'test':
            v = _abs_value(node.ast, env)
            if v is not _UNK:
                allowed = 'T' if v else 'F'
        forget([x.target.id for x in node.walk() if isinstance(x, ast.NamedExpr) and isinstance(x.target, ast.Name)], 'a := expression')
        envt2 = freeze(env)
        for j, lab in cfg.succ[nid]:
            if allowed is not None and lab in ('T', 'F') and lab != allowed:
                continue
            if lab == 'exc':
                work.append((j, b0, envt))      # the statement may not have completed
                if node.kind != 'stmt':
                    work.append((j, b, envt2))
                continue
            work.append((j, b, envt2))
    return out


def _common_env(envs: List[Dict[str, object]]) -> Dict[str, object]:
    """the names that have the same determined value in every environment"""
    if not envs:
        return {}
    out = dict(envs[0])
    for e in envs[1:]:
        for k in list(out):
            if k not in e or e[k] is not out[k] and e[k] != out[k] or type(e[k]) is not type(out[k]):
                del out[k]
    return out


def _executor_ctor(p, module, func, e) -> bool:
    return isinstance(e, ast.Call) and p.resolve_expr(module, e.func, func) in EXECUTOR_CTORS


def _max_workers(p, module, call: ast.Call):
    """folded max_workers of an executor constructor call (None: left to the default = many threads)"""
    e = call.args[0] if call.args else None
    for k in call.keywords:
        if k.arg == 'max_workers':
            e = k.value
        elif k.arg is None:
            raise UnknownIdiom('executor constructed with **kwargs: %s' % short(call))
    if e is None or (isinstance(e, ast.Constant) and e.value is None):
        return None
    v = p.fold(module, e)
    if not isinstance(v, int) or isinstance(v, bool):
        raise UnknownIdiom('max_workers of %s is not a constant' % short(call))
    return v


def _memo_getter_ctor(p, h: Func):
    """the constructor call of a zero-argument module-level function that creates ONE executor for the process and hands the same
    object to every caller: (a) lru_cache/cache-decorated with every return a constructor call; (b) `global G` + every assignment to G
    a constructor call made only when `G is None` (the module binds G = None) + every return is G.  None when h is not such a function."""
    if h.parent is not None or h.cls is not None or h.is_async:
        return None
    a = h.node.args
    if a.posonlyargs or a.args or a.kwonlyargs or a.vararg or a.kwarg:
        return None
    rets = [r for r in walk_self(h.node) if isinstance(r, ast.Return)]
    if not rets or any(r.value is None for r in rets):
        return None
    if _lru_decorated(p, h):
        if all(_executor_ctor(p, h.module, h, r.value) for r in rets) and len(rets) == 1:
            return rets[0].value
        return None
    gl = [nm for n in walk_self(h.node) if isinstance(n, ast.Global) for nm in n.names]
    if len(gl) != 1:
        return None
    G = gl[0]
    if not all(isinstance(r.value, ast.Name) and r.value.id == G for r in rets):
        return None
    top = h.module.consts.get(G)
    if not (isinstance(top, ast.Constant) and top.value is None):
        return None
    cfg = cfg_of(h, p)
    ctor = None
    for n in cfg.live_nodes():
        if n.kind != 'stmt':
            continue
        s_ = n.ast
        tg = s_.targets if isinstance(s_, ast.Assign) else [s_.target] if isinstance(s_, (ast.AnnAssign, ast.AugAssign)) else s_.targets if isinstance(s_, ast.Delete) else []
        if not any(isinstance(t, ast.Name) and t.id == G for t in tg):
            continue
        if not isinstance(s_, (ast.Assign, ast.AnnAssign)) or not _executor_ctor(p, h.module, h, s_.value) or ctor is not None:
            return None
        guarded = False
        for t in cfg.live_nodes():
            if t.kind != 'test':
                continue
            for lab, truth in (('T', True), ('F', False)):
                def is_none(e):
                    return isinstance(e, ast.Compare) and len(e.ops) == 1 and isinstance(e.ops[0], ast.Is) and isinstance(e.left, ast.Name) \
                        and e.left.id == G and isinstance(e.comparators[0], ast.Constant) and e.comparators[0].value is None

                def is_set(e):
                    return (isinstance(e, ast.Name) and e.id == G) or (
                        isinstance(e, ast.Compare) and len(e.ops) == 1 and isinstance(e.ops[0], ast.IsNot) and isinstance(e.left, ast.Name)
                        and e.left.id == G and isinstance(e.comparators[0], ast.Constant) and e.comparators[0].value is None)
                if (implied(t.ast, truth, is_none) is True or implied(t.ast, truth, is_set) is False) \
                        and any(flow.dominated_by_edge(cfg, n.id, e_) for e_ in flow.edges_out(cfg, t.id, lab)):
                    guarded = True
        if not guarded:
            return None
        ctor = s_.value
    return ctor


def r8_serial_executor(run):
    """``wrap_sync_to_async(func, threadsafe=False)`` promises that the callable runs "serially in a GLOBAL single-threaded executor"
    (tabled above): every callable wrapped that way is serialised against every other one.  Decided structurally (who may construct the
    executor / who shares it): the first argument of the wrapper's ``run_in_executor(...)`` is evaluated abstractly for
    ``threadsafe`` = False over the factory's control flow (the closure sees the value bound when the factory returns); every value it can
    take must be ONE process-wide object -- a module-level name bound to ``ThreadPoolExecutor(max_workers=1)`` that no function rebinds, or
    the result of a zero-argument getter that memoises exactly one such executor for the process -- with max_workers folding to 1.
    An executor constructed inside the factory or the wrapper (one per wrapped callable / per call), the loop's default (multi-threaded)
    executor, or a pool with more than one worker is a VIOLATION.
    W: ``deposit = wrap_sync_to_async(ledger.deposit, threadsafe=False)`` and ``withdraw = wrap_sync_to_async(ledger.withdraw,
    threadsafe=False)``; two concurrent ASGI requests await one each: with an executor per wrapper both run at once on the non-thread-safe
    ledger and the final balance matches no serial order."""
    p = run.project
    fac = p.func(SYNC_WRAP)
    if SYNC_WRAP_FLAG not in fac.params():
        raise AnchorError('%s has no parameter %s' % (SYNC_WRAP, SYNC_WRAP_FLAG))
    run.use_cfg(cfg_of(fac, p))
    sites = []
    for g in [fac] + list(fac.nested.values()):
        for c in walk_self(g.node):
            if isinstance(c, ast.Call) and isinstance(c.func, ast.Attribute) and c.func.attr == 'run_in_executor':
                sites.append((g, c))
    env0 = {SYNC_WRAP_FLAG: False}
    if len(sites) > 1 and not any(g_ is fac for g_, _c in sites):
        # several coroutine functions: the one the factory RETURNS for threadsafe=False is the one examined
        names = set()
        for v_, _e in _bindings_at_exit(p, fac, None, env0, returns=True):
            if not isinstance(v_, ast.Name) or _rebinds(fac, v_.id) or v_.id not in fac.nested or (v_.id + '#2') in fac.nested:
                raise UnknownIdiom('%s: for threadsafe=False the factory returns %s, not one of its own coroutine functions defined once'
                                   % (SYNC_WRAP, short(v_) if v_ is not None else 'None'))
            names.add(v_.id)
        sites = [(g_, c_) for g_, c_ in sites if any(g_ is fac.nested[nm] for nm in names)]
    g, call = single(sites, 'run_in_executor(...) call', SYNC_WRAP)
    if g is fac:
        raise UnknownIdiom('%s submits to the executor itself (not from the returned coroutine function)' % SYNC_WRAP)
    if not call.args or isinstance(call.args[0], ast.Starred):
        raise UnknownIdiom('%s: executor argument of %s' % (g.qual, short(call)))
    run.use(g)

    def has_other_sync():
        for h in (fac, g):
            for n in walk_self(h.node):
                if isinstance(n, (ast.With, ast.AsyncWith)):
                    return True
                if isinstance(n, (ast.Name, ast.Attribute)) and (n.id if isinstance(n, ast.Name) else n.attr) in _SYNC_PRIMITIVES:
                    return True
        return False

    def evaluate(h: Func, e, env, depth=0) -> List[Tuple[str, object, object]]:
        """[(kind, object, where)]: default | module (qual, ctor) | memo (getter, ctor) | fresh (func, ctor)"""
        if depth > 6:
            raise UnknownIdiom('%s: executor expression too deep' % h.qual)
        if isinstance(e, ast.Constant) and e.value is None:
            return [('default', None, e)]
        if isinstance(e, ast.NamedExpr):
            return evaluate(h, e.value, env, depth + 1)
        if isinstance(e, ast.IfExp):
            c = _abs_value(e.test, env)
            arms = [e.body, e.orelse] if c is _UNK else [e.body if c else e.orelse]
            return [r for x in arms for r in evaluate(h, x, env, depth + 1)]
        if isinstance(e, ast.BoolOp) and isinstance(e.op, ast.Or) and len(e.values) == 2:
            # `x or y`: an executor object is truthy, None is not
            out = []
            for r in evaluate(h, e.values[0], env, depth + 1):
                out += evaluate(h, e.values[1], env, depth + 1) if r[0] == 'default' else [r]
            return out
        if isinstance(e, ast.Call):
            if _executor_ctor(p, h.module, h, e):
                return [('fresh', h, e)]
            t = p.resolve_callable(h, e.func)
            if isinstance(t, Func) and not e.args and not e.keywords:
                ctor = _memo_getter_ctor(p, t)
                if ctor is not None:
                    run.use(t)
                    return [('memo', t, ctor)]
            if isinstance(t, Func) and t.parent is None and t.cls is None and not t.is_async and t is not fac and (e.args or e.keywords) \
                    and not any(isinstance(x, (ast.Yield, ast.YieldFrom)) for x in walk_self(t.node)):
                # a module-level selector handed determined values (``_pick_executor(threadsafe)``): its returns over the paths that are
                # feasible for those values
                binding = _bind_params(t, e)
                env_t: Dict[str, object] = {}
                a_ = t.node.args
                pos_ = [x.arg for x in a_.posonlyargs + a_.args]
                dflt = dict(zip(pos_[len(pos_) - len(a_.defaults):], a_.defaults)) if a_.defaults else {}
                dflt.update({x.arg: d for x, d in zip(a_.kwonlyargs, a_.kw_defaults) if d is not None})
                for pn, ae in binding.items():
                    v_ = _abs_value(ae, env) if ae is not None else (_abs_value(dflt[pn], {}) if pn in dflt else _UNK)
                    if v_ is not _UNK:
                        env_t[pn] = v_
                run.use(t)
                out = []
                for v_, env2 in _bindings_at_exit(p, t, None, env_t, returns=True):
                    out += evaluate(t, v_ if v_ is not None else ast.Constant(None), env2, depth + 1)
                return out
            raise UnknownIdiom('%s: the executor is the result of %s, which is not understood' % (h.qual, short(e)))
        if isinstance(e, ast.Name):
            # a local of h, a local of an enclosing function (closure: the value bound when that function returns), a module-level name
            k = h
            while k is not None:
                if _declared_outer(k, e.id):
                    break
                bound_here = _rebinds(k, e.id)
                if e.id in k.params() and not bound_here:
                    if k is fac and e.id in env0:
                        return evaluate(k, ast.Constant(env0[e.id]), env0, depth + 1)
                    raise UnknownIdiom('%s: the executor is the parameter %s' % (k.qual, e.id))
                if bound_here:
                    out = []
                    for v, env2 in _bindings_at_exit(p, k, e.id, scope_env(k)):
                        if v is None:
                            if e.id in k.params():
                                raise UnknownIdiom('%s: the executor is the parameter %s' % (k.qual, e.id))
                            raise UnknownIdiom('%s: %s may be unbound' % (k.qual, e.id))
                        out += evaluate(k, v, env2, depth + 1)
                    return out
                k = k.parent
            q = p.resolve_expr(h.module, e, h)
            return module_level(h, q, e)
        if isinstance(e, ast.Attribute):
            return module_level(h, p.resolve_expr(h.module, e, h), e)
        raise UnknownIdiom('%s: executor expression %s' % (h.qual, short(e)))

    def module_level(h, q, e):
        if q is None:
            raise UnknownIdiom('%s: executor %s is not a resolvable name' % (h.qual, short(e)))
        q = p.canonical(q)
        mod, _, nm = q.rpartition('.')
        m = p.modules.get(mod)
        if m is None or nm not in m.consts:
            raise UnknownIdiom('%s: executor %s (%s) is not a module-level object of the package' % (h.qual, short(e), q))
        v = m.consts[nm]
        if _executor_ctor(p, m, None, v):
            return [('module', q, v)]
        if isinstance(v, ast.Constant) and v.value is None:
            raise UnknownIdiom('%s: module-level %s is None at import time and filled in later' % (h.qual, q))
        raise UnknownIdiom('%s: module-level %s = %s' % (h.qual, q, short(v)))

    _envs: Dict[str, Dict[str, object]] = {}

    def scope_env(k: Func) -> Dict[str, object]:
        """what is known on entry to k: the factory starts from threadsafe=False; a nested function sees the determined locals the
        enclosing function has when it returns (minus the names the nested function binds itself)"""
        if k.qual not in _envs:
            if k is fac:
                _envs[k.qual] = dict(env0)
            elif k.parent is None:
                _envs[k.qual] = {}
            else:
                outer = _common_env([e_ for _v, e_ in _bindings_at_exit(p, k.parent, None, scope_env(k.parent))])
                own = set(k.params()) | {x.id for x in walk_self(k.node) if isinstance(x, ast.Name) and isinstance(x.ctx, (ast.Store, ast.Del))}
                _envs[k.qual] = {n_: v_ for n_, v_ in outer.items() if n_ not in own}
        return _envs[k.qual]

    vals = evaluate(g, call.args[0], scope_env(g))
    if not vals:
        raise UnknownIdiom('%s: no value found for the executor argument' % g.qual)
    # for a fixed value of the flag the executor is determined; several different outcomes mean that a condition this analysis cannot
    # decide selects among them.  All of them good or all of them bad is still a verdict; a mixture is not.
    distinct = {(k_, (o_.qual if isinstance(o_, Func) else o_), id(w_)) for k_, o_, w_ in vals}
    kinds = {k_ in ('module', 'memo') for k_, _o, _w in vals}
    if len(distinct) > 1 and len(kinds) > 1:
        raise UnknownIdiom('%s: for threadsafe=False the executor is one of %s depending on a condition that is not decided'
                           % (SYNC_WRAP, sorted('%s %s' % (k_, short(w_)) for k_, _o, w_ in vals)))
    run.extra['c19_serial_executor'] = sorted({'%s %s' % (k, o.qual if isinstance(o, Func) else o) for k, o, _w in vals})
    rw = ('two callables sharing a non-thread-safe object are wrapped separately with threadsafe=False; two concurrent requests await one '
          'each: both run at the same time on different threads and the outcome matches no serial order')
    shared = set()
    for kind, obj, where in vals:
        if kind == 'fresh':
            run.fail('threadsafe=False: the executor the wrapper submits to is ONE process-wide object shared by all wrappers; here an executor is '
                     'constructed inside %s (one per %s): callables wrapped separately are no longer serialised against each other'
                     % (obj.name, 'call' if obj is g else 'wrapped callable'), obj, where, runtime_witness=rw)
            continue
        if kind == 'default':
            if has_other_sync():
                raise UnknownIdiom('%s: threadsafe=False submits to the default executor, but the code uses another synchronisation construct '
                                   '(with-block / lock); that mechanism is not understood' % SYNC_WRAP)
            run.fail('threadsafe=False: the wrapper submits to the loop\'s default (multi-threaded) executor instead of the global single-threaded one',
                     g, call, runtime_witness=rw)
            continue
        shared.add(obj.qual if isinstance(obj, Func) else obj)
        mod = obj.module if isinstance(obj, Func) else p.modules[obj.rpartition('.')[0]]
        what = ('the getter %s()' % obj.qual) if isinstance(obj, Func) else obj
        run.ok('threadsafe=False: the wrapper submits to the process-wide executor %s (constructed %s), shared by every wrapper'
               % (what, 'once, memoised by the getter' if kind == 'memo' else 'at module level'), g.loc(call), call)
        mw = _max_workers(p, mod, where)
        run.check(mw == 1, 'threadsafe=False: the global executor has exactly one worker thread (max_workers=1), so the callables run one at a time',
                  obj if isinstance(obj, Func) else fac, where, where=(obj.loc(where) if isinstance(obj, Func) else '%s:%s' % (mod.relpath, getattr(where, 'lineno', 0))),
                  witness=['max_workers = %r' % (mw,)], runtime_witness=rw)
        if kind == 'module':
            wr = [(w, n) for (w, n) in _writers_of_symbol(p, obj)]
            for w in p.all_functions():
                if w.module is mod and _declares_global(w, obj.rpartition('.')[2]) and not any(w is x for x, _n in wr):
                    if any(isinstance(x, ast.Name) and x.id == obj.rpartition('.')[2] and isinstance(x.ctx, (ast.Store, ast.Del)) for x in walk_self(w.node)):
                        wr.append((w, w.node))
            run.check(not wr, 'threadsafe=False: no function rebinds or replaces the global executor %s' % obj, wr[0][0] if wr else fac,
                      (wr[0][1] if not isinstance(wr[0][1], (ast.FunctionDef, ast.AsyncFunctionDef)) else 'global %s' % obj.rpartition('.')[2]) if wr else obj,
                      runtime_witness='wrappers created before and after the replacement submit to different executors: ' + rw)
    if len(shared) > 1:
        raise UnknownIdiom('%s: for threadsafe=False the executor is one of %s depending on a condition that is not decided' % (SYNC_WRAP, sorted(shared)))


def check(run):
    run.assume('configuration-time mutation (add_route, add_error_handler, option assignment) does not race with traffic; user code is out of scope')
    run.assume('objects handed out by lru_cache-d functions are not mutated by user code')
    run.rule('R1', r1_compile_lock, 'lazy router compilation under the lock, re-check, publish after build, re-read tables', floor=7)
    run.rule('R2', r2_no_request_state, 'no store into self on the request path of shared objects', floor=150)
    run.rule('R3', r3_inventory, 'shared-state inventory against the reasoned allow-list', floor=24)
    run.rule('R6', r6_tables_rebound, 'a recompile publishes fresh router tables; no published table is emptied or reordered in place', floor=3)
    run.rule('R5', r5_memo_returns_mutable, 'memoised functions do not hand out mutable containers they built', floor=5)
    run.rule('R4', r4_fresh_per_call, 'params/req/resp fresh per call and never parked on self', floor=30)
    run.rule('R7', r7_raised_errors_fresh, 'a raised exception object is private to the call that raises it (no closure-captured / module-level / '
             'handler-wide exception instance is raised for every request)', floor=5)
    run.rule('R8', r8_serial_executor, 'wrap_sync_to_async(threadsafe=False) submits to ONE process-wide single-thread executor (module level or memoised '
             'once, max_workers=1), never to an executor constructed per wrapper / per call or to the default pool', floor=1)
