"""C20 - the built-in CORS policy (DESIGN.md section 3, C20).

`CORSMiddleware.process_response` is loop-free; it is executed symbolically
once per feasible combination of branch outcomes (c20_helpers), which yields
the function's own decision table.  R1-R4 are universally quantified queries
over that table, so they accept any guard structure realising the same table.

A branch condition outside the policy vocabulary normally makes the paths it guards unreadable (exit 2).  One family is
read (Table.free_header): a comparison of a client-chosen request header with a request-independent value or collection
(``req.get_header('Access-Control-Request-Method') in COMBINED_METHODS``) that came out FALSE - the path is realised by
a request carrying a fresh non-empty token in that header, so it is a witness that a successful OPTIONS exchange with
the request-method header present is neither approved nor withdrawn (seeded s6-c20-2).  c20_helpers.ev3 also derives the
truthiness of a header value from comparisons with constants decided on the path (``!= ''``, ``not in (None, '')``,
``== 'GET'``), so equivalent spellings of "header present and non-empty" stay silent.

Wave 8: R1 also decides that no request header the decision reads (Origin, Access-Control-Request-Method/-Headers; collected from the
table) is among the headers of which ``asgi.Request.__init__`` keeps only the LAST field line (the set is read from the overwrite/combine
branch of its header loop and folded across modules; seeded s8-c20-1).  Ordering comparisons (``200 <= resp.status_code <= 299``) are read
as ONE atom ``cmp(...)`` of unknown value - inside the vocabulary only when every symbolic operand is an attribute of the response object -
and R4 requires every store of an approval header to lie on a path that tested the ``req_succeeded`` parameter and found it true (seeded
s8-c20-2).

Auto-mutation wave: R4 requires the duplicate-CORS refusal of ``App.add_middleware`` (a test over ``isinstance(_, CORSMiddleware)`` whose true
branch only raises) to imply a truthy ``self._cors_enable`` - by itself or through a dominating test; explicitly stacked policies are
not refused when the flag is off (sa-am00072).  Nested / chained spellings of the same guard are read.

Wave 9: R6 = C02 R4 (shared): the Allow header the approve branch copies into Access-Control-Allow-Methods is the resource's own
method list, SET by the automatic OPTIONS responder (an ``append_header('Allow', ..)`` merges a provisional Allow written earlier in the
cycle and the preflight approves methods the resource answers with 405; seeded s9-c20-1).

Second preserving wave (k2-*): the policy interpreter reads a call on a module-level logger (bound once to ``logging.getLogger(..)``, constant /
plain-local arguments) as a no-op statement, ``bool(x)`` as x's truth, membership in a literal collection of at most three constants as the
disjunction of the equalities, ``:=``, ``del local``, ``assert`` (raises when false), ``typing.cast``, locals bound to ``resp.set_header`` & co.,
loops over a literal sequence of literal pairs, keyword arguments of the header accessors, staticmethod helpers.  R4's wiring clauses were
re-based on what they need: "the collection handed to add_middleware holds the constructed instance" is a forward MUST-analysis over
App.__init__ (_holds_instance; a use of the instance that is not read is exit 2), and the duplicate-CORS refusal of App.add_middleware is
read through single-assignment locals, one-expression helpers and ONE refusing helper (same-class method or module-level function) that
add_middleware calls before it extends the list (_Expander / _duplicate_refusal).

Contract names used as anchors: the parameter positions of
``process_response(self, req, resp, resource, req_succeeded)``, the public
attributes ``allow_origins`` / ``allow_credentials`` / ``expose_headers``, the
header names of the CORS protocol, ``req.method``, ``'OPTIONS'``.
"""

from __future__ import annotations

import ast
import re
from typing import Dict, List, Optional

from .. import flow
from ..cfg import cfg_of
from ..model import AnchorError, Class, Func, UnknownIdiom, dotted, short
from .c20_helpers import Leaf, decision_table, ev3, f_and, f_not, f_or, lit, split_args as _split_args, vkey
from .common import implied, is_self_attr, walk_self

PR = 'falcon.middleware.CORSMiddleware.process_response'
INIT = 'falcon.middleware.CORSMiddleware.__init__'
CORS_CLASS = 'falcon.middleware.CORSMiddleware'

ACAO = 'access-control-allow-origin'
ACAC = 'access-control-allow-credentials'
ACRM = 'access-control-request-method'
APPROVE = ('access-control-allow-methods', 'access-control-allow-headers', 'access-control-max-age')
ORIGIN = ('reqhdr', 'origin', None)

KNOWN_SYMS = {'self.allow_origins', 'self.allow_credentials', 'self.expose_headers', 'req.method'}


class Table:
    """Decision table of process_response plus the formulas of the policy."""

    def __init__(self, run):
        p = run.project
        self.func = f = p.func(PR)
        params = f.params()
        if len(params) < 5:
            raise AnchorError('%s: expected (self, req, resp, resource, req_succeeded)' % PR)
        run.use_cfg(cfg_of(f, p))
        self.leaves, self.ex = decision_table(p, f, req_param=1, resp_param=2)
        self.succ_atom = 'truthy(param:%s)' % params[4]
        self.known_syms = set(KNOWN_SYMS) | {'param:' + params[4]}
        self.origin_present = f_or(lit('none(reqhdr(origin))', False), lit('truthy(reqhdr(origin))', True))
        self.allowed = f_or(lit("eq('*',self.allow_origins)"), lit('in(reqhdr(origin),self.allow_origins)'))
        self.cred = f_or(lit("eq('*',self.allow_credentials)"), lit('in(reqhdr(origin),self.allow_credentials)'))
        self.preflight = f_and(lit(self.succ_atom), lit("eq('OPTIONS',req.method)"), lit('truthy(reqhdr(%s))' % ACRM))
        self.allow_absent = lit('none(prehdr(allow))')
        self.granted = f_and(self.origin_present, self.allowed)
        # region in which the policy *must* act: a non-empty allowed origin (an
        # implementation may treat an empty Origin value as absent or as present)
        self.must_act = f_and(f_not(lit('none(reqhdr(origin))')), f_not(lit('truthy(reqhdr(origin))', False)), self.allowed)
        names = self.ex.header_names
        self.cors_names = sorted(n for n in names if n.startswith('access-control-') and not n.startswith('access-control-request-')
                                 and self._resp_side(n))
        if ACAO not in self.cors_names:
            raise AnchorError('%s never touches Access-Control-Allow-Origin' % PR)
        run.extra['c20_decision_table'] = {'paths': len(self.leaves), 'cors_response_headers': [names[n] for n in self.cors_names]}
        for l in self.leaves[:3]:
            run.sample({'path': l.describe(), 'final_headers': {k: v[0] for k, v in l.store.items()}})

    def _resp_side(self, name):
        for l in self.leaves:
            if name in l.store:
                return True
            if any(a.find('prehdr(%s)' % name) >= 0 for a in l.decisions):
                return True
        return False

    def spelled(self, name):
        return self.ex.header_names.get(name, name)

    def sites(self, kind, pred):
        """ast call node id -> (node, func, [leaves, event]) for events of kind
        whose header satisfies pred."""
        out: Dict[tuple, list] = {}
        for l in self.leaves:
            for ev in l.events:
                if ev[0] == kind and pred(ev[1]):
                    out.setdefault((id(ev[3]), ev[1]), [ev[3], ev[4], []])[2].append((l, ev))     # one site per call AND header (unrolled loops)
        return list(out.values())

    def unknown_atoms(self, leaf: Leaf) -> List[str]:
        bad = []
        for a in leaf.decisions:
            inner = a[a.index('(') + 1:-1]
            if a.startswith('cmp('):
                # an ordering comparison (c20_helpers.Executor._ordering): inside the vocabulary only when every symbolic operand is an
                # attribute of the response object - whatever the responder / the error handlers left there (status_code, ...), a free
                # value like the `pre` headers; both outcomes are feasible whatever the request and the success flag are
                if all(part.startswith(("'", '"', 'resp.')) or part.lstrip('-')[:1].isdigit() for part in _split_args(inner)):
                    continue
                bad.append(a)
                continue
            for part in _split_args(inner):
                if part.startswith(("'", '"')) or part[:1].isdigit() or part in ('None', 'True', 'False'):
                    continue
                if part.startswith(('reqhdr(', 'prehdr(')):
                    continue
                if part in self.known_syms:
                    continue
                if part == 'str':
                    continue
                bad.append(a)
                break
        return bad

    # -- atoms outside the vocabulary that still admit a verdict --------------------------------------------------
    @staticmethod
    def _client_test(atom: str):
        """(header, other operand) when `atom` compares the value of a request header - sent by the client, default None -
        with something that does not depend on the exchange (a constant, a module-level collection, a configuration
        attribute): ``in(reqhdr(h),C)`` / ``eq(reqhdr(h),K)``; else None."""
        if '(' not in atom or not atom.endswith(')'):
            return None
        kind = atom[:atom.index('(')]
        if kind not in ('in', 'eq'):
            return None
        parts = _split_args(atom[atom.index('(') + 1:-1])
        if len(parts) != 2:
            return None
        subj, other = parts
        if kind == 'eq' and not subj.startswith('reqhdr('):
            subj, other = other, subj
        m = re.fullmatch(r'reqhdr\(([^(),]+)\)', subj)
        if m is None or any(tok in other for tok in ('reqhdr(', 'prehdr(', 'param:', 'req.', 'resp.')):
            return None
        return m.group(1), other

    def free_header(self, leaf: Leaf, atom: str) -> Optional[str]:
        """Header name h when the out-of-vocabulary `atom` is a comparison of the client-chosen request header h with a
        request-independent value/collection that came out FALSE on this path, and nothing else decided on the path
        constrains that header beyond "present and non-empty".  Such a path is realised by a request that carries a
        fresh non-empty token in h (a finite collection never contains every token), so on it ``truthy(reqhdr(h))`` may
        be taken as true: the path is a witness, not an unread idiom.  (A TRUE outcome says the token is one of the
        collection's elements; whether those are all non-empty is a fact about a value the interpreter cannot fold -
        that stays an unknown idiom.)"""
        ct = self._client_test(atom)
        if ct is None or leaf.decisions.get(atom) is not False:
            return None
        h = ct[0]
        ref = 'reqhdr(%s)' % h
        for a, v in leaf.decisions.items():
            if a == atom or ref not in a:
                continue
            if (a == 'none(%s)' % ref and v is False) or (a == 'truthy(%s)' % ref and v is True):
                continue
            ct2 = self._client_test(a)
            if ct2 is not None and ct2[0] == h and v is False:
                continue
            return None
        return h

    def blocking_atoms(self, leaf: Leaf) -> List[str]:
        """atoms outside the policy vocabulary that prevent a verdict on this path"""
        return [a for a in self.unknown_atoms(leaf) if self.free_header(leaf, a) is None]

    def pick(self, bads: List[Leaf]):
        """(leaf to report, None) - a path on which the obligation fails and every decision is understood - or
        (None, atom) when each failing path hinges on an atom that is not understood"""
        first = None
        for l in bads:
            b = self.blocking_atoms(l)
            if not b:
                return l, None
            first = first or b[0]
        return None, first

    def witness(self, leaf: Leaf) -> List[str]:
        out = leaf.describe()
        for a in self.unknown_atoms(leaf):
            h = self.free_header(leaf, a)
            if h is not None:
                out.append('request: %s carries a non-empty token for which %s is false (e.g. a method name outside that collection)' % (self.spelled_req(h), a))
        return out

    def spelled_req(self, name):
        return self.ex.header_names.get(name, name)

    def require(self, run, form, leaves_events, what, node, func, runtime):
        """One obligation: `form` is established on every listed path."""
        for (l, ev) in leaves_events:
            r = ev3(form, l)
            if r is not True:
                unk = self.unknown_atoms(l)
                if unk:
                    raise UnknownIdiom('%s: the path to %s is guarded by a predicate outside the policy vocabulary: %s' % (
                        func.qual, short(node, 60), unk[0]))
                run.fail(what, func, node, witness=l.describe(), runtime_witness=runtime)
                return False
        run.ok(what, func.loc(node), node)
        return True


def table(run) -> Table:
    """One decision table per Run (kept on the Run object itself: ids of
    dead Run objects are recycled, so an id-keyed cache would go stale)."""
    t = getattr(run, '_c20_table', None)
    if t is None:
        t = Table(run)
        run._c20_table = t
    return t


# ---------------------------------------------------------------------------
# R1 gates
# ---------------------------------------------------------------------------

def _hdr_text(node: ast.Call) -> str:
    """the header-name argument of a set_header call, for messages"""
    a = node.args[0] if node.args else next((k.value for k in node.keywords if k.arg == 'name'), None)
    return short(a, 50) if a is not None else short(node, 50)


def r1_gates(run):
    t = table(run)
    sites = t.sites('set', lambda h: h in t.cors_names)
    if not sites:
        raise AnchorError('%s sets no Access-Control-* header' % PR)
    for node, func, les in sites:
        t.require(run, t.origin_present, les,
                  'a CORS response header is written only when the request carries an Origin header', node, func,
                  'a request without Origin whose response gains %s' % _hdr_text(node))
        t.require(run, t.allowed, les,
                  'a CORS response header is written only for an origin that allow_origins admits', node, func,
                  'allow_origins={"https://a"} and Origin: https://evil - the response gains %s' % _hdr_text(node))
    _decision_headers_not_last_wins(run, t)


ASGI_REQ_INIT = 'falcon.asgi.request.Request.__init__'


def _fold_name_set(p, module, e, func=None, depth=0):
    """set of lower-case header names denoted by `e`: a constant collection of str/bytes, a module-level name of one (followed across
    modules), ``frozenset/set/tuple/list(<such>)``, or a comprehension ``[h.encode() for h in <such>]`` (elementwise encode/lower/decode
    only, no filter).  Anything else is an unknown idiom."""
    if depth > 6:
        raise UnknownIdiom('header-name set %s: definition chain too long' % short(e))
    v = p.fold(module, e, None, func)
    if isinstance(v, (set, frozenset, tuple, list)) and all(isinstance(x, (str, bytes)) for x in v):
        return {(x.decode('latin-1') if isinstance(x, bytes) else x).lower() for x in v}
    if isinstance(e, ast.Call) and isinstance(e.func, ast.Name) and e.func.id in ('frozenset', 'set', 'tuple', 'list') and not e.keywords:
        if not e.args:
            return set()
        if len(e.args) == 1:
            return _fold_name_set(p, module, e.args[0], func, depth + 1)
    if isinstance(e, (ast.ListComp, ast.SetComp, ast.GeneratorExp)) and len(e.generators) == 1 and not e.generators[0].ifs \
            and isinstance(e.generators[0].target, ast.Name):
        x = e.elt
        while isinstance(x, ast.Call) and isinstance(x.func, ast.Attribute) and x.func.attr in ('encode', 'decode', 'lower') and not x.keywords \
                and all(isinstance(a, ast.Constant) for a in x.args):
            x = x.func.value
        if isinstance(x, ast.Name) and x.id == e.generators[0].target.id:
            return _fold_name_set(p, module, e.generators[0].iter, func, depth + 1)
    if isinstance(e, ast.BinOp) and isinstance(e.op, (ast.BitOr, ast.Add)):
        return _fold_name_set(p, module, e.left, func, depth + 1) | _fold_name_set(p, module, e.right, func, depth + 1)
    if isinstance(e, ast.Call) and isinstance(e.func, ast.Attribute) and e.func.attr == 'union' and not e.keywords:
        out = _fold_name_set(p, module, e.func.value, func, depth + 1)
        for a in e.args:
            out |= _fold_name_set(p, module, a, func, depth + 1)
        return out
    if isinstance(e, (ast.Name, ast.Attribute)):
        q = p.resolve_expr(module, e, func)
        if q:
            q = p.canonical(q)
            mod, _, nm = q.rpartition('.')
            m2 = p.modules.get(mod)
            if m2 is not None and nm in m2.consts and m2.consts[nm] is not e:
                return _fold_name_set(p, m2, m2.consts[nm], None, depth + 1)
    raise UnknownIdiom('the header-name set %s is not a constant collection the analysis can read' % short(e))


def _last_wins_headers(p):
    """(function, {lower-case names}) - the request headers for which the ASGI request keeps only the LAST of several field lines.
    Read from the place where ``asgi.Request.__init__`` builds its header table: one ``if`` whose two arms are ``D[k] = v`` (overwrite) and
    ``D[k] += ...`` (combine into the list form ``a,b``); its test is a disjunction of ``k not in D`` (first occurrence) and
    ``k in <constant set>`` - the union of those sets is the answer."""
    f = p.func(ASGI_REQ_INIT)
    found = []
    for n in walk_self(f.node):
        if not isinstance(n, ast.If):
            continue

        def store(stmts, combine):
            """(table, key) of the first `D[k] = v` (combine=False: v does not read D[k]) / `D[k] += v`, `D[k] = D[k] + v` (combine=True)"""
            for s in stmts:
                t = None
                if isinstance(s, ast.AugAssign):
                    t, reads_old = s.target, True
                elif isinstance(s, ast.Assign) and len(s.targets) == 1:
                    t = s.targets[0]
                    reads_old = isinstance(t, ast.Subscript) and any(isinstance(x, ast.Subscript) and ast.dump(x.value) == ast.dump(t.value)
                                                                     and ast.dump(x.slice) == ast.dump(t.slice) for x in ast.walk(s.value))
                if isinstance(t, ast.Subscript) and isinstance(t.value, ast.Name) and isinstance(t.slice, ast.Name) and reads_old == combine:
                    return t.value.id, t.slice.id
            return None
        for over, comb, truth in ((n.body, n.orelse, True), (n.orelse, n.body, False)):
            a, b = store(over, False), store(comb, True)
            if a is not None and a == b:
                found.append((n, a[0], a[1], truth))
    if not found:
        raise AnchorError('%s: the branch that either overwrites or combines a repeated header line was not found' % ASGI_REQ_INIT)
    if len(found) > 1:
        raise UnknownIdiom('%s: several overwrite/combine branches' % ASGI_REQ_INIT)
    n, table, key, truth = found[0]
    test = n.test
    if not truth:
        # the overwrite arm is the else-arm: negate the test (not X -> X; De Morgan over a conjunction of membership tests)
        def neg(c):
            if isinstance(c, ast.UnaryOp) and isinstance(c.op, ast.Not):
                return c.operand
            if isinstance(c, ast.Compare) and len(c.ops) == 1 and isinstance(c.ops[0], (ast.In, ast.NotIn)):
                return ast.Compare(left=c.left, ops=[ast.NotIn() if isinstance(c.ops[0], ast.In) else ast.In()], comparators=c.comparators)
            raise UnknownIdiom('%s: overwrite arm under the false outcome of %s' % (ASGI_REQ_INIT, short(test)))
        if isinstance(test, ast.BoolOp) and isinstance(test.op, ast.And):
            test = ast.BoolOp(op=ast.Or(), values=[neg(v) for v in test.values])
        else:
            test = neg(test)
    disj = test.values if isinstance(test, ast.BoolOp) and isinstance(test.op, ast.Or) else [test]
    names = set()
    first = False
    for d in disj:
        if isinstance(d, ast.Compare) and len(d.ops) == 1 and isinstance(d.left, ast.Name) and d.left.id == key:
            c = d.comparators[0]
            if isinstance(d.ops[0], ast.NotIn) and isinstance(c, ast.Name) and c.id == table:
                first = True
                continue
            if isinstance(d.ops[0], ast.In):
                names |= _fold_name_set(p, f.module, c, f)
                continue
        raise UnknownIdiom('%s: condition %s of the overwrite arm' % (ASGI_REQ_INIT, short(d)))
    if not first:
        raise UnknownIdiom('%s: the overwrite arm is not taken for the first occurrence of a header' % ASGI_REQ_INIT)
    return f, n, names


def _decision_headers_not_last_wins(run, t):
    """R1, sub-clause (wave 8, seeded s8-c20-1): the request headers the CORS decision reads (Origin, Access-Control-Request-Method,
    Access-Control-Request-Headers - collected from the decision table) are not among the headers for which the ASGI request keeps only the
    LAST of several field lines.  A WSGI server hands repeated lines over combined (``a,b``, RFC 3875 / PEP 3333 practice), and a combined
    value matches no configured origin; last-wins lets the client choose which of its lines the policy sees.
    W: ASGI request with ``Origin: https://evil`` + ``Origin: https://app``: granted as https://app (with credentials), WSGI grants nothing."""
    p = run.project
    f, node, last_wins = _last_wins_headers(p)
    run.use(f)
    run.extra['c20_asgi_last_wins_headers'] = sorted(last_wins)
    read = set()
    for l in t.leaves:
        for a in l.decisions:
            read.update(re.findall(r'reqhdr\(([^(),]+)', a))
        for ev in l.events:
            v = ev[2]
            if isinstance(v, tuple) and v and v[0] == 'reqhdr':
                read.add(v[1])
    if 'origin' not in read or ACRM not in read:
        raise AnchorError('%s does not read Origin / Access-Control-Request-Method' % PR)
    for h in sorted(read):
        run.check(h not in last_wins,
                  'the request header %s, read by the CORS decision, is not one of the headers of which the ASGI request keeps only the last '
                  'field line (repeated lines are combined, as a WSGI server does)' % t.spelled_req(h), f, 'last-wins header: %s' % h, where=f.loc(node),
                  witness=['last-wins set: %s' % sorted(last_wins)],
                  runtime_witness='an ASGI request with two %s lines, the last one acceptable to the policy: the grant is decided on the last line alone, '
                                  'while the same request through WSGI (lines combined) is granted nothing' % t.spelled_req(h))


# ---------------------------------------------------------------------------
# R2 credentials / echoed origin / constructor
# ---------------------------------------------------------------------------

def r2_credentials(run):
    t = table(run)
    p = run.project
    cred_sites = t.sites('set', lambda h: h == ACAC)
    if not cred_sites:
        raise AnchorError('%s never sets Access-Control-Allow-Credentials' % PR)
    for node, func, les in cred_sites:
        t.require(run, t.cred, les, 'credentials are granted only to an origin that allow_credentials admits', node, func,
                  'allow_credentials={"https://a"}, Origin: https://b (allowed origin) - the response carries Allow-Credentials: true')
        bad = None
        for (l, ev) in les:
            sets = [e for e in l.events if e[0] == 'set' and e[1] == ACAO]
            if not sets or sets[-1][2] != ORIGIN:
                bad = (l, sets[-1] if sets else None)
                break
        if bad is not None and t.unknown_atoms(bad[0]):
            raise UnknownIdiom('%s: credentials path guarded by a predicate outside the policy vocabulary' % PR)
        run.check(bad is None, 'whenever credentials are granted the request origin itself is written to Access-Control-Allow-Origin '
                  '(the wildcard value is killed before the store)', func, node,
                  witness=(bad[0].describe() + ['Allow-Origin value: %s' % (vkey(bad[1][2]) if bad[1] else '<not written on this path>')]) if bad else None,
                  runtime_witness='allow_origins="*", allow_credentials="*": response has Allow-Credentials: true with Allow-Origin: *')
    # value domain of Allow-Origin
    for node, func, les in t.sites('set', lambda h: h == ACAO):
        bad = None
        for (l, ev) in les:
            v = ev[2]
            if v == ORIGIN:
                continue
            if v == ('const', '*') and ev3(lit("eq('*',self.allow_origins)"), l) is True:
                continue
            bad = (l, v)
            break
        if bad is not None and t.unknown_atoms(bad[0]):
            raise UnknownIdiom('%s: Allow-Origin path guarded by a predicate outside the policy vocabulary' % PR)
        run.check(bad is None, 'Access-Control-Allow-Origin is the request origin, or "*" only under the wildcard configuration', func, node,
                  witness=(bad[0].describe() + ['value: %s' % vkey(bad[1])]) if bad else None,
                  runtime_witness='allow_origins={"https://a"}, Origin: https://a - the response says Allow-Origin: *')
    # constructor: '*' never inside the stored sets
    f = p.func(INIT)
    run.use_cfg(cfg_of(f, p))
    leaves, _ex = decision_table(p, f)
    normal = [l for l in leaves if l.outcome == 'return']
    if not normal:
        raise AnchorError('%s has no normal exit' % INIT)
    for attr in ('allow_origins', 'allow_credentials'):
        if attr not in f.params():
            raise AnchorError('%s has no parameter %s' % (INIT, attr))
        bad = None
        for l in normal:
            if attr not in l.selfattrs:
                bad = (l, None)
                break
            v = l.selfattrs[attr]
            par = ('sym', 'param:' + attr)
            if v == par and ev3(lit("eq('*',param:%s)" % attr), l) is True:
                continue
            if v[0] == 'call' and v[1] == 'frozenset' and not v[2]:
                continue
            if v[0] == 'call' and v[1] == 'frozenset' and ev3(lit("in('*',%s)" % vkey(v)), l) is False:
                continue
            bad = (l, v)
            break
        run.check(bad is None, 'the constructor stores %s either as the literal wildcard or as a frozenset checked not to contain "*"' % attr,
                  f, 'self.%s' % attr, where=f.loc(),
                  witness=(bad[0].describe() + ['stored: %s' % (vkey(bad[1]) if bad[1] else '<unset>')]) if bad else None,
                  runtime_witness='CORSMiddleware(%s=["*"]) is accepted' % attr)


# ---------------------------------------------------------------------------
# R3 preflight withdraw covers grant
# ---------------------------------------------------------------------------

def r3_withdraw(run):
    t = table(run)
    f = t.func
    region = f_and(t.must_act, t.preflight, t.allow_absent)
    leaves = [l for l in t.leaves if l.outcome == 'return' and ev3(region, l) is not False]
    if not any(l.value_of('none(prehdr(allow))') is True for l in leaves):
        raise AnchorError('%s: no path on which a preflight finds the Allow header absent' % PR)
    for name in t.cors_names:
        bads = [l for l in leaves if l.header_state(name) != ('del',)]
        bad, atom = t.pick(bads)
        if bads and bad is None:
            raise UnknownIdiom('%s: withdraw path guarded by a predicate outside the policy vocabulary: %s' % (PR, atom))
        st = bad.header_state(name) if bad else None
        run.check(bad is None, 'a preflight whose response advertises no Allow set ends with %s withdrawn' % t.spelled(name), f,
                  'preflight without Allow: %s not withdrawn' % t.spelled(name), where=f.loc(),
                  witness=(t.witness(bad) + ['%s at exit: %s' % (t.spelled(name), 'left as the responder set it' if st[0] == 'pre' else 'set to %s' % vkey(st[1]))]) if bad else None,
                  runtime_witness='OPTIONS + Origin + Access-Control-Request-Method to a target that sets no Allow header: the response keeps %s' % t.spelled(name))
    pre = [l for l in t.leaves if l.outcome == 'return' and ev3(f_and(t.must_act, t.preflight), l) is not False]
    bads = [l for l in pre if l.header_state('allow') != ('del',)]
    bad, atom = t.pick(bads)
    if bads and bad is None:
        raise UnknownIdiom('%s: preflight path guarded by a predicate outside the policy vocabulary: %s' % (PR, atom))
    run.check(bad is None, 'the Allow header is removed from every preflight response (approved or denied)', f,
              'preflight: Allow not removed', where=f.loc(), witness=t.witness(bad) if bad else None,
              runtime_witness='a CORS preflight response still carrying Allow')


# ---------------------------------------------------------------------------
# R4 approve branch, wiring, Allow sources
# ---------------------------------------------------------------------------

def _approve(run):
    t = table(run)
    f = t.func
    for h in APPROVE:
        if h not in t.cors_names:
            raise AnchorError('%s never touches %s' % (PR, h))
    # must: every successful OPTIONS exchange that carries Access-Control-Request-Method and advertises an Allow set is approved
    must = f_and(t.must_act, t.preflight, f_not(t.allow_absent))
    region = [l for l in t.leaves if l.outcome == 'return' and ev3(must, l) is not False]
    if not region:
        raise AnchorError('%s: no approving path' % PR)
    for h in APPROVE:
        bads = [l for l in region if l.header_state(h)[0] != 'set']
        bad, atom = t.pick(bads)
        if bads and bad is None:
            raise UnknownIdiom('%s: approve path guarded by a predicate outside the policy vocabulary: %s' % (PR, atom))
        run.check(bad is None, 'an approved preflight carries %s' % t.spelled(h), f, 'approved preflight: %s' % t.spelled(h),
                  where=f.loc(), witness=t.witness(bad) if bad else None,
                  runtime_witness='OPTIONS + allowed Origin + a non-empty Access-Control-Request-Method to a target that advertises Allow: '
                                  'the response lacks %s (the preflight is neither approved nor denied)' % t.spelled(h))
    # only: approval headers appear on no other exchange
    need = f_and(t.granted, t.preflight, f_not(t.allow_absent))
    for node, func, les in t.sites('set', lambda h: h in APPROVE):
        if not _gated_by_success_flag(run, t, node, func, les):
            continue    # reported; the conjunction below would only repeat it (or stumble over the atom that replaced the flag)
        t.require(run, need, les, 'preflight approval headers are written only for a successful OPTIONS carrying '
                  'Access-Control-Request-Method whose response advertises an Allow set', node, func,
                  'a failed (req_succeeded false) or non-OPTIONS exchange whose response gains %s' % _hdr_text(node))
        if any(ev[1] == APPROVE[0] for (_l, ev) in les):
            bad = next(((l, ev) for (l, ev) in les if ev[1] == APPROVE[0] and ev[2] != ('prehdr', 'allow')), None)
            run.check(bad is None, 'Access-Control-Allow-Methods is the Allow value the responder advertised', func, node,
                      witness=(bad[0].describe() + ['value: %s' % vkey(bad[1][2])]) if bad else None)


def _gated_by_success_flag(run, t: Table, node, func, les) -> bool:
    """R4 (wave 8, seeded s8-c20-2): every path to a store of a preflight-approval header has DECIDED the truth of the ``req_succeeded``
    parameter, and decided it true.  The flag is the only thing that tells the middleware whether an exception left the request cycle (R5 /
    C03 R2 decide that the apps compute it so); no other value - the response status, a header - establishes it.  A path on which the flag
    was never consulted is realised with req_succeeded=False whatever else was tested (atoms over distinct values are independent), unless
    an atom outside the vocabulary mentions the flag itself (-> unknown idiom).
    W: an OPTIONS responder sets Allow and raises; a custom error handler leaves the status at 200: the failed exchange is approved."""
    flag = t.succ_atom[len('truthy('):-1]
    bad = None
    for (l, ev) in les:
        if ev3(lit(t.succ_atom), l) is True:
            continue
        hinge = [a for a in t.unknown_atoms(l) if flag in a]
        if hinge:
            raise UnknownIdiom('%s: the path to %s tests the success flag in a way the interpreter does not read: %s' % (func.qual, short(node, 60), hinge[0]))
        bad = l
        break
    run.check(bad is None, 'preflight approval headers are written only on paths that tested the req_succeeded parameter and found it true '
              '(no other value stands in for "no exception left the request cycle")', func, node,
              witness=(bad.describe() + ['%s: %s on this path' % (t.succ_atom, 'false' if ev3(lit(t.succ_atom), bad) is False else 'never consulted')]) if bad else None,
              runtime_witness='an OPTIONS responder that sets Allow and then raises, with an error handler that leaves the status at 200: '
                              'the failed exchange gains %s' % _hdr_text(node))
    return bad is None


def _is_cors_ctor(p, f: Func, c: ast.Call) -> bool:
    tgt = p.callee(f, c)
    return isinstance(tgt, Class) and tgt.qual == CORS_CLASS


_CONTAINER_DROPS = ('remove', 'pop', 'clear', 'popleft', 'discard', '__delitem__', '__setitem__')


def _holds_instance(cfg, cn, an, arg, cmvar, ctor_call):
    """(held, lacking): does the expression `arg`, evaluated at node `an`, CERTAINLY denote a collection that contains the CORSMiddleware
    instance constructed at node `cn` - on every path from `cn` to `an`?  Forward must-analysis; fact = name of a local collection that
    holds the instance.  Generated by ``x = [.., cm, ..]`` / ``(.., cm)`` / ``[*y, cm]``, ``x = y`` / ``list(y)`` / ``tuple(y)`` / ``y + z``
    of a holding y, ``x += ..`` (keeps what x holds), ``x.append(cm)`` / ``x.insert(i, cm)`` / ``x.extend(<holding>)``; killed by any other
    binding of x and by an element-dropping method / ``del x[..]`` / ``x[..] = ..``.  A statement left through its exceptional edge has
    generated nothing.  `lacking` = nodes entered with the fact of `arg` missing (for the witness path)."""

    def is_cm(e):
        return e is ctor_call or (cmvar is not None and isinstance(e, ast.Name) and e.id == cmvar)

    def holds(e, st):
        if isinstance(e, ast.Name):
            return e.id in st
        if isinstance(e, (ast.List, ast.Tuple, ast.Set)):
            return any(is_cm(x) or (isinstance(x, ast.Starred) and holds(x.value, st)) for x in e.elts)
        if isinstance(e, ast.Call) and isinstance(e.func, ast.Name) and e.func.id in ('list', 'tuple') and len(e.args) == 1 and not e.keywords:
            return holds(e.args[0], st)
        if isinstance(e, ast.BinOp) and isinstance(e.op, ast.Add):
            return holds(e.left, st) or holds(e.right, st)
        if isinstance(e, ast.IfExp):
            return holds(e.body, st) and holds(e.orelse, st)
        return False

    def transfer(n, st, label):
        st = set(st)
        a = n.ast if n.kind == 'stmt' else None
        gen = set()
        keep = set()
        if isinstance(a, ast.Assign) and len(a.targets) == 1 and isinstance(a.targets[0], ast.Name):
            if holds(a.value, st):
                gen.add(a.targets[0].id)
        elif isinstance(a, ast.AnnAssign) and isinstance(a.target, ast.Name) and a.value is not None:
            if holds(a.value, st):
                gen.add(a.target.id)
        elif isinstance(a, ast.AugAssign) and isinstance(a.target, ast.Name) and isinstance(a.op, ast.Add):
            if a.target.id in st:
                keep.add(a.target.id)
            elif holds(a.value, st):
                gen.add(a.target.id)
        elif isinstance(a, ast.Expr) and isinstance(a.value, ast.Call) and isinstance(a.value.func, ast.Attribute) \
                and isinstance(a.value.func.value, ast.Name) and not a.value.keywords:
            c = a.value
            x = c.func.value.id
            if (c.func.attr == 'append' and len(c.args) == 1 and is_cm(c.args[0])) or (c.func.attr == 'insert' and len(c.args) == 2 and is_cm(c.args[1])) \
                    or (c.func.attr == 'extend' and len(c.args) == 1 and holds(c.args[0], st)):
                gen.add(x)
        if not gen and not keep and n.id not in (cn.id, an.id) and any(is_cm(x) for x in n.walk()):
            # the instance is mentioned in a form that is not read (handed to a function, wrapped by a call, ...)
            raise UnknownIdiom('App.__init__: what %s does with the CORSMiddleware instance is not understood' % short(n.ast if n.ast is not None else n.stmt, 80))
        kill = set()
        for x in n.walk():
            if isinstance(x, ast.Name) and not isinstance(x.ctx, ast.Load):
                kill.add(x.id)
            elif isinstance(x, ast.Call) and isinstance(x.func, ast.Attribute) and isinstance(x.func.value, ast.Name) and x.func.attr in _CONTAINER_DROPS:
                kill.add(x.func.value.id)
            elif isinstance(x, ast.Subscript) and isinstance(x.value, ast.Name) and not isinstance(x.ctx, ast.Load):
                kill.add(x.value.id)
        if n.kind == 'handler' and getattr(n.ast, 'name', None):
            kill.add(n.ast.name)
        if label == 'exc':
            # the statement did not complete: nothing generated; a binding may or may not have happened
            return frozenset(st - (kill - keep))
        return frozenset((st - (kill - keep)) | gen)

    IN = {cn.id: frozenset()}
    work = [cn.id]
    while work:
        x = work.pop()
        for (y, l) in cfg.succ[x]:
            if x == cn.id and l == 'exc':
                continue     # the constructor raised: no instance exists
            out = transfer(cfg.node(x), IN[x], l)
            new = out if y not in IN else (IN[y] & out)
            if y not in IN or new != IN[y]:
                IN[y] = new
                work.append(y)
    if an.id not in IN:
        raise UnknownIdiom('App.__init__: the add_middleware call is not reachable from the CORSMiddleware construction')
    names = {x.id for x in ast.walk(arg) if isinstance(x, ast.Name)}
    lacking = {nid for nid, st in IN.items() if not (names & st)}
    return holds(arg, IN[an.id]), lacking


def _wiring(run):
    p = run.project
    f = p.func('falcon.app.App.__init__')
    cfg = cfg_of(f, p)
    run.use_cfg(cfg)
    if 'cors_enable' not in f.params():
        raise AnchorError('App.__init__ has no cors_enable parameter')
    ctor_nodes = [(n, c) for n in cfg.live_nodes() for c in n.calls() if _is_cors_ctor(p, f, c)]
    if not ctor_nodes:
        raise AnchorError('App.__init__ does not construct a CORSMiddleware')
    in_loop = any(isinstance(x, (ast.For, ast.While, ast.AsyncFor)) and any(c is y for y in ast.walk(x))
                  for (_n, c) in ctor_nodes for x in walk_self(f.node))
    run.check(len(ctor_nodes) == 1 and not in_loop, 'cors_enable constructs exactly one CORSMiddleware instance', f, ctor_nodes[-1][1])
    cn, call = ctor_nodes[0]

    def is_flag(e):
        return (isinstance(e, ast.Name) and e.id == 'cors_enable') or is_self_attr(e, '_cors_enable')

    edges = [(n.id, y, l) for n in cfg.live_nodes() if n.kind == 'test' for (y, l) in cfg.succ[n.id]
             if l in ('T', 'F') and implied(n.ast, l == 'T', is_flag) is True]
    run.check(cn.id not in flow.reachable(cfg, [cfg.entry], avoid_edges=edges),
              'the CORSMiddleware instance is created only under a truthy cors_enable', f, call)
    # the add_middleware call and the value handed to it
    adds = [(n, c) for n in cfg.live_nodes() for c in n.calls() if dotted(c.func) == 'self.add_middleware']
    if len(adds) != 1 or len(adds[0][1].args) != 1 or adds[0][1].keywords or isinstance(adds[0][1].args[0], ast.Starred):
        raise UnknownIdiom('App.__init__: expected one self.add_middleware(<components>) call')
    an, acall = adds[0]
    cmvar = None
    if isinstance(cn.ast, ast.Assign) and cn.ast.value is call and len(cn.ast.targets) == 1 and isinstance(cn.ast.targets[0], ast.Name):
        cmvar = cn.ast.targets[0].id
        if sum(1 for x in ast.walk(f.node) if isinstance(x, ast.Name) and x.id == cmvar and not isinstance(x.ctx, ast.Load)) != 1:
            raise UnknownIdiom('App.__init__: the local %s holding the CORSMiddleware instance is bound more than once' % cmvar)
    held, lacking = _holds_instance(cfg, cn, an, acall.args[0], cmvar, call)
    path = None
    if not held:
        path = flow.find_path(cfg, [y for (y, l) in cfg.succ[cn.id] if l != 'exc'], [an.id],
                              avoid_nodes=[n.id for n in cfg.live_nodes() if n.id not in lacking and n.id != an.id])
    run.check(held, 'under cors_enable the constructed instance is part of the middleware handed to add_middleware on every path',
              f, acall, witness=flow.describe_path(cfg, path) if path else None,
              runtime_witness='App(cors_enable=True, middleware=<single component>) without any CORS headers')
    stores = [n for n in cfg.live_nodes() if n.kind == 'stmt' and isinstance(n.ast, ast.Assign)
              and any(is_self_attr(tg, '_cors_enable') for tg in n.ast.targets)]
    if not stores:
        raise AnchorError('App.__init__ does not store _cors_enable')
    for s in stores:
        run.check(isinstance(s.ast.value, ast.Name) and s.ast.value.id == 'cors_enable' and flow.dominated_by_nodes(cfg, an.id, [s.id]),
                  'the flag tested by add_middleware is the cors_enable argument, stored before the first add_middleware call', f, s.ast)
    _duplicate_refusal(run)


# ---------------------------------------------------------------------------
# R4: the duplicate-CORS refusal of App.add_middleware, read through locals and helpers
# ---------------------------------------------------------------------------

def _single_return_expr(h: Func):
    body = [s for s in h.node.body if not (isinstance(s, ast.Expr) and isinstance(s.value, ast.Constant)) and not isinstance(s, ast.Pass)]
    if len(body) == 1 and isinstance(body[0], ast.Return) and body[0].value is not None:
        return body[0].value
    return None


def _bind_call(h: Func, c: ast.Call, bound_self: bool):
    """parameter name -> argument expression of the call `c` of `h` (defaults filled in), or None when the binding is not plain"""
    a = h.node.args
    if a.vararg or a.kwarg or any(isinstance(x, ast.Starred) for x in c.args) or any(k.arg is None for k in c.keywords):
        return None
    allpos = [x.arg for x in a.posonlyargs + a.args]
    names = allpos[1:] if bound_self else allpos
    if bound_self and not allpos:
        return None
    kwonly = [x.arg for x in a.kwonlyargs]
    if len(c.args) > len(names):
        return None
    m = dict(zip(names, c.args))
    for k in c.keywords:
        if k.arg in m or k.arg not in names + kwonly:
            return None
        m[k.arg] = k.value
    if a.defaults:
        for n, d in zip(allpos[len(allpos) - len(a.defaults):], a.defaults):
            m.setdefault(n, d)
    for n, d in zip(kwonly, a.kw_defaults):
        if d is not None:
            m.setdefault(n, d)
    if any(n not in m for n in names + kwonly):
        return None
    return m


class _Expander:
    """Reads a branch condition of `fn` through (a) locals bound by exactly ONE plain assignment that dominates the reading node (replaced
    by the assigned expression), (b) parameters never rebound in `fn` for which the caller's argument is known (`argmap`), (c) calls of
    same-module helpers (a same-class method called on self, a module-level function) whose body is one ``return <expr>`` (replaced by
    that expression over the arguments).  The result is only ever used to ask WHAT a condition talks about and what its outcome implies
    for an atom; anything that is not expanded simply stays as it is."""

    def __init__(self, p, fn: Func, cfg, argmap=None):
        self.p, self.fn, self.cfg = p, fn, cfg
        self.argmap = dict(argmap or {})
        self.stores: Dict[str, int] = {}
        for x in ast.walk(fn.node):
            if isinstance(x, ast.Name) and not isinstance(x.ctx, ast.Load):
                self.stores[x.id] = self.stores.get(x.id, 0) + 1
            elif isinstance(x, ast.ExceptHandler) and x.name:
                self.stores[x.name] = self.stores.get(x.name, 0) + 2
        self.params = set(fn.params())
        self.defs: Dict[str, tuple] = {}
        if cfg is not None:
            for n in cfg.live_nodes():
                if n.kind != 'stmt' or n.copy:
                    continue
                a = n.ast
                if isinstance(a, ast.Assign) and len(a.targets) == 1 and isinstance(a.targets[0], ast.Name):
                    self.defs.setdefault(a.targets[0].id, []).append((n.id, a.value))
                elif isinstance(a, ast.AnnAssign) and isinstance(a.target, ast.Name) and a.value is not None:
                    self.defs.setdefault(a.target.id, []).append((n.id, a.value))

    def _local(self, name, at):
        if name in self.params or self.stores.get(name) != 1 or len(self.defs.get(name, ())) != 1:
            return None
        nid, value = self.defs[name][0]
        if nid == at or not flow.dominated_by_nodes(self.cfg, at, [nid]):
            return None
        return nid, value

    def _inline(self, call: ast.Call, depth):
        t = self.p.callee(self.fn, call)
        if not isinstance(t, Func) or t.is_async or t.module is not self.fn.module or t.node is self.fn.node:
            return None
        ret = _single_return_expr(t)
        if ret is None:
            return None
        bound_self = isinstance(call.func, ast.Attribute) and isinstance(call.func.value, ast.Name) and call.func.value.id == 'self' and t.cls is not None
        if isinstance(call.func, ast.Attribute) and not bound_self:
            return None
        if bound_self and (not t.params() or t.params()[0] != 'self'):
            return None
        m = _bind_call(t, call, bound_self)
        if m is None:
            return None
        inner = _Expander(self.p, t, None, m)
        return inner.expand(ret, None, depth + 1)

    def expand(self, e, at, depth=0):
        import copy
        if depth > 5:
            return e
        ex = self

        class T(ast.NodeTransformer):
            def visit_Name(s, n):
                if not isinstance(n.ctx, ast.Load):
                    return n
                if n.id in ex.argmap and n.id in ex.params and ex.stores.get(n.id, 0) == 0:
                    return copy.deepcopy(ex.argmap[n.id])
                if ex.cfg is not None and at is not None:
                    loc = ex._local(n.id, at)
                    if loc is not None:
                        return ex.expand(loc[1], loc[0], depth + 1)
                return n

            def visit_Call(s, n):
                # argument expressions are read in the caller's terms first; then the helper's own expression over them
                n2 = ast.Call(func=n.func, args=[s.visit(a) for a in n.args],
                              keywords=[ast.keyword(arg=k.arg, value=s.visit(k.value)) for k in n.keywords])
                r = ex._inline(n2, depth)
                if r is not None:
                    return r
                n2.func = s.visit(n.func) if not isinstance(n.func, ast.Name) else n.func
                return n2

        return ast.fix_missing_locations(T().visit(copy.deepcopy(e)))


def _duplicate_refusal(run):
    """add_middleware rejects a second CORSMiddleware instance under cors_enable before it extends the registered list.  The test may sit in
    add_middleware itself or in ONE same-module helper (same-class method / module-level function) that add_middleware calls; conditions are
    read through single-assignment locals and one-expression helpers (_Expander)."""
    p = run.project
    g = p.func('falcon.app.App.add_middleware')
    gcfg = cfg_of(g, p)
    run.use_cfg(gcfg)

    def mentions_cors_class(fn, e):
        for x in ast.walk(e):
            if isinstance(x, ast.Call) and isinstance(x.func, ast.Name) and x.func.id == 'isinstance' and len(x.args) == 2:
                if p.resolve_expr(fn.module, x.args[1], fn) == CORS_CLASS:
                    return True
        return False

    def is_flag_attr(e):
        return is_self_attr(e, '_cors_enable')

    writers = [n for n in gcfg.live_nodes() if n.kind == 'stmt' and (
        (isinstance(n.ast, ast.AugAssign) and is_self_attr(n.ast.target, '_unprepared_middleware'))
        or (isinstance(n.ast, ast.Assign) and any(is_self_attr(tg, '_unprepared_middleware') for tg in n.ast.targets))
        or any(isinstance(c.func, ast.Attribute) and c.func.attr in ('append', 'extend', 'insert') and is_self_attr(c.func.value, '_unprepared_middleware') for c in n.calls()))]
    if not writers:
        raise AnchorError('App.add_middleware: no writer of _unprepared_middleware')

    # where the test lives: add_middleware itself, or a helper it calls
    h, hcfg, argmap, via = g, gcfg, {}, None
    gx = _Expander(p, g, gcfg)
    if not any(n.kind == 'test' and mentions_cors_class(g, gx.expand(n.ast, n.id)) for n in gcfg.live_nodes()):
        cands = []
        for n in gcfg.live_nodes():
            for c in n.calls():
                t = p.callee(g, c)
                if isinstance(t, Func) and t.module is g.module and not t.is_async and t.node is not g.node \
                        and any(isinstance(x, ast.Raise) for x in walk_self(t.node)) and mentions_cors_class(t, t.node):
                    cands.append((n, c, t))
        if not cands:
            raise AnchorError('App.add_middleware: no test over self._cors_enable and isinstance(_, CORSMiddleware)')
        if len(cands) > 1:
            raise UnknownIdiom('App.add_middleware: several helpers test isinstance(_, CORSMiddleware)')
        via, c, h = cands[0]
        bound_self = isinstance(c.func, ast.Attribute) and isinstance(c.func.value, ast.Name) and c.func.value.id == 'self'
        if isinstance(c.func, ast.Attribute) and not (bound_self and h.params()[:1] == ['self']):
            raise UnknownIdiom('App.add_middleware: receiver of %s' % short(c))
        argmap = _bind_call(h, c, bound_self)
        if argmap is None:
            raise UnknownIdiom('App.add_middleware: arguments of %s' % short(c))
        argmap = {k: gx.expand(v, via.id) for k, v in argmap.items()}
        hcfg = cfg_of(h, p)
        run.use_cfg(hcfg)
        if any(is_self_attr(x, '_unprepared_middleware') and not isinstance(x.ctx, ast.Load) for x in ast.walk(h.node)):
            raise UnknownIdiom('%s rebinds the registered-middleware list' % h.qual)
    hx = _Expander(p, h, hcfg, argmap) if h is not g else gx
    X = {n.id: hx.expand(n.ast, n.id) for n in hcfg.live_nodes() if n.kind == 'test'}
    test_nodes = [n for n in hcfg.live_nodes() if n.kind == 'test']
    cors_tests = [n for n in test_nodes if mentions_cors_class(h, X[n.id])]
    tests = [n for n in cors_tests if any(is_flag_attr(x) for x in ast.walk(X[n.id]))]
    goals = ([w.id for w in writers] if h is g else []) + [hcfg.exit]

    def only_raises(tn):
        t_succ = [y for (y, l) in hcfg.succ[tn.id] if l == 'T']
        return bool(t_succ) and flow.find_path(hcfg, t_succ, goals, edge_filter=flow.no_exc) is None

    # the refusal is the counterpart of cors_enable (which already constructs one instance): it applies only under the flag.
    # Every test over isinstance(_, CORSMiddleware) whose true branch only raises must imply a truthy self._cors_enable on that
    # branch - by itself or through a test that dominates it (auto-mutation seed sa-am00072: the conjunct dropped).
    refusing = [n for n in cors_tests if only_raises(n)]
    tests = tests + [n for n in refusing if n not in tests]
    if not tests:
        raise AnchorError('App.add_middleware: no test over self._cors_enable and isinstance(_, CORSMiddleware)')
    flag_edges = [(n.id, y, l) for n in test_nodes for (y, l) in hcfg.succ[n.id]
                  if l in ('T', 'F') and implied(X[n.id], l == 'T', is_flag_attr) is True]
    # ... in the caller too, when the test sits in a helper: the helper call may itself be guarded by the flag
    g_flag_edges = [(n.id, y, l) for n in gcfg.live_nodes() if n.kind == 'test' for (y, l) in gcfg.succ[n.id]
                    if l in ('T', 'F') and implied(gx.expand(n.ast, n.id), l == 'T', is_flag_attr) is True]
    read_flag = {id(x) for fn_cfg in {id(hcfg): hcfg, id(gcfg): gcfg}.values() for n in fn_cfg.live_nodes() if n.kind == 'test'
                 for x in ast.walk(n.ast) if is_flag_attr(x)}
    for tn in refusing:
        ok = implied(X[tn.id], True, is_flag_attr) is True or any(flow.dominated_by_edge(hcfg, tn.id, e) for e in flag_edges if e[0] != tn.id) \
            or (via is not None and any(flow.dominated_by_edge(gcfg, via.id, e) for e in g_flag_edges))
        if not ok:
            elsewhere = [x for fn in {g.qual: g, h.qual: h}.values() for x in walk_self(fn.node) if is_flag_attr(x) and id(x) not in read_flag]
            if elsewhere:
                raise UnknownIdiom('App.add_middleware: self._cors_enable is used outside a branch condition; the guard %s cannot be related to it'
                                   % short(tn.ast, 80))
        run.check(ok, 'a second CORSMiddleware is refused only under cors_enable (the refusing branch implies a truthy self._cors_enable); '
                      'explicitly configured policies are not refused when the flag is off', h, tn.ast,
                  runtime_witness='App(middleware=[CORSMiddleware(allow_origins="a"), CORSMiddleware(allow_origins="b")]) raises ValueError '
                                  'although cors_enable is False: the configured policies are never served')
    for tn in tests:
        t_succ = [y for (y, l) in hcfg.succ[tn.id] if l == 'T']
        # the true branch cannot reach a writer or the normal exit
        esc = flow.find_path(hcfg, t_succ, goals, edge_filter=flow.no_exc)
        run.check(esc is None and bool(t_succ), 'a second CORSMiddleware under cors_enable is rejected (the test\'s true branch only raises)', h, tn.ast,
                  witness=flow.describe_path(hcfg, esc) if esc else None)
    # the counted population is the already-registered components AND the
    # incoming ones: the instance made by cors_enable sits in the registered
    # list, so counting the new batch alone accepts a second instance that
    # arrives in a later add_middleware() call
    mw_param = g.params()[1] if len(g.params()) > 1 else None
    for tn in tests:
        names = {x.id for x in ast.walk(X[tn.id]) if isinstance(x, ast.Name)}
        sees_registered = any(is_self_attr(x, '_unprepared_middleware') for x in ast.walk(X[tn.id]))
        sees_new = mw_param in names
        if not sees_new:
            # a local derived from the parameter (middleware = list(middleware))
            sees_new = any(isinstance(a, ast.Assign) and any(isinstance(t, ast.Name) and t.id in names for t in a.targets)
                           and any(isinstance(x, ast.Name) and x.id == mw_param for x in ast.walk(a.value)) for a in ast.walk(g.node))
        run.check(sees_registered and sees_new,
                  'the duplicate-CORS test counts the registered components together with the incoming ones', h, tn.ast,
                  runtime_witness='App(cors_enable=True); app.add_middleware(CORSMiddleware(allow_credentials="*")) is accepted: two policies stacked')
    # ... or the flag is known to be off (a guard nested under / chained behind a test of the flag is skipped legitimately)
    g_flag_off = [(n.id, y, l) for n in gcfg.live_nodes() if n.kind == 'test' for (y, l) in gcfg.succ[n.id]
                  if l in ('T', 'F') and implied(gx.expand(n.ast, n.id), l == 'T', is_flag_attr) is False]
    for w in writers:
        if via is None:
            ok = any(w.id not in flow.reachable(gcfg, [gcfg.entry], avoid_edges=[(tn.id, y, l) for (y, l) in gcfg.succ[tn.id] if l == 'F'] + g_flag_off)
                     for tn in tests)
        else:
            # the helper returns normally only when its test passed (checked above: the true branch only raises): the writer must lie
            # behind the helper call's normal return
            ok = w.id not in flow.reachable(gcfg, [gcfg.entry], avoid_edges=[(via.id, y, l) for (y, l) in gcfg.succ[via.id] if l != 'exc'] + g_flag_off)
        run.check(ok, 'the registered-middleware list is extended only after the duplicate-CORS test passed', g, w.ast)


def _allow_setting_nodes(p, fn: Func, cfg, resp: str, depth=0) -> List[int]:
    """CFG nodes of fn that certainly set the Allow header of the response object named `resp`: a direct ``resp.set_header('Allow', ..)`` /
    ``append_header``, or a call of a resolved plain function that is handed `resp` and sets Allow on EVERY normal path through its own body
    (``_set_options_response(resp, allowed)``; looked through three levels)."""
    out = []
    for n in cfg.live_nodes():
        hit = False
        for c in n.calls():
            if dotted(c.func) in (resp + '.set_header', resp + '.append_header'):
                a = c.args[0] if c.args else next((k.value for k in c.keywords if k.arg == 'name'), None)
                v = p.fold(fn.module, a, fn.cls, fn) if a is not None else None
                if isinstance(v, str) and v.lower() == 'allow':
                    hit = True
            elif depth < 3 and any(isinstance(a, ast.Name) and a.id == resp for a in list(c.args) + [k.value for k in c.keywords]):
                h = p.callee(fn, c)
                if isinstance(h, Func) and not h.is_async and h.node is not fn.node:
                    bound_self = isinstance(c.func, ast.Attribute) and h.cls is not None
                    m = _bind_call(h, c, bound_self)
                    if m is None:
                        continue
                    qs = [k for k, v in m.items() if isinstance(v, ast.Name) and v.id == resp]
                    if len(qs) != 1 or any(isinstance(x, ast.Name) and x.id == qs[0] and not isinstance(x.ctx, ast.Load) for x in ast.walk(h.node)):
                        continue
                    hcfg = cfg_of(h, p)
                    inner = _allow_setting_nodes(p, h, hcfg, qs[0], depth + 1)
                    if inner and flow.find_path(hcfg, [hcfg.entry], [hcfg.exit], avoid_nodes=inner, edge_filter=flow.no_exc) is None:
                        hit = True
        if hit:
            out.append(n.id)
    return out


def _allow_sources(run):
    p = run.project
    # static route: OPTIONS branch sets Allow and returns before any file is opened
    f = p.func('falcon.routing.static.StaticRoute.__call__')
    cfg = cfg_of(f, p)
    run.use_cfg(cfg)
    params = f.params()
    if len(params) < 3:
        raise AnchorError('StaticRoute.__call__ signature')
    req, resp = params[1], params[2]

    def is_method(x):
        if dotted(x) == req + '.method':
            return True
        if isinstance(x, ast.Name) and x.id not in params:
            defs = [n for n in walk_self(f.node) if isinstance(n, ast.Name) and n.id == x.id and not isinstance(n.ctx, ast.Load)]
            binds = [n for n in walk_self(f.node) if isinstance(n, ast.Assign) and len(n.targets) == 1 and isinstance(n.targets[0], ast.Name)
                     and n.targets[0].id == x.id and dotted(n.value) == req + '.method']
            return len(defs) == 1 and len(binds) == 1     # a local bound once, to req.method
        return False

    def options_truth(e):
        """True: e says "the method is OPTIONS" (``m == 'OPTIONS'``, ``m in ('OPTIONS',)``); False: e says it is not (``!=``, ``not in``);
        None: e is something else.  The constant may be spelled through a module-level name."""
        if isinstance(e, ast.Compare) and len(e.ops) == 1:
            a, b, op = e.left, e.comparators[0], e.ops[0]
            if isinstance(op, (ast.Eq, ast.NotEq)):
                for x, y in ((a, b), (b, a)):
                    if is_method(x) and p.fold(f.module, y, f.cls, f) == 'OPTIONS':
                        return isinstance(op, ast.Eq)
            if isinstance(op, (ast.In, ast.NotIn)) and is_method(a):
                v = p.fold(f.module, b, f.cls, f)
                if isinstance(v, (tuple, list, set, frozenset)) and len(v) == 1 and list(v)[0] == 'OPTIONS':
                    return isinstance(op, ast.In)
        return None

    edges = [(n.id, y, l) for n in cfg.live_nodes() if n.kind == 'test' for (y, l) in cfg.succ[n.id]
             if l in ('T', 'F') and (implied(n.ast, l == 'T', lambda e: options_truth(e) is True) is True
                                     or implied(n.ast, l == 'T', lambda e: options_truth(e) is False) is False)]
    if not edges:
        raise AnchorError('StaticRoute.__call__: no branch on req.method == "OPTIONS"')

    allow_nodes = _allow_setting_nodes(p, f, cfg, resp)
    for e in edges:
        path = flow.find_path(cfg, [e[1]], [cfg.exit], avoid_nodes=allow_nodes, edge_filter=flow.no_exc)
        run.check(path is None, 'a static route answers OPTIONS with an Allow header (so that a CORS preflight can be approved)', f,
                  cfg.node(e[0]).ast, witness=flow.describe_path(cfg, path) if path else None,
                  runtime_witness='CORS preflight for a static file is denied: no Allow header on the OPTIONS response')
    # default OPTIONS responders
    fac = p.func('falcon.responders.create_default_options')
    closures = list(fac.nested.values())
    if len(closures) < 2:
        raise AnchorError('create_default_options: expected a sync and an async responder')
    for g in closures:
        gp = g.params()
        if len(gp) < 2:
            raise UnknownIdiom('%s signature' % g.qual)
        gcfg = cfg_of(g, p)
        run.use_cfg(gcfg)
        nodes = _allow_setting_nodes(p, g, gcfg, gp[1])
        path = flow.find_path(gcfg, [gcfg.entry], [gcfg.exit], avoid_nodes=nodes, edge_filter=flow.no_exc)
        run.check(path is None, 'the automatic OPTIONS responder sets the Allow header on every path', g, g.node.name,
                  where=g.loc(), witness=flow.describe_path(gcfg, path) if path else None)


def r4_approve(run):
    _approve(run)
    _wiring(run)
    _allow_sources(run)


def check(run):
    run.assume('Request.get_header / Response.get_header / set_header / delete_header do not raise and have no effect beyond the named header')
    run.assume('a response header the function has not written or deleted may have been set by the responder (state "pre")')
    run.assume('atoms over distinct symbolic values are independent (every combination of branch outcomes is considered feasible)')
    run.rule('R1', r1_gates, 'every Access-Control-* store is gated by Origin present and origin allowed', floor=13)
    run.rule('R2', r2_credentials, 'credentials only for configured origins, origin echoed, no "*" inside configured sets', floor=5)
    run.rule('R3', r3_withdraw, 'preflight without Allow withdraws every grant; Allow removed on both preflight branches', floor=7)
    run.rule('R4', r4_approve, 'approve branch conditions, cors_enable wiring, Allow sources', floor=17)
    # the preflight is approved only under req_succeeded: the flag the apps
    # hand to process_response must be true only after an exchange in which
    # nothing was raised (shared with C03 R2)
    from . import c03 as _c03

    run.rule('R5', _c03.r2_discipline, 'the success flag handed to process_response is true only when no exception left the request cycle (shared with C03 R2)', floor=16)
    # Allow sources: on the approve branch Access-Control-Allow-Methods is a COPY of the response's Allow header, so the preflight
    # approves exactly what the Allow computation says.  That value must be the resource's own method list: the automatic OPTIONS
    # responder (sync and async alike) SETS Allow to the snapshot of the implemented methods - an append would merge in a
    # provisional Allow written earlier in the cycle (another middleware's process_resource) and the preflight would approve
    # methods the resource answers with 405 (seed s9-c20-1).  The rule is C02's Allow computation, shared.
    from . import c02 as _c02

    run.rule('R6', _c02.r4_allow, 'Allow sources: the Allow value the preflight copies into Access-Control-Allow-Methods is exactly the resource\'s own '
                                  'method list - computed from the method map, SET (not appended) by the automatic OPTIONS responder, sync and async '
                                  'alike (shared with C02 R4)', floor=24)
