"""Path-sensitive symbolic execution of small loop-free policy functions
(used by C20 for ``CORSMiddleware.process_response`` / ``__init__``).

The function body is executed once per feasible combination of branch
outcomes.  Branch conditions are boolean combinations of *atoms* over symbolic
values (``none(v)``, ``truthy(v)``, ``eq(a,b)``, ``in(a,b)``,
``isinstance(v,T)``); an atom that is needed and not yet decided on the
current path forks the execution.  Response headers are modelled as a store
``name -> ('pre',) | ('set', value) | ('del',)`` where ``pre`` means "whatever
the responder left there" -- reading such a header yields the symbolic value
``prehdr(name)`` whose ``None``-ness is a free atom.

The result is the function's *decision table*: one leaf per path with the
decisions taken, the final header store, the header events in order and the
values stored on ``self``.  Rules are queries over that table, so any guard
structure that realises the same table is accepted.

Anything outside the enumerated statement/expression forms raises
UnknownIdiom (exit 2), never a violation.
"""

from __future__ import annotations

import ast
from typing import Dict, List, Optional, Tuple

from ..model import AnchorError, Class, Func, Project, UNKNOWN, UnknownIdiom, dotted, func_owner_class, local_names, short

PURE_BUILTINS = {'frozenset', 'list', 'tuple', 'set', 'str', 'len', 'sorted', 'bool'}
PURE_METHODS = {'join', 'lower', 'upper', 'strip', 'split', 'casefold', 'title'}
HEADER_SET = {'set_header', 'append_header'}
LOG_METHODS = {'debug', 'info', 'warning', 'warn', 'error', 'critical', 'exception', 'log'}
MAX_PATHS = 4096
MAX_DEPTH = 3
SMALL_COLLECTION = 3
_ORDERING = {ast.Lt: '<', ast.LtE: '<=', ast.Gt: '>', ast.GtE: '>='}


def vkey(v) -> str:
    k = v[0]
    if k == 'const':
        return repr(v[1])
    if k == 'sym':
        return v[1]
    if k == 'reqhdr':
        return 'reqhdr(%s)' % v[1] if v[2] is None else 'reqhdr(%s,default=%s)' % (v[1], vkey(v[2]))
    if k == 'prehdr':
        return 'prehdr(%s)' % v[1]
    if k == 'list':
        return '[%s]' % ','.join(vkey(x) for x in v[1])
    if k == 'call':
        return '%s(%s)' % (v[1], ','.join(vkey(x) for x in v[2]))
    return repr(v)


def const(x):
    return ('const', x)


NONE = const(None)


class _Return(Exception):
    def __init__(self, value):
        self.value = value


class _Raise(Exception):
    def __init__(self, what, node):
        self.what = what
        self.node = node


class Leaf:
    """One path of the decision table."""

    def __init__(self):
        self.decisions: Dict[str, bool] = {}  # atom -> truth (decided or inferred)
        self.order: List[Tuple[str, bool]] = []
        self.store: Dict[str, tuple] = {}  # header (lower) -> state
        self.events: List[tuple] = []  # (kind, header, value, ast node, func)
        self.selfattrs: Dict[str, tuple] = {}
        self.outcome = 'return'
        self.raised = None
        self.trace: List[str] = []

    def value_of(self, atom) -> Optional[bool]:
        return self.decisions.get(atom)

    def describe(self) -> List[str]:
        return ['%s = %s' % (a, t) for (a, t) in self.order]

    def header_state(self, name) -> tuple:
        return self.store.get(name, ('pre',))


class Executor:
    """Symbolic executor for one entry function."""

    def __init__(self, project: Project, func: Func, req_param: Optional[int] = None, resp_param: Optional[int] = None):
        self.p = project
        self.func = func
        params = func.params()
        self.self_name = params[0] if params else None
        self.req = params[req_param] if req_param is not None and req_param < len(params) else None
        self.resp = params[resp_param] if resp_param is not None and resp_param < len(params) else None
        if (req_param is not None and self.req is None) or (resp_param is not None and self.resp is None):
            raise AnchorError('%s: expected (self, req, resp, ...) parameters' % func.qual)
        self.header_names: Dict[str, str] = {}  # lower -> spelling at first mention

    # ------------------------------------------------------------ driver
    def run(self) -> List[Leaf]:
        leaves: List[Leaf] = []
        work: List[List[bool]] = [[]]
        while work:
            prefix = work.pop()
            if len(leaves) > MAX_PATHS:
                raise UnknownIdiom('%s: more than %d paths' % (self.func.qual, MAX_PATHS))
            self._prefix = prefix
            self._pos = 0
            self._work = work
            self._taken: List[bool] = []
            leaf = Leaf()
            self.leaf = leaf
            env = {}
            for name in self.func.params():
                env[name] = ('sym', 'param:' + name)
            a = self.func.node.args
            # defaults are not applied: parameters are free symbols
            try:
                self._block(self.func.node.body, env, self.func, 0)
            except _Return:
                pass
            except _Raise as r:
                leaf.outcome = 'raise'
                leaf.raised = r.what
            leaves.append(leaf)
        return leaves

    # ----------------------------------------------------------- deciding
    def decide(self, atom: str) -> bool:
        leaf = self.leaf
        if atom in leaf.decisions:
            return leaf.decisions[atom]
        # axioms between none() and truthy() of the same value
        if atom.startswith('truthy(') and leaf.decisions.get('none(' + atom[7:]) is True:
            val = False
            leaf.decisions[atom] = val
            return val
        if atom.startswith('none(') and leaf.decisions.get('truthy(' + atom[5:]) is True:
            val = False
            leaf.decisions[atom] = val
            return val
        if self._pos < len(self._prefix):
            val = self._prefix[self._pos]
        else:
            val = True
            self._work.append(self._taken + [False])
        self._pos += 1
        self._taken.append(val)
        leaf.decisions[atom] = val
        leaf.order.append((atom, val))
        return val

    def is_none(self, v) -> bool:
        k = v[0]
        if k == 'const':
            return v[1] is None
        if k in ('list', 'call'):
            return False
        if k == 'reqhdr' and v[2] is not None and not self.is_none_static(v[2]):
            return False
        return self.decide('none(%s)' % vkey(v))

    @staticmethod
    def is_none_static(v):
        return v[0] == 'const' and v[1] is None

    def truthy(self, v) -> bool:
        k = v[0]
        if k == 'const':
            return bool(v[1])
        if k == 'list':
            return bool(v[1])
        if k == 'call' and v[1] in ('frozenset', 'list', 'tuple', 'set') and not v[2]:
            return False
        if k == 'call' and v[1] == 'bool' and len(v[2]) == 1:
            return self.truthy(v[2][0])     # bool(x) is true exactly when x is
        return self.decide('truthy(%s)' % vkey(v))

    def equal(self, a, b) -> bool:
        if a == b:
            return True
        if a[0] == 'const' and b[0] == 'const':
            return a[1] == b[1]
        ka, kb = sorted((vkey(a), vkey(b)))
        r = self.decide('eq(%s,%s)' % (ka, kb))
        return r

    def contains(self, item, container) -> bool:
        if container[0] == 'const' and item[0] == 'const':
            try:
                return item[1] in container[1]
            except TypeError:
                raise UnknownIdiom('membership test on constant %r' % (container[1],))
        if container[0] == 'list':
            if any(x == item for x in container[1]):
                return True
            if not container[1]:
                return False
        if container[0] == 'call' and container[1] in ('frozenset', 'list', 'tuple', 'set') and not container[2]:
            return False
        # membership in a SMALL literal collection of constants is the disjunction of the equalities: ``m in ('OPTIONS',)`` is
        # ``m == 'OPTIONS'``, ``h not in (None, '')`` is ``h is not None and h != ''`` (same atoms as the spelled-out form)
        elts = None
        if container[0] == 'list':
            elts = list(container[1])
        elif container[0] == 'const' and isinstance(container[1], (tuple, list, frozenset, set)):
            elts = [const(x) for x in sorted(container[1], key=repr)]
        if elts is not None and len(elts) <= SMALL_COLLECTION and item[0] != 'const' \
                and all(e[0] == 'const' and isinstance(e[1], (str, int, bool, type(None))) for e in elts):
            for e in elts:
                if self.is_none(item) if e[1] is None else self.equal(item, e):
                    return True
            return False
        return self.decide('in(%s,%s)' % (vkey(item), vkey(container)))

    # --------------------------------------------------------- statements
    def _block(self, stmts, env, func: Func, depth: int):
        for s in stmts:
            self._stmt(s, env, func, depth)

    def _stmt(self, s, env, func: Func, depth: int):
        if isinstance(s, ast.Expr):
            if isinstance(s.value, ast.Constant):
                return  # docstring
            self.eval(s.value, env, func, depth)
            return
        if isinstance(s, ast.Pass):
            return
        if isinstance(s, (ast.Assign, ast.AnnAssign)):
            if isinstance(s, ast.AnnAssign):
                if s.value is None:
                    return
                targets = [s.target]
            else:
                targets = s.targets
            v = self.eval(s.value, env, func, depth)
            for t in targets:
                self._assign(t, v, env, func, s)
            return
        if isinstance(s, ast.If):
            if self.truthy_expr(s.test, env, func, depth):
                self._block(s.body, env, func, depth)
            else:
                self._block(s.orelse, env, func, depth)
            return
        if isinstance(s, ast.Return):
            raise _Return(self.eval(s.value, env, func, depth) if s.value is not None else NONE)
        if isinstance(s, ast.Raise):
            what = None
            if s.exc is not None:
                e = s.exc.func if isinstance(s.exc, ast.Call) else s.exc
                what = self.p.resolve_expr(func.module, e, func) or short(e)
            raise _Raise(what, s)
        if isinstance(s, ast.Delete) and all(isinstance(t, ast.Name) for t in s.targets):
            for t in s.targets:     # `del local`: the name is gone, nothing else happens
                if t.id not in env:
                    raise UnknownIdiom('%s: del of the unbound name %s' % (func.qual, t.id))
                del env[t.id]
            return
        if isinstance(s, ast.Assert):
            # normal (non -O) semantics: a false assertion leaves the function by raising
            if not self.truthy_expr(s.test, env, func, depth):
                raise _Raise('builtins.AssertionError', s)
            return
        if isinstance(s, ast.For) and isinstance(s.target, ast.Tuple) and all(isinstance(t, ast.Name) for t in s.target.elts) and not s.orelse \
                and isinstance(s.iter, (ast.Tuple, ast.List)) \
                and all(isinstance(e, (ast.Tuple, ast.List)) and len(e.elts) == len(s.target.elts) and not any(isinstance(x, ast.Starred) for x in e.elts)
                        for e in s.iter.elts) \
                and not any(isinstance(x, (ast.Break, ast.Continue)) for b in s.body for x in ast.walk(b)):
            # a loop over a literal sequence of literal tuples (``for name, value in (('A', a), ('B', b)):``) is unrolled; every row is
            # evaluated first, as the display is
            rows = [[self.eval(x, env, func, depth) for x in e.elts] for e in s.iter.elts]
            for row in rows:
                for t, v in zip(s.target.elts, row):
                    env[t.id] = v
                self._block(s.body, env, func, depth)
            return
        if isinstance(s, ast.For) and isinstance(s.target, ast.Name) and not s.orelse \
                and not any(isinstance(x, (ast.Break, ast.Continue)) for b in s.body for x in ast.walk(b)):
            # a loop over a constant tuple/list of strings (e.g. header names to delete) is unrolled
            elts = None
            if isinstance(s.iter, (ast.Tuple, ast.List)) and all(isinstance(e, ast.Constant) for e in s.iter.elts):
                elts = list(s.iter.elts)
            else:
                folded = self.p.fold(func.module, s.iter, func.cls, func)
                if isinstance(folded, (tuple, list)) and all(isinstance(x, (str, int)) for x in folded):
                    elts = [ast.copy_location(ast.Constant(value=x), s.iter) for x in folded]
            if elts is not None:
                for e in elts:
                    env[s.target.id] = self.eval(e, env, func, depth)
                    self._block(s.body, env, func, depth)
                return
        raise UnknownIdiom('%s: statement form %s not supported by the policy interpreter (%s)' % (
            func.qual, type(s).__name__, func.loc(s)))

    def _assign(self, t, v, env, func, stmt):
        if isinstance(t, ast.Name):
            env[t.id] = v
            return
        if isinstance(t, ast.Attribute) and isinstance(t.value, ast.Name):
            base = t.value.id
            if base == self.self_name and env.get(base) == ('sym', 'param:' + base):
                self.leaf.selfattrs[t.attr] = v
                self.leaf.events.append(('selfattr', t.attr, v, stmt, func))
                return
            if base == self.resp and self.resp is not None:
                self.leaf.events.append(('respattr', t.attr, v, stmt, func))
                return
        raise UnknownIdiom('%s: assignment target %s' % (func.qual, short(t)))

    # -------------------------------------------------------- expressions
    def truthy_expr(self, e, env, func, depth) -> bool:
        if isinstance(e, ast.BoolOp):
            if isinstance(e.op, ast.And):
                for x in e.values:
                    if not self.truthy_expr(x, env, func, depth):
                        return False
                return True
            for x in e.values:
                if self.truthy_expr(x, env, func, depth):
                    return True
            return False
        if isinstance(e, ast.UnaryOp) and isinstance(e.op, ast.Not):
            return not self.truthy_expr(e.operand, env, func, depth)
        if isinstance(e, ast.Compare):
            return self._compare(e, env, func, depth)
        return self.truthy(self.eval(e, env, func, depth))

    def _compare(self, e: ast.Compare, env, func, depth) -> bool:
        if all(type(o) in _ORDERING for o in e.ops):
            return self._ordering(e, env, func, depth)
        if len(e.ops) != 1:
            raise UnknownIdiom('%s: chained comparison %s' % (func.qual, short(e)))
        op = e.ops[0]
        a = self.eval(e.left, env, func, depth)
        b = self.eval(e.comparators[0], env, func, depth)
        if isinstance(op, (ast.Is, ast.IsNot)):
            if self.is_none_static(b):
                r = self.is_none(a)
            elif self.is_none_static(a):
                r = self.is_none(b)
            else:
                raise UnknownIdiom('%s: identity test %s' % (func.qual, short(e)))
            return r if isinstance(op, ast.Is) else not r
        if isinstance(op, (ast.Eq, ast.NotEq)):
            if self.is_none_static(b):
                r = self.is_none(a)
            elif self.is_none_static(a):
                r = self.is_none(b)
            else:
                r = self.equal(a, b)
            return r if isinstance(op, ast.Eq) else not r
        if isinstance(op, (ast.In, ast.NotIn)):
            r = self.contains(a, b)
            return r if isinstance(op, ast.In) else not r
        raise UnknownIdiom('%s: comparison operator in %s' % (func.qual, short(e)))

    def _ordering(self, e: ast.Compare, env, func, depth) -> bool:
        """``a < b``, ``lo <= x <= hi`` (any chain of <, <=, >, >=): evaluated when every operand is a constant; otherwise ONE atom
        ``cmp(a,'<=',x,'<=',b)`` whose value is not known - both outcomes are explored.  Whether such an atom is inside a rule's
        vocabulary is the rule's decision (C20: only when every symbolic operand is an attribute of the response object)."""
        vals = [self.eval(x, env, func, depth) for x in [e.left] + list(e.comparators)]
        syms = [_ORDERING[type(o)] for o in e.ops]
        if all(v[0] == 'const' for v in vals):
            try:
                for i, sname in enumerate(syms):
                    a, b = vals[i][1], vals[i + 1][1]
                    r = a < b if sname == '<' else a <= b if sname == '<=' else a > b if sname == '>' else a >= b
                    if not r:
                        return False
                return True
            except TypeError:
                raise UnknownIdiom('%s: ordering comparison %s of constants of different types' % (func.qual, short(e)))
        parts = [vkey(vals[0])]
        for sname, v in zip(syms, vals[1:]):
            parts += [repr(sname), vkey(v)]
        return self.decide('cmp(%s)' % ','.join(parts))

    def _fold_str(self, e, func) -> Optional[str]:
        v = self.p.fold(func.module, e, func_owner_class(func), func)
        return v if isinstance(v, str) else None

    def eval(self, e, env, func: Func, depth: int):
        if isinstance(e, ast.Constant):
            return const(e.value)
        if isinstance(e, ast.Name):
            if e.id in env:
                return env[e.id]
            v = self.p.fold(func.module, e, func_owner_class(func), func)
            if v is not UNKNOWN and isinstance(v, (str, int, bool, type(None), tuple, frozenset)):
                return const(v)
            q = self.p.resolve_expr(func.module, e, func)
            if q:
                return ('sym', q)
            raise UnknownIdiom('%s: name %s is read before it is bound on some path' % (func.qual, e.id))
        if isinstance(e, ast.Attribute):
            if isinstance(e.value, ast.Name):
                base = e.value.id
                if base == self.self_name and env.get(base) == ('sym', 'param:' + base):
                    if e.attr in self.leaf.selfattrs:
                        return self.leaf.selfattrs[e.attr]
                    return ('sym', 'self.' + e.attr)
                if base == self.req and self.req is not None and env.get(base) == ('sym', 'param:' + base):
                    return ('sym', 'req.' + e.attr)
                if base == self.resp and self.resp is not None and env.get(base) == ('sym', 'param:' + base):
                    return ('sym', 'resp.' + e.attr)
            v = self.p.fold(func.module, e, func_owner_class(func), func)
            if v is not UNKNOWN and isinstance(v, (str, int, bool, type(None), tuple, frozenset)):
                return const(v)
            raise UnknownIdiom('%s: attribute read %s' % (func.qual, short(e)))
        if isinstance(e, (ast.BoolOp,)):
            # value of `a or b` / `a and b`
            last = None
            for x in e.values:
                last = self.eval(x, env, func, depth)
                t = self.truthy(last)
                if isinstance(e.op, ast.Or) and t:
                    return last
                if isinstance(e.op, ast.And) and not t:
                    return last
            return last
        if isinstance(e, ast.UnaryOp) and isinstance(e.op, ast.Not):
            return const(not self.truthy_expr(e.operand, env, func, depth))
        if isinstance(e, ast.Compare):
            return const(self._compare(e, env, func, depth))
        if isinstance(e, ast.IfExp):
            if self.truthy_expr(e.test, env, func, depth):
                return self.eval(e.body, env, func, depth)
            return self.eval(e.orelse, env, func, depth)
        if isinstance(e, (ast.List, ast.Tuple, ast.Set)):
            if any(isinstance(x, ast.Starred) for x in e.elts):
                raise UnknownIdiom('%s: starred element in %s' % (func.qual, short(e)))
            return ('list', tuple(self.eval(x, env, func, depth) for x in e.elts))
        if isinstance(e, ast.JoinedStr):
            return ('call', 'fstring', tuple(self.eval(x.value, env, func, depth) for x in e.values if isinstance(x, ast.FormattedValue)))
        if isinstance(e, ast.Call):
            return self._call(e, env, func, depth)
        if isinstance(e, ast.NamedExpr) and isinstance(e.target, ast.Name):
            v = self.eval(e.value, env, func, depth)
            env[e.target.id] = v
            return v
        raise UnknownIdiom('%s: expression form %s (%s)' % (func.qual, type(e).__name__, short(e, 60)))

    # -------------------------------------------------------------- calls
    def _header_name(self, c: ast.Call, func, env=None) -> str:
        arg = c.args[0] if c.args else None
        if arg is None:
            for k in c.keywords:
                if k.arg in ('name', 'header'):
                    arg = k.value
        name = self._fold_str(arg, func) if arg is not None else None
        if name is None and env is not None and isinstance(arg, ast.Name) and arg.id in env:
            v = env[arg.id]
            if isinstance(v, tuple) and len(v) == 2 and v[0] == 'const' and isinstance(v[1], str):
                name = v[1]     # e.g. the variable of an unrolled loop over header names
        if name is None:
            raise UnknownIdiom('%s: header name of %s is not a constant' % (func.qual, short(c)))
        self.header_names.setdefault(name.lower(), name)
        return name.lower()

    def _method_args(self, c: ast.Call, func, names):
        """positional-or-keyword arguments of a request/response accessor call, by the parameter names of its public signature"""
        if any(isinstance(a, ast.Starred) for a in c.args) or any(k.arg is None for k in c.keywords) or len(c.args) > len(names):
            raise UnknownIdiom('%s: arguments of %s' % (func.qual, short(c)))
        out = dict(zip(names, c.args))
        for k in c.keywords:
            if k.arg not in names or k.arg in out:
                raise UnknownIdiom('%s: keyword %s in %s' % (func.qual, k.arg, short(c)))
            out[k.arg] = k.value
        return out

    def _call(self, c: ast.Call, env, func: Func, depth: int):
        f = c.func
        base = attr = None
        is_param = False
        if isinstance(f, ast.Attribute) and isinstance(f.value, ast.Name):
            base, attr = f.value.id, f.attr
            is_param = env.get(base) == ('sym', 'param:' + base)
        elif isinstance(f, ast.Name) and isinstance(env.get(f.id), tuple) and env[f.id][0] == 'sym' and env[f.id][1].startswith(('req.', 'resp.')):
            # a local bound to a bound method of the request / response object: ``set_header = resp.set_header``
            kind, attr = env[f.id][1].split('.', 1)
            base = self.req if kind == 'req' else self.resp
            is_param = base is not None
        if base is not None and attr is not None:
            if base == self.req and self.req is not None and is_param:
                if attr == 'get_header':
                    a = self._method_args(c, func, ['name', 'required', 'default'])
                    if 'name' not in a:
                        raise UnknownIdiom('%s: %s' % (func.qual, short(c)))
                    name = self._header_name(ast.Call(func=c.func, args=[a['name']], keywords=[]), func, env)
                    default = None
                    if 'required' in a:
                        raise UnknownIdiom('%s: `required` argument in %s' % (func.qual, short(c)))
                    if 'default' in a:
                        default = self.eval(a['default'], env, func, depth)
                    if default is not None and self.is_none_static(default):
                        default = None
                    return ('reqhdr', name, default)
                raise UnknownIdiom('%s: request method call %s' % (func.qual, short(c)))
            if base == self.resp and self.resp is not None and is_param:
                if attr == 'get_header':
                    a = self._method_args(c, func, ['name', 'default'])
                    if 'name' not in a or 'default' in a:
                        raise UnknownIdiom('%s: default in %s' % (func.qual, short(c)))
                    name = self._header_name(ast.Call(func=c.func, args=[a['name']], keywords=[]), func, env)
                    st = self.leaf.header_state(name)
                    if st[0] == 'pre':
                        return ('prehdr', name)
                    if st[0] == 'set':
                        return st[1]
                    return NONE
                if attr in HEADER_SET:
                    a = self._method_args(c, func, ['name', 'value'])
                    if len(a) != 2:
                        raise UnknownIdiom('%s: %s' % (func.qual, short(c)))
                    name = self._header_name(ast.Call(func=c.func, args=[a['name']], keywords=[]), func, env)
                    v = self.eval(a['value'], env, func, depth)
                    self.leaf.store[name] = ('set', v)
                    self.leaf.events.append(('set', name, v, c, func))
                    return NONE
                if attr == 'delete_header':
                    a = self._method_args(c, func, ['name'])
                    if 'name' not in a:
                        raise UnknownIdiom('%s: %s' % (func.qual, short(c)))
                    name = self._header_name(ast.Call(func=c.func, args=[a['name']], keywords=[]), func, env)
                    self.leaf.store[name] = ('del',)
                    self.leaf.events.append(('del', name, None, c, func))
                    return NONE
                raise UnknownIdiom('%s: response method call %s' % (func.qual, short(c)))
            if base == self.self_name and is_param and isinstance(f, ast.Attribute):
                target = self.p.resolve_callable(func, f)
                if isinstance(target, Func):
                    if any(d == 'classmethod' or d.endswith('.classmethod') for d in target.decorators):
                        raise UnknownIdiom('%s: class method %s' % (func.qual, short(c)))
                    static = any(d == 'staticmethod' or d.endswith('.staticmethod') for d in target.decorators)
                    return self._inline(target, c, env, func, depth, bound_self=not static)
                raise UnknownIdiom('%s: call %s cannot be resolved' % (func.qual, short(c)))
        # a value escaping into an un-analysed callee
        for a in list(c.args) + [k.value for k in c.keywords]:
            for n in ast.walk(a):
                if isinstance(n, ast.Name) and n.id == self.resp and self.resp is not None:
                    target = self.p.resolve_callable(func, f)
                    if isinstance(target, Func) and not isinstance(f, ast.Attribute):
                        return self._inline(target, c, env, func, depth, bound_self=False)
                    raise UnknownIdiom('%s: the response object escapes into %s' % (func.qual, short(c)))
        if isinstance(f, ast.Name) and f.id == 'isinstance' and len(c.args) == 2:
            v = self.eval(c.args[0], env, func, depth)
            tname = short(c.args[1])
            if v[0] == 'const' and tname == 'str':
                return const(isinstance(v[1], str))
            if v[0] in ('list', 'call'):
                if tname == 'str':
                    return const(False)
            return const(self.decide('isinstance(%s,%s)' % (vkey(v), tname)))
        if isinstance(f, ast.Name) and f.id in PURE_BUILTINS and f.id not in env:
            if c.keywords:
                raise UnknownIdiom('%s: %s' % (func.qual, short(c)))
            return ('call', f.id, tuple(self.eval(a, env, func, depth) for a in c.args))
        if isinstance(f, ast.Attribute) and f.attr in PURE_METHODS and not c.keywords:
            recv = self.eval(f.value, env, func, depth)
            return ('call', f.attr, (recv,) + tuple(self.eval(a, env, func, depth) for a in c.args))
        if self._is_log_call(c, env, func):
            return NONE
        if isinstance(f, (ast.Name, ast.Attribute)) and len(c.args) == 2 and not c.keywords and not (isinstance(f, ast.Name) and f.id in env) \
                and self.p.resolve_expr(func.module, f, func) == 'typing.cast':
            return self.eval(c.args[1], env, func, depth)     # cast(T, x) is x
        target = self.p.resolve_callable(func, f)
        if isinstance(target, Func) and not isinstance(f, ast.Attribute):
            return self._inline(target, c, env, func, depth, bound_self=False)
        raise UnknownIdiom('%s: call %s is outside the policy interpreter\'s vocabulary' % (func.qual, short(c)))

    # ---------------------------------------------------------------- logging
    def _module_logger(self, e, env, func: Func) -> bool:
        """`e` names a module-level object bound exactly once in its module, to ``logging.getLogger(...)``, and is not shadowed by a local."""
        if not isinstance(e, ast.Name) or e.id in env or e.id in local_names(func):
            return False
        m = func.module
        name = e.id
        val = m.consts.get(name)
        if not isinstance(val, ast.Call) or name in m.functions or name in m.classes or name in m.imports:
            return False
        if self.p.resolve_expr(m, val.func, None) != 'logging.getLogger':
            return False
        stores = 0
        for n in ast.walk(m.tree):
            if isinstance(n, ast.Name) and n.id == name and not isinstance(n.ctx, ast.Load):
                stores += 1
            elif isinstance(n, (ast.Global, ast.Nonlocal)) and name in n.names:
                return False
            elif isinstance(n, ast.alias) and (n.asname or n.name) == name:
                return False
            elif isinstance(n, (ast.FunctionDef, ast.AsyncFunctionDef, ast.ClassDef)) and n.name == name:
                return False
        return stores == 1

    def _log_arg(self, a, env) -> bool:
        """an argument whose evaluation has no effect and that is rendered lazily (or by str formatting of an already computed value):
        a constant, a plain local name (not the request/response objects), a tuple of those, an f-string / %-format over those"""
        if isinstance(a, ast.Constant):
            return True
        if isinstance(a, ast.Name):
            return a.id in env and a.id not in (self.req, self.resp, self.self_name)
        if isinstance(a, ast.Tuple):
            return all(self._log_arg(x, env) for x in a.elts)
        if isinstance(a, ast.JoinedStr):
            return all(isinstance(x, ast.Constant) or (isinstance(x, ast.FormattedValue) and x.format_spec is None and self._log_arg(x.value, env))
                       for x in a.values)
        if isinstance(a, ast.BinOp) and isinstance(a.op, ast.Mod) and isinstance(a.left, ast.Constant) and isinstance(a.left.value, str):
            return self._log_arg(a.right, env)
        return False

    def _is_log_call(self, c: ast.Call, env, func: Func) -> bool:
        """``_logger.debug('...', origin)``: a record method of a module-level logger (bound once to ``logging.getLogger(..)``) whose
        arguments are constants and plain locals.  The logging package does not propagate handler errors (``Handler.handleError``), reads
        nothing of the exchange beyond the values it is handed and its result is not a value of the policy: the statement is a no-op."""
        f = c.func
        if not (isinstance(f, ast.Attribute) and f.attr in LOG_METHODS and self._module_logger(f.value, env, func)):
            return False
        if any(isinstance(a, ast.Starred) for a in c.args) or any(k.arg is None for k in c.keywords):
            return False
        if not all(self._log_arg(a, env) for a in c.args):
            return False
        return all(k.arg in ('exc_info', 'stack_info', 'stacklevel') and isinstance(k.value, ast.Constant) for k in c.keywords)

    def _inline(self, target: Func, c: ast.Call, env, func, depth, bound_self: bool):
        if depth >= MAX_DEPTH:
            raise UnknownIdiom('%s: helper nesting deeper than %d at %s' % (func.qual, MAX_DEPTH, short(c)))
        if target.is_async or target.node.args.vararg or target.node.args.kwarg:
            raise UnknownIdiom('%s: helper %s has a signature the interpreter does not bind' % (func.qual, target.qual))
        names = [a.arg for a in target.node.args.posonlyargs + target.node.args.args]
        kwonly = [a.arg for a in target.node.args.kwonlyargs]
        new_env = {}
        pos = list(c.args)
        if any(isinstance(a, ast.Starred) for a in pos) or any(k.arg is None for k in c.keywords):
            raise UnknownIdiom('%s: star-arguments in %s' % (func.qual, short(c)))
        if bound_self:
            if not names:
                raise UnknownIdiom('%s: helper %s takes no self' % (func.qual, target.qual))
            new_env[names[0]] = env[self.self_name]
            names_rest = names[1:]
            if names[0] != self.self_name:
                raise UnknownIdiom('%s: helper %s names its receiver %s' % (func.qual, target.qual, names[0]))
        else:
            names_rest = names
        if len(pos) > len(names_rest):
            raise UnknownIdiom('%s: too many arguments in %s' % (func.qual, short(c)))
        for n, a in zip(names_rest, pos):
            new_env[n] = self.eval(a, env, func, depth)
        for k in c.keywords:
            if k.arg not in names_rest + kwonly or k.arg in new_env:
                raise UnknownIdiom('%s: keyword %s in %s' % (func.qual, k.arg, short(c)))
            new_env[k.arg] = self.eval(k.value, env, func, depth)
        # defaults
        defaults = target.node.args.defaults
        dnames = names[len(names) - len(defaults):] if defaults else []
        for n, d in zip(dnames, defaults):
            if n not in new_env:
                new_env[n] = self.eval(d, {}, target, depth + 1)
        for n, d in zip(kwonly, target.node.args.kw_defaults):
            if n not in new_env and d is not None:
                new_env[n] = self.eval(d, {}, target, depth + 1)
        missing = [n for n in names_rest + kwonly if n not in new_env]
        if missing:
            raise UnknownIdiom('%s: unbound parameter(s) %s in %s' % (func.qual, missing, short(c)))
        # the callee must talk about the same req/resp objects under the same names
        for n, v in new_env.items():
            if v == ('sym', 'param:' + (self.resp or '\0')) and n != self.resp:
                raise UnknownIdiom('%s: helper %s renames the response parameter' % (func.qual, target.qual))
            if v == ('sym', 'param:' + (self.req or '\0')) and n != self.req:
                raise UnknownIdiom('%s: helper %s renames the request parameter' % (func.qual, target.qual))
        try:
            self._block(target.node.body, new_env, target, depth + 1)
        except _Return as r:
            return r.value
        return NONE


def decision_table(project: Project, func: Func, req_param=None, resp_param=None) -> Tuple[List[Leaf], Executor]:
    ex = Executor(project, func, req_param, resp_param)
    return ex.run(), ex


# ---------------------------------------------------------------------------
# three-valued formulas over a leaf's decisions
# ---------------------------------------------------------------------------

def lit(atom: str, want: bool = True):
    return ('lit', atom, want)


def f_and(*xs):
    return ('and',) + xs


def f_or(*xs):
    return ('or',) + xs


def f_not(x):
    return ('not', x)


def split_args(s: str) -> List[str]:
    """top-level comma-separated operands of an atom's argument text"""
    out, depth, cur = [], 0, ''
    quote = None
    for ch in s:
        if quote:
            cur += ch
            if ch == quote:
                quote = None
            continue
        if ch in '\'"':
            quote = ch
            cur += ch
        elif ch in '([':
            depth += 1
            cur += ch
        elif ch in ')]':
            depth -= 1
            cur += ch
        elif ch == ',' and depth == 0:
            out.append(cur)
            cur = ''
        else:
            cur += ch
    if cur:
        out.append(cur)
    return out


_NOCONST = object()


def _const_of(text: str):
    try:
        return ast.literal_eval(text)
    except (ValueError, SyntaxError, TypeError, MemoryError, RecursionError):
        return _NOCONST


def _truthy_from_comparisons(x: str, leaf: Leaf) -> Optional[bool]:
    """Truthiness of the symbolic value `x` (its vkey) as far as the comparisons decided on the path settle it:
    equal to a constant -> that constant's truthiness; a member of a constant collection whose elements are all
    truthy (all falsy) -> true (false); a header value (a string or None) that is neither None nor '' -> true."""
    for atom, val in leaf.decisions.items():
        if val is not True or '(' not in atom:
            continue
        kind, inner = atom[:atom.index('(')], atom[atom.index('(') + 1:-1]
        if kind not in ('eq', 'in'):
            continue
        parts = split_args(inner)
        if len(parts) != 2:
            continue
        if kind == 'eq' and x in parts:
            k = _const_of(parts[1] if parts[0] == x else parts[0])
            if k is not _NOCONST:
                return bool(k)
        if kind == 'in' and parts[0] == x:
            k = _const_of(parts[1])
            if isinstance(k, (tuple, list, set, frozenset)) and k:
                if all(bool(e) for e in k):
                    return True
                if not any(bool(e) for e in k):
                    return False
    if x.startswith(('reqhdr(', 'prehdr(')):
        # a header value is a string or None: it is truthy iff it is neither None nor ''
        not_none = leaf.value_of('none(%s)' % x) is False
        not_empty = leaf.value_of('eq(%s,%s)' % tuple(sorted(("''", x)))) is False
        for atom, val in leaf.decisions.items():
            if val is False and atom.startswith('in(%s,' % x):
                parts = split_args(atom[3:-1])
                k = _const_of(parts[1]) if len(parts) == 2 else _NOCONST
                if isinstance(k, (tuple, list, set, frozenset)):
                    not_none = not_none or any(e is None for e in k)
                    not_empty = not_empty or any(isinstance(e, str) and e == '' for e in k)
        if not_none and not_empty:
            return True
    return None


def ev3(form, leaf: Leaf) -> Optional[bool]:
    """True / False / None (undetermined on this path)."""
    k = form[0]
    if k == 'lit':
        v = leaf.value_of(form[1])
        if v is None:
            # axioms none <-> truthy
            a = form[1]
            if a.startswith('none(') and leaf.value_of('truthy(' + a[5:]) is True:
                v = False
            elif a.startswith('truthy(') and leaf.value_of('none(' + a[7:]) is True:
                v = False
            elif a.startswith('truthy('):
                v = _truthy_from_comparisons(a[7:-1], leaf)
        if v is None:
            return None
        return v == form[2]
    if k == 'not':
        r = ev3(form[1], leaf)
        return None if r is None else not r
    rs = [ev3(x, leaf) for x in form[1:]]
    if k == 'and':
        if any(r is False for r in rs):
            return False
        return True if all(r is True for r in rs) else None
    if k == 'or':
        if any(r is True for r in rs):
            return True
        return False if all(r is False for r in rs) else None
    raise ValueError(k)


def atoms_of(leaf: Leaf) -> List[str]:
    return list(leaf.decisions)
