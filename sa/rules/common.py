"""Helpers shared by the rule modules."""

from __future__ import annotations

import ast
from typing import Callable, Dict, Iterable, Iterator, List, Optional, Sequence, Set, Tuple

from ..cfg import CFG, Node, cfg_of
from ..model import (AnchorError, Class, Func, Project, UnknownIdiom, attr_chain, dotted, short, unparse,
                     walk_no_nested)


def walk_self(e) -> Iterator[ast.AST]:
    yield e
    yield from walk_no_nested(e)


def strip_await(e):
    while isinstance(e, ast.Await):
        e = e.value
    return e


def implied(expr, truth: bool, atom: Callable[[ast.AST], bool]) -> Optional[bool]:
    """If `expr` evaluates to `truth`, what is the truth of the (unique) atom
    matched by `atom`?  None if not determined."""
    expr = strip_await(expr)
    if atom(expr):
        return truth
    if isinstance(expr, ast.UnaryOp) and isinstance(expr.op, ast.Not):
        return implied(expr.operand, not truth, atom)
    if isinstance(expr, ast.BoolOp):
        if isinstance(expr.op, ast.And) and truth:
            for v in expr.values:
                r = implied(v, True, atom)
                if r is not None:
                    return r
        if isinstance(expr.op, ast.Or) and not truth:
            for v in expr.values:
                r = implied(v, False, atom)
                if r is not None:
                    return r
        if len(expr.values) == 1:
            return implied(expr.values[0], truth, atom)
    return None


def mentions(expr, atom: Callable[[ast.AST], bool]) -> bool:
    return any(atom(n) for n in walk_self(expr))


def is_attr(e, base: str, attr: str) -> bool:
    return isinstance(e, ast.Attribute) and e.attr == attr and isinstance(e.value, ast.Name) and e.value.id == base


def is_self_attr(e, attr: str) -> bool:
    return is_attr(e, 'self', attr)


def call_name(c: ast.Call) -> Optional[str]:
    """Dotted text of the callee ('self._get_responder', 'process_request')."""
    return dotted(strip_await(c).func) if isinstance(strip_await(c), ast.Call) else None


def find_calls(root, pred: Callable[[ast.Call], bool], nested=False) -> List[ast.Call]:
    it = ast.walk(root) if nested else walk_self(root)
    return [n for n in it if isinstance(n, ast.Call) and pred(n)]


def method_call(c: ast.Call, attr: str) -> bool:
    return isinstance(c.func, ast.Attribute) and c.func.attr == attr


def stmts_walk(stmts) -> Iterator[ast.AST]:
    for s in stmts:
        yield from walk_self(s)


def nodes_within(cfg: CFG, stmts: Sequence[ast.AST]) -> Set[int]:
    """CFG nodes whose own AST lies inside the given statements (including
    nested blocks, excluding nested defs)."""
    ids = set()
    for s in stmts:
        for n in walk_self(s):
            ids.add(id(n))
    out = set()
    for n in cfg.live_nodes():
        key = n.ast if n.ast is not None else n.stmt
        if key is not None and id(key) in ids:
            out.add(n.id)
    return out


def enclosing_map(func_node) -> Dict[int, ast.AST]:
    """id(child) -> parent AST node, within one function."""
    parent = {}
    for n in ast.walk(func_node):
        for c in ast.iter_child_nodes(n):
            parent[id(c)] = n
    return parent


def ancestors(node, parent: Dict[int, ast.AST]) -> Iterator[ast.AST]:
    cur = parent.get(id(node))
    while cur is not None:
        yield cur
        cur = parent.get(id(cur))


def assigned_names(target) -> List[str]:
    out = []
    for n in ast.walk(target):
        if isinstance(n, ast.Name):
            out.append(n.id)
    return out


def single(items: list, what: str, where: str = ''):
    if len(items) != 1:
        raise AnchorError('expected exactly one %s%s, found %d' % (what, (' in ' + where) if where else '', len(items)))
    return items[0]


def at_least(items: list, n: int, what: str, where: str = ''):
    if len(items) < n:
        raise AnchorError('expected at least %d %s%s, found %d' % (n, what, (' in ' + where) if where else '', len(items)))
    return items


def const_of(e):
    return e.value if isinstance(e, ast.Constant) else None


def dict_literal(project: Project, func: Func, e) -> Optional[Dict[object, ast.AST]]:
    """key constant -> value expr for a dict literal, or for a name bound to a
    module-level dict literal."""
    if isinstance(e, ast.Name):
        q = project.resolve_expr(func.module, e, func)
        if q:
            head, _, tail = q.rpartition('.')
            m = project.modules.get(head)
            if m and tail in m.consts:
                return dict_literal(project, _FakeFunc(m), m.consts[tail])
        return None
    if not isinstance(e, ast.Dict):
        return None
    out = {}
    for k, v in zip(e.keys, e.values):
        if k is None:
            return None
        kv = project.fold(func.module, k, None, None)
        out[kv] = v
    return out


class _FakeFunc:
    def __init__(self, module):
        self.module = module
        self.parent = None
        self.nested = {}
        self.cls = None


def first_stmt_index(stmts, pred) -> Optional[int]:
    for i, s in enumerate(stmts):
        if pred(s):
            return i
    return None


def source_eq(a, b) -> bool:
    return unparse(a) == unparse(b)
