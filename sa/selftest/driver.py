"""Checker self-validation: apply each mutation operator to a scratch copy of
falcon/, run the rules with --root <scratch>, require that the target rule
fires, names the mutated function, and that no other property fires.

Scratch copies live under tempfile.mkdtemp() (outside /repo and /verif) and
are removed before exit.
"""

from __future__ import annotations

import contextlib
import io
import json
import os
import shutil
import sys
import tempfile
import time
from concurrent.futures import ProcessPoolExecutor

from ..report import VERIF


def _copy_tree(root, dst):
    src = os.path.join(root, 'falcon')
    def ign(d, names):
        return [n for n in names if not (n.endswith('.py') or n.endswith('.pyx') or os.path.isdir(os.path.join(d, n))) or n == '__pycache__']
    shutil.copytree(src, os.path.join(dst, 'falcon'), ignore=ign)


def apply_mutant(m, scratch):
    """Returns None on success or a reason string when the operator's pattern
    no longer applies."""
    edits = m.get('edits') or [{'file': m['file'], 'old': m['old'], 'new': m['new'], 'count': m.get('count', 1)}]
    for e in edits:
        path = os.path.join(scratch, e['file'])
        if not os.path.isfile(path):
            return 'file %s missing' % e['file']
        with open(path, encoding='utf-8') as f:
            src = f.read()
        n = src.count(e['old'])
        want = e.get('count', 1)
        if n != want:
            return 'pattern occurs %d times in %s (expected %d)' % (n, e['file'], want)
        occ = e.get('occurrence')
        if occ is None:
            src = src.replace(e['old'], e['new'])
        else:
            idx = -1
            for _ in range(occ + 1):
                idx = src.index(e['old'], idx + 1)
            src = src[:idx] + e['new'] + src[idx + len(e['old']):]
        try:
            compile(src, path, 'exec')
        except SyntaxError as ex:
            return 'mutant does not parse: %s' % ex
        with open(path, 'w', encoding='utf-8') as f:
            f.write(src)
    return None


def _violation_keys(evdir, prop):
    try:
        with open(os.path.join(evdir, '%s.json' % prop)) as f:
            ev = json.load(f)
        return {(v['rule'], v['key']) for v in ev['coverage'].get('new_violations', [])} | \
               {(v['rule'], v['key']) for v in ev['coverage'].get('known_findings_matched', [])}
    except Exception:
        return set()


def baseline_keys(root, props):
    """Violations already present on the unmutated tree (findings under triage);
    a mutant is judged on the violations it ADDS."""
    from ..cli import run_property
    from ..model import Project

    tmp = tempfile.mkdtemp(prefix='sa_base_')
    out = {}
    try:
        project = Project(root)
        for p in props:
            buf = io.StringIO()
            with contextlib.redirect_stdout(buf):
                run_property(p, 'quick', root, tmp, project)
            out[p] = _violation_keys(tmp, p)
    finally:
        shutil.rmtree(tmp, ignore_errors=True)
    return out


def _run_one(args):
    m, root, props, base = args
    from ..cli import run_property
    from ..model import Project, AnalysisError

    tmp = tempfile.mkdtemp(prefix='sa_mut_')
    res = {'id': m['id'], 'property': m['property'], 'rule': m.get('rule'), 'status': None, 'fired': {}, 'errors': {}, 'detail': ''}
    try:
        _copy_tree(root, tmp)
        why = apply_mutant(m, tmp)
        if why:
            res['status'] = 'skipped'
            res['detail'] = why
            return res
        try:
            project = Project(tmp)
        except AnalysisError as e:
            res['status'] = 'error'
            res['detail'] = str(e)
            return res
        evdir = os.path.join(tmp, 'evidence')
        for p in props:
            buf = io.StringIO()
            with contextlib.redirect_stdout(buf):
                rc = run_property(p, 'quick', tmp, evdir, project)
            out = buf.getvalue()
            if rc == 1 or base.get(p):
                newk = _violation_keys(evdir, p) - base.get(p, set())
                if newk:
                    rules = sorted({r for (r, _k) in newk})
                    res['fired'][p] = {'rules': rules, 'lines': sorted(k for (_r, k) in newk)[:4]}
            elif rc == 2:
                res['errors'][p] = [ln for ln in out.splitlines() if ln.startswith('ANALYSIS-ERROR')][:3]
        tgt = m['property']
        exp_rule = m.get('rule')
        fired_tgt = res['fired'].get(tgt)
        # rules shared between properties (one necessary condition of several
        # properties): firing in the sharing property is not cross-fire
        shares = {'C04': ('C05',), 'C01': ('C19', 'C02'), 'C10': ('C08', 'C15'), 'C08': ('C10', 'C15', 'C19'), 'C15': ('C10', 'C08', 'C09', 'C16'), 'C19': ('C11', 'C08', 'C01'), 'C11': ('C19', 'C04', 'C12'),
                  'C03': ('C06', 'C20'), 'C20': ('C03', 'C02'), 'C06': ('C03', 'C09', 'C05', 'C13', 'C12'), 'C12': ('C05', 'C08', 'C06'), 'C05': ('C06', 'C12', 'C04'), 'C02': ('C16', 'C20'), 'C16': ('C02', 'C09', 'C15'), 'C09': ('C06', 'C15', 'C16'), 'C14': ('C13',), 'C13': ('C14', 'C06'), 'C17': ('C18',), 'C18': ('C17',)}
        allowed = set(m.get('also', [])) | set(shares.get(tgt, ()))
        for a in list(allowed):
            allowed |= set(shares.get(a, ()))       # a declared double break extends to the properties sharing that rule
        others = [p for p in res['fired'] if p != tgt and p not in allowed]
        if fired_tgt and (exp_rule is None or exp_rule in fired_tgt['rules']):
            res['status'] = 'caught' if not others else 'caught+crossfire'
        elif fired_tgt:
            res['status'] = 'caught-other-rule'
        elif tgt in res['errors']:
            res['status'] = 'analysis-error'
        else:
            res['status'] = 'MISSED'
        if others:
            res['detail'] = 'cross-fired: %s' % others
    finally:
        shutil.rmtree(tmp, ignore_errors=True)
    return res


def run_mutants(mutants, root, props, jobs=16):
    base = baseline_keys(root, props)
    work = [(m, root, props, base) for m in mutants]
    if jobs <= 1 or len(work) <= 1:
        return [_run_one(w) for w in work]
    with ProcessPoolExecutor(max_workers=min(jobs, len(work))) as ex:
        return list(ex.map(_run_one, work))


def implemented_props():
    d = os.path.join(VERIF, 'sa', 'rules')
    import re

    return sorted(fn[:-3].upper() for fn in os.listdir(d) if re.fullmatch(r'c\d\d\.py', fn))


def main(args) -> int:
    from .mutants import MUTANTS

    muts = MUTANTS
    if args.only:
        keys = args.only.split(',')
        muts = [m for m in muts if any(k in m['id'] or k == m['property'] for k in keys)]
    props = implemented_props()
    t0 = time.time()
    results = run_mutants(muts, args.root, props, args.jobs)
    bad = 0
    for r in results:
        flag = '' if r['status'] in ('caught', 'skipped') else '  <<<<'
        if flag:
            bad += 1
        print('%-44s %-4s %-4s %-18s %s%s' % (r['id'], r['property'], r['rule'] or '-', r['status'],
                                            ','.join('%s:%s' % (p, '/'.join(v['rules'])) for p, v in r['fired'].items()), flag))
        if r['detail']:
            print('      ' + r['detail'])
        for p, e in r['errors'].items():
            print('      %s: %s' % (p, e[:1]))
    print('selftest: %d mutants, %d not cleanly caught, %.1fs' % (len(results), bad, time.time() - t0))
    return 0 if bad == 0 else 3


def sensitivity_into_evidence(prop, args):
    """thorough tier: run this property's mutation operators and record the
    outcome in the evidence file (never changes the verdict)."""
    from .mutants import MUTANTS

    muts = [m for m in MUTANTS if m['property'] == prop]
    if not muts:
        return
    results = run_mutants(muts, args.root, [prop], args.jobs)
    path = os.path.join(args.evidence_dir, '%s.json' % prop)
    with open(path) as f:
        ev = json.load(f)
    ev['coverage']['mutation_sensitivity'] = {
        'operators': len(results),
        'caught': sum(1 for r in results if r['status'].startswith('caught')),
        'skipped': sum(1 for r in results if r['status'] == 'skipped'),
        'missed': [r['id'] for r in results if r['status'] in ('MISSED', 'analysis-error', 'error')],
        'results': [{'id': r['id'], 'rule': r['rule'], 'status': r['status'], 'fired': r['fired'].get(prop, {}).get('rules')} for r in results],
    }
    # negative controls: behaviour-preserving rewrites of the whole package
    # (ast.unparse round trip; all locals renamed; docstrings stripped) must
    # not produce a NEW violation (exit 2 = an anchored name vanished is fine)
    try:
        ev['coverage']['negative_controls'] = negative_controls(prop, args.root)
    except Exception as e:  # pragma: no cover
        ev['coverage']['negative_controls'] = {'error': '%s: %s' % (type(e).__name__, e)}
    with open(path, 'w') as f:
        json.dump(ev, f, indent=1, default=str)
    print('%s thorough: mutation sensitivity %d/%d operators caught' % (
        prop, ev['coverage']['mutation_sensitivity']['caught'], len(results) - ev['coverage']['mutation_sensitivity']['skipped']))


def negative_controls(prop, root):
    import importlib.util

    spec = importlib.util.spec_from_file_location('refactor_fuzz', os.path.join(VERIF, 'tools', 'refactor_fuzz.py'))
    rf = importlib.util.module_from_spec(spec)
    spec.loader.exec_module(rf)
    from ..cli import run_property
    from ..model import Project, AnalysisError

    base = baseline_keys(root, [prop]).get(prop, set())
    base_fn = {(r, k.split(' :: ')[0]) for (r, k) in base}
    out = {}
    for variant in ('unparse', 'rename', 'docstrip'):
        tmp = tempfile.mkdtemp(prefix='sa_neg_')
        try:
            for dp, dn, fn in os.walk(os.path.join(root, 'falcon')):
                dn[:] = [d for d in dn if d != '__pycache__']
                for f in fn:
                    if not f.endswith('.py'):
                        continue
                    src = os.path.join(dp, f)
                    dst = os.path.join(tmp, os.path.relpath(src, root))
                    os.makedirs(os.path.dirname(dst), exist_ok=True)
                    text = open(src, encoding='utf-8').read()
                    try:
                        text = rf.transform(text, variant)
                    except Exception:
                        pass
                    open(dst, 'w', encoding='utf-8').write(text)
            evdir = os.path.join(tmp, 'ev')
            buf = io.StringIO()
            try:
                with contextlib.redirect_stdout(buf):
                    rc = run_property(prop, 'quick', tmp, evdir, Project(tmp))
            except AnalysisError:
                rc = 2
            keys = _violation_keys(evdir, prop)
            # same (rule, function) as a finding already present = same finding under renamed locals
            new = sorted('%s %s' % (r, k) for (r, k) in keys if (r, k) not in base and (r, k.split(' :: ')[0]) not in base_fn)
            out[variant] = {'exit': rc, 'new_violations': new, 'verdict': 'FALSE-ALARM' if new else ('silent' if rc in (0, 1) else 'anchor-vanished (exit 2)')}
        finally:
            shutil.rmtree(tmp, ignore_errors=True)
    return out
