"""Mutation operators for C01 (compiled router)."""

from .mutants import M, M2

F = 'falcon/routing/compiled.py'

# ----------------------------------------------------------------------- R1
M('c01-drop-undo-remove', 'C01', 'R1', F,
  """                    nodes.remove(new_node)
                    raise UnacceptableRouteError(""",
  """                    raise UnacceptableRouteError(""")
M('c01-append-before-complex-check', 'C01', 'R1', F,
  """            new_node = CompiledRouterNode(path[path_index])
            if new_node.is_complex:""",
  """            new_node = CompiledRouterNode(path[path_index])
            nodes.append(new_node)
            if new_node.is_complex:""")
M('c01-override-before-descent', 'C01', 'R1', F,
  """                    path_index += 1
                    if path_index == len(path):
                        # NOTE(kgriffs): Override previous node
                        node.method_map = method_map
""",
  """                    path_index += 1
                    node.method_map = method_map
                    if path_index == len(path):
                        # NOTE(kgriffs): Override previous node
""")
M2('c01-validate-after-insert', 'C01', 'R1', [
    {'file': F, 'old': """        used_names: Set[str] = set()
        for segment in path:
            self._validate_template_segment(segment, used_names)

""", 'new': """        used_names: Set[str] = set()

"""},
    {'file': F, 'old': """        insert(self._roots)
""", 'new': """        insert(self._roots)
        for segment in path:
            self._validate_template_segment(segment, used_names)
"""}])
M('c01-undo-wrong-list', 'C01', 'R1', F,
  """                    nodes.remove(new_node)
                    raise UnacceptableRouteError(""",
  """                    new_node.children.clear()
                    raise UnacceptableRouteError(""")

# ----------------------------------------------------------------------- R2
KEY = "nodes, key=lambda node: node.is_var + (node.is_var and not node.is_complex)"
M('c01-key-swap-complex-simple', 'C01', 'R2', F, KEY,
  "nodes, key=lambda node: node.is_var + (node.is_var and node.is_complex)")
M('c01-key-literal-ties-multi', 'C01', 'R2', F, KEY,
  "nodes, key=lambda node: node.is_var and not node.is_complex")
M('c01-key-swap-static-complex', 'C01', 'R2', F, KEY,
  "nodes, key=lambda node: (not node.is_var) + (node.is_var and not node.is_complex) * 2")
M('c01-sort-reversed', 'C01', 'R2', F, KEY, KEY + ", reverse=True")
M('c01-sort-dropped', 'C01', 'R2', F,
  """        nodes = sorted(
            nodes, key=lambda node: node.is_var + (node.is_var and not node.is_complex)
        )
""", "")

# ----------------------------------------------------------------------- R7
M('c01-conflict-simple-simple-lost', 'C01', 'R7', F,
  "                return other.is_var and not other.is_complex",
  "                return other.is_var and other.is_complex")
M('c01-conflict-literal-conflicts', 'C01', 'R7', F,
  """        # NOTE(kgriffs): If self is a static string match, then all the cases
        # for other are False, so no need to check.
        return False""",
  """        # NOTE(kgriffs): If self is a static string match, then all the cases
        # for other are False, so no need to check.
        return other.is_var""")
M('c01-conflict-polarity', 'C01', 'R7', F,
  """        other = CompiledRouterNode(segment)

        if self.is_var:""",
  """        other = CompiledRouterNode(segment)

        if not self.is_var:""")

# ----------------------------------------------------------------------- R8
M('c01-prune-threshold', 'C01', 'R8', F,
  "            if len(nodes) > 1:\n                # NOTE(kgriffs): There's the possibility",
  "            if len(nodes) > 2:\n                # NOTE(kgriffs): There's the possibility")
M('c01-prune-ignores-simple-fields', 'C01', 'R8', F,
  "var_nodes = [node for node in nodes if node.is_var]",
  "var_nodes = [node for node in nodes if node.is_complex]")
M('c01-prune-flag-never-cleared', 'C01', 'R8', F,
  "                fast_return = not found_var_nodes",
  "                fast_return = fast_return or not found_var_nodes")
M('c01-return-none-unguarded', 'C01', 'R8', F,
  """            if node.resource is None:
                if fast_return:
                    parent.append_child(_CxReturnNone())
""",
  """            if node.resource is None:
                parent.append_child(_CxReturnNone())
""")
M('c01-prune-children-always', 'C01', 'R8', F,
  """                level + 1,
                fast_return,
            )""",
  """                level + 1,
                True,
            )""")

# ----------------------------------------------------------------------- R3
M('c01-params-eager-assignment', 'C01', 'R3', F,
  "                        params_stack.append(_CxSetParamFromPath(field_name, level))",
  "                        parent.append_child(_CxSetParamFromPath(field_name, level))")
M('c01-params-sibling-alias', 'C01', 'R3', F,
  "            params_stack = original_params_stack.copy()",
  "            params_stack = original_params_stack")
M('c01-params-no-rederive', 'C01', 'R3', F,
  "            params_stack = original_params_stack.copy()\n", "")
M('c01-params-copy-of-previous-sibling', 'C01', 'R3', F,
  "            params_stack = original_params_stack.copy()",
  "            params_stack = params_stack.copy()")
M('c01-params-before-length-check', 'C01', 'R3', F,
  """                    for params in params_stack:
                        cx_path_len.append_child(params)
""",
  """                    for params in params_stack:
                        parent.append_child(params)
""")
M('c01-params-emission-dropped', 'C01', 'R3', F,
  """                    for params in params_stack:
                        cx_path_len.append_child(params)
""", "")
# NOTE: DESIGN's operator "pass params_stack without .copy()" alone is behaviour-
# preserving on today's tree (the callee re-copies before it extends anything);
# it is a real break only together with a callee that extends its argument:
M2('c01-params-stack-shared-with-children', 'C01', 'R3', [
    {'file': F, 'old': "                params_stack.copy(),\n                level + 1,", 'new': "                params_stack,\n                level + 1,"},
    {'file': F, 'old': "            params_stack = original_params_stack.copy()\n", 'new': ""}])

# R3 (d): a delayed construct must not read a generated variable that other nodes rebind
PREFETCHED = """            cx_pattern_match = _CxVariableFromPatternMatchPrefetched(
                len(params_stack) + 1
            )
            params_stack.append(
                _CxSetParamsFromDict(cx_pattern_match.dict_variable_name)
            )
            parent.append_child(cx_pattern_match)
"""
# seeded change s2-c01-2: the per-node alias `dict_groups_N = groups` dropped as "redundant"
M('c01-delayed-update-reads-shared-groups', 'C01', 'R3', F, PREFETCHED,
  "            params_stack.append(_CxSetParamsFromDict('groups'))\n")
# the alias itself is delayed: `dict_groups_N = groups` is then evaluated at return time
M('c01-groups-alias-taken-at-return', 'C01', 'R3', F, PREFETCHED,
  """            cx_pattern_match = _CxVariableFromPatternMatchPrefetched(
                len(params_stack) + 1
            )
            params_stack.append(cx_pattern_match)
            params_stack.append(
                _CxSetParamsFromDict(cx_pattern_match.dict_variable_name)
            )
""")
# the match dict of a multi-field segment is fetched at return time from the shared `match`
M('c01-delayed-update-reads-shared-match', 'C01', 'R3', F,
  """                        cx_pattern = _CxVariableFromPatternMatch(len(params_stack) + 1)
                        params_stack.append(
                            _CxSetParamsFromDict(cx_pattern.dict_variable_name)
                        )
                        parent.append_child(cx_pattern)
""",
  """                        params_stack.append(
                            _CxSetParamsFromDict('match.groupdict()')
                        )
""")
# the "unique" variable loses its per-node suffix: nested multi-field segments overwrite each other's dict
M('c01-dict-match-name-not-unique', 'C01', 'R3', F,
  "        self.dict_variable_name = 'dict_match_{0}'.format(unique_idx)",
  "        self.dict_variable_name = 'dict_match'")
M('c01-field-value-index-constant', 'C01', 'R3', F,
  """            cx_converter = _CxIfConverterField(len(params_stack) + 1, converter_idx)
            params_stack.append(""",
  """            cx_converter = _CxIfConverterField(0, converter_idx)
            params_stack.append(""")

# ----------------------------------------------------------------------- R5
M('c01-find-swaps-patterns-converters', 'C01', 'R5', F,
  """        node: Optional[CompiledRouterNode] = self._find(
            path, self._return_values, self._patterns, self._converters, params
        )""",
  """        node: Optional[CompiledRouterNode] = self._find(
            path, self._return_values, self._converters, self._patterns, params
        )""", also=('C19',))  # C19 R1 compares the lazy stub's finder call with find()'s: legitimate overlap
M('c01-lazy-find-passes-stale-tables', 'C01', 'R5', F,
  """        return self._find(
            path, self._return_values, self._patterns, self._converters, params
        )""",
  """        return self._find(path, _return_values, _patterns, _converters, params)""",
  also=('C19',))  # "current tables re-read after the lock" is also a C19 R1 clause
M('c01-compile-swaps-generator-tables', 'C01', 'R5', F,
  "self._roots, self._ast, self._return_values, self._patterns, params_stack=[]",
  "self._roots, self._ast, self._patterns, self._return_values, params_stack=[]")
M('c01-compile-fills-a-copy', 'C01', 'R5', F,
  "self._roots, self._ast, self._return_values, self._patterns, params_stack=[]",
  "self._roots, self._ast, list(self._return_values), self._patterns, params_stack=[]")
M2('c01-tables-reset-after-generation', 'C01', 'R5', [
    {'file': F, 'old': "        self._return_values = []\n        self._patterns = []\n        self._converters = []\n",
     'new': "        self._return_values = []\n        self._patterns = []\n"},
    {'file': F, 'old': "        src_lines.append(self._ast.src(0))\n",
     'new': "        self._converters = []\n        src_lines.append(self._ast.src(0))\n"}])
M('c01-index-after-append', 'C01', 'R5', F,
  """                    pattern_idx = len(patterns)
                    patterns.append(node.var_pattern)
""",
  """                    patterns.append(node.var_pattern)
                    pattern_idx = len(patterns)
""")
M('c01-index-of-wrong-table', 'C01', 'R5', F,
  "                    pattern_idx = len(patterns)\n",
  "                    pattern_idx = len(return_values)\n")
M('c01-return-index-recomputed', 'C01', 'R5', F,
  "                    cx_path_len.append_child(_CxReturnValue(resource_idx))",
  "                    cx_path_len.append_child(_CxReturnValue(len(return_values)))")
M('c01-converter-prepended', 'C01', 'R5', F,
  """            converter_idx = len(self._converters)
            self._converters.append(converter_obj)

            parent.append_child(_CxSetFragmentFromField(field_name))""",
  """            converter_idx = len(self._converters)
            self._converters.insert(0, converter_obj)

            parent.append_child(_CxSetFragmentFromField(field_name))""")
M('c01-recursion-swaps-tables', 'C01', 'R5', F,
  """                parent,
                return_values,
                patterns,
                params_stack.copy(),""",
  """                parent,
                patterns,
                return_values,
                params_stack.copy(),""")

# ----------------------------------------------------------------------- R4
M('c01-literal-indexes-next-segment', 'C01', 'R4', F,
  "cx_literal = _CxIfPathSegmentLiteral(level, node.raw_segment)",
  "cx_literal = _CxIfPathSegmentLiteral(level + 1, node.raw_segment)")
M('c01-fragment-indexes-next-segment', 'C01', 'R4', F,
  "parent.append_child(_CxSetFragmentFromPath(level))",
  "parent.append_child(_CxSetFragmentFromPath(level + 1))")
M('c01-param-indexes-next-segment', 'C01', 'R4', F,
  "params_stack.append(_CxSetParamFromPath(field_name, level))",
  "params_stack.append(_CxSetParamFromPath(field_name, level + 1))")
M('c01-length-guard-off-by-one', 'C01', 'R4', F,
  "outer_parent = _CxIfPathLength('>', level)", "outer_parent = _CxIfPathLength('>=', level)")
M('c01-first-sibling-outside-guard', 'C01', 'R4', F,
  """        parent.append_child(outer_parent)
        parent = outer_parent

        found_simple = False""",
  """        parent.append_child(outer_parent)

        found_simple = False""")

# ----------------------------------------------------------------------- R6
M('c01-groups-prefetch-dropped', 'C01', 'R6', F,
  "                        parent.append_child(_CxPrefetchGroupsFromPatternMatch())\n", "")
M('c01-dict-match-definer-not-emitted', 'C01', 'R6', F,
  "                        parent.append_child(cx_pattern)\n", "")
M('c01-fragment-not-set-for-single-segment', 'C01', 'R6', F,
  """                        else:
                            parent.append_child(_CxSetFragmentFromPath(level))
""",
  """                        else:
                            pass
""")
M('c01-fragment-set-after-conversion', 'C01', 'R6', F,
  """            parent.append_child(_CxSetFragmentFromField(field_name))

            cx_converter = _CxIfConverterField(len(params_stack) + 1, converter_idx)
            params_stack.append(
                _CxSetParamFromValue(field_name, cx_converter.field_variable_name)
            )

            parent.append_child(cx_converter)
            parent = cx_converter
""",
  """            cx_converter = _CxIfConverterField(len(params_stack) + 1, converter_idx)
            params_stack.append(
                _CxSetParamFromValue(field_name, cx_converter.field_variable_name)
            )

            parent.append_child(cx_converter)
            parent = cx_converter
            parent.append_child(_CxSetFragmentFromField(field_name))
""")
M('c01-converter-block-not-emitted', 'C01', 'R6', F,
  """            parent.append_child(cx_converter)
            parent = cx_converter

        # NOTE(kgriffs): Add remaining fields that were not""",
  """            parent = cx_converter

        # NOTE(kgriffs): Add remaining fields that were not""")

M('c01-literal-segment-unescaped', 'C01', 'R9', 'falcon/routing/compiled.py',
  "        template = '{0}if path[{1}] == {2!r}:\\n{3}'", """        template = "{0}if path[{1}] == '{2}':\\n{3}\"""")
M('c01-param-name-from-raw-segment', 'C01', 'R9', 'falcon/routing/compiled.py',
  "                        params_stack.append(_CxSetParamFromPath(field_name, level))",
  "                        params_stack.append(_CxSetParamFromPath(node.raw_segment[1:-1], level))")

M('c01-finder-kept-when-compile-false', 'C01', 'R10', 'falcon/routing/compiled.py',
  """        else:
            self._find = self._compile_and_find
""", """        elif not self._roots:
            self._find = self._compile_and_find
""")

M('c01-converter-bounds-truthiness-fastpath', 'C01', 'R11', 'falcon/routing/converters.py',
  "    if converter._min is not None and value < converter._min:\n        return None\n",
  "    if not (converter._min or converter._max):\n        return value\n    if converter._min is not None and value < converter._min:\n        return None\n")
# negative control (verified by hand, behaviour-preserving because num_digits < 1 is rejected by the constructor):
#   `if self._num_digits and len(value) != self._num_digits:` keeps R11 silent

# ----------------------------------------------------------------------- wave 5
SORT = """        nodes = sorted(
            nodes, key=lambda node: node.is_var + (node.is_var and not node.is_complex)
        )
"""
NODE_CLASS = 'class CompiledRouterNode:\n    """Represents a single URI segment in a URI."""\n'
# seeded change s5-c01-3: the key moved into a helper that ranks by num_fields > 1 -- a single field with literal text
# around it ({name}.json: is_complex, num_fields == 1) then ties with the plain {name} sibling
M2('c01-key-helper-ranks-by-num-fields', 'C01', 'R2', [
    {'file': F, 'old': SORT, 'new': "        nodes = sorted(nodes, key=_node_precedence)\n"},
    {'file': F, 'old': NODE_CLASS,
     'new': 'def _node_precedence(node):\n    if not node.is_var:\n        return 0\n\n    return 1 if node.num_fields > 1 else 2\n\n\n' + NODE_CLASS}])
M('c01-key-lambda-ranks-by-num-fields', 'C01', 'R2', F, KEY,
  "nodes, key=lambda node: node.is_var + (node.is_var and node.num_fields < 2)")
# {x}.json ties with literals: /a/{x}.json added first masks /a/b.json
M('c01-key-affix-ties-literal', 'C01', 'R2', F, KEY,
  "nodes, key=lambda node: (node.is_var and node.num_fields > 1) + 2 * (node.is_var and not node.is_complex)")

# R9: template text in a comment of the generated source.  seeded change s5-c01-2: `# int(\n min=1)` after the convert() line
CONV_CTOR = "    def __init__(self, unique_idx: int, converter_idx: int) -> None:\n        super().__init__()\n        self._converter_idx = converter_idx\n"
CONV_CTOR_SPEC = ("    def __init__(self, unique_idx: int, converter_idx: int, converter_spec: str = '') -> None:\n        super().__init__()\n"
                  "        self._converter_idx = converter_idx\n        self._converter_spec = converter_spec\n")
CONV_TPL = ("            '{0}{1} = converters[{2}].convert(fragment)'.format(\n                _TAB_STR * indentation,\n"
            "                self.field_variable_name,\n                self._converter_idx,\n            ),")
CONV_TPL_SPEC = ("            '{0}{1} = converters[{2}].convert(fragment)  # {3}'.format(\n                _TAB_STR * indentation,\n"
                 "                self.field_variable_name,\n                self._converter_idx,\n                self._converter_spec,\n            ),")
CONV_SITE = "            cx_converter = _CxIfConverterField(len(params_stack) + 1, converter_idx)\n"
M2('c01-converter-spec-in-comment', 'C01', 'R9', [
    {'file': F, 'old': CONV_CTOR, 'new': CONV_CTOR_SPEC},
    {'file': F, 'old': CONV_TPL, 'new': CONV_TPL_SPEC},
    {'file': F, 'old': CONV_SITE,
     'new': "            cx_converter = _CxIfConverterField(\n                len(params_stack) + 1, converter_idx, _converter_spec(converter_name, converter_argstr)\n            )\n"},
    {'file': F, 'old': NODE_CLASS,
     'new': "def _converter_spec(name, argstr):\n    return name if argstr is None else '{0}({1})'.format(name, argstr)\n\n\n" + NODE_CLASS}])
M2('c01-converter-argstr-in-comment', 'C01', 'R9', [
    {'file': F, 'old': CONV_CTOR, 'new': CONV_CTOR_SPEC},
    {'file': F, 'old': CONV_TPL, 'new': CONV_TPL_SPEC},
    {'file': F, 'old': CONV_SITE, 'new': "            cx_converter = _CxIfConverterField(len(params_stack) + 1, converter_idx, converter_argstr)\n"}])
# the raw segment of a converter field ({x:int(\n min=1)}) as a comment on the fragment line
M2('c01-raw-segment-in-comment', 'C01', 'R9', [
    {'file': F, 'old': "class _CxSetFragmentFromPath(_CxChild):\n    def __init__(self, segment_idx: int) -> None:\n        self._segment_idx = segment_idx\n",
     'new': "class _CxSetFragmentFromPath(_CxChild):\n    def __init__(self, segment_idx: int, segment: str = '') -> None:\n"
            "        self._segment_idx = segment_idx\n        self._segment = segment\n"},
    {'file': F, 'old': "        return '{0}fragment = path[{1}]'.format(\n            _TAB_STR * indentation,\n            self._segment_idx,\n        )",
     'new': "        return '{0}fragment = path[{1}]  # {2}'.format(\n            _TAB_STR * indentation,\n            self._segment_idx,\n            self._segment,\n        )"},
    {'file': F, 'old': "parent.append_child(_CxSetFragmentFromPath(level))", 'new': "parent.append_child(_CxSetFragmentFromPath(level, node.raw_segment))"}])
# the pattern source between quotes (quotes are legal in the literal part of a segment)
M('c01-pattern-text-quoted', 'C01', 'R9', F,
  "'{0}match = patterns[{1}].match(path[{2}])  # {3}'", "\"{0}match = patterns[{1}].match(path[{2}]); pattern = '{3}'\"")
# F18: `$` + .match() admits "x\n" as a field name
M('c01-identifier-anchor-dollar', 'C01', 'R9', F,
  r"_IDENTIFIER_PATTERN = re.compile(r'[A-Za-z_][A-Za-z0-9_]*\Z')", "_IDENTIFIER_PATTERN = re.compile('[A-Za-z_][A-Za-z0-9_]*$')")
M('c01-identifier-pattern-loose', 'C01', 'R9', F,
  r"_IDENTIFIER_PATTERN = re.compile(r'[A-Za-z_][A-Za-z0-9_]*\Z')", r"_IDENTIFIER_PATTERN = re.compile(r'[^:}/]+\Z')")
M('c01-identifier-check-dropped', 'C01', 'R9', F,
  "            if not is_identifier or name in keyword.kwlist:", "            if name in keyword.kwlist:")

# R5 through one same-class helper (shape of seeded change s5-c19-1) with two tables swapped
M2('c01-lookup-helper-swaps-tables', 'C01', 'R5', [
    {'file': F, 'old': """        node: Optional[CompiledRouterNode] = self._find(
            path, self._return_values, self._patterns, self._converters, params
        )""", 'new': "        node = self._lookup(path, params)"},
    {'file': F, 'old': """        return self._find(
            path, self._return_values, self._patterns, self._converters, params
        )
""", 'new': """        return self._lookup(path, params)

    def _lookup(self, path, params):
        tables = (self._return_values, self._converters, self._patterns)
        return self._find(path, *tables, params)
"""}], also=('C19',))  # C19 R1 reads the same call (tables after the callee)
# negative controls verified by hand on a scratch copy (all exit 0): key as a correct multi-return def / method / conditional
# expression / tuple; `# {3}` fed with the converter NAME (a key of the converter map); `# {3!r}` fed with the argstr; a
# helper that applies !r itself; `$` + .fullmatch(); the inlined test `_IDENTIFIER_PATTERN.match(name) is None or ...`;
# the unswapped _lookup helper.  `find = self._find; find(...)` is exit 2.
# F19: whitespace is checked per segment; with only the whole-template check left, a field expression that spans a '/'
# ("/{a:int(1/\n2)}-{y}") smuggles a line break into the literal part of a segment -> into the `# <pattern>` comment
WS_SEG = """        if re.search(r'\\s', _FIELD_PATTERN.sub('{FIELD}', segment)):
            raise UnacceptableRouteError('URI templates may not include whitespace.')

"""
M('c01-whitespace-check-per-segment-dropped', 'C01', 'R9', F, WS_SEG, "")
M2('c01-whitespace-checks-dropped', 'C01', 'R9', [
    {'file': F, 'old': WS_SEG, 'new': ""},
    {'file': F, 'old': """        if re.search(r'\\s', _FIELD_PATTERN.sub('{FIELD}', uri_template)):
            raise UnacceptableRouteError('URI templates may not include whitespace.')

""", 'new': ""}])
# the per-segment check only looks for blanks: a line break passes
M('c01-whitespace-check-misses-line-breaks', 'C01', 'R9', F,
  "        if re.search(r'\\s', _FIELD_PATTERN.sub('{FIELD}', segment)):", "        if re.search(r'[ \\t]', _FIELD_PATTERN.sub('{FIELD}', segment)):")

# ----------------------------------------------------------------------- wave 6
C = 'falcon/routing/converters.py'
# R3(d) uniqueness of the numbered generated variables (s6-c01-3): the index must count the parameter stack, i.e. every
# assignment already collected for an ancestor; an index restarted per segment clobbers the ancestors' field_value_N
CONV_LOOP = "        for field_name, converter_name, converter_argstr in node.var_converter_map:\n"
CONV_SITE2 = "            cx_converter = _CxIfConverterField(len(params_stack) + 1, converter_idx)\n"
M2('c01-unique-idx-enumerate-from-one', 'C01', 'R3', [
    {'file': F, 'old': CONV_LOOP,
     'new': "        for field_idx, (field_name, converter_name, converter_argstr) in enumerate(\n            node.var_converter_map, start=1\n        ):\n"},
    {'file': F, 'old': CONV_SITE2, 'new': "            cx_converter = _CxIfConverterField(field_idx, converter_idx)\n"}])
M2('c01-unique-idx-local-counter', 'C01', 'R3', [
    {'file': F, 'old': CONV_LOOP, 'new': "        n_conv = 0\n" + CONV_LOOP + "            n_conv += 1\n"},
    {'file': F, 'old': CONV_SITE2, 'new': "            cx_converter = _CxIfConverterField(n_conv, converter_idx)\n"}])
M('c01-unique-idx-offsets-disagree', 'C01', 'R3', F, CONV_SITE2,
  "            cx_converter = _CxIfConverterField(len(params_stack) + 2, converter_idx)\n")
# negative controls verified by hand (exit 0): enumerate(node.var_converter_map, start=len(params_stack) + 1);
# `unique_idx = 1 + len(params_stack)` held in a local.  `level` / len(node.var_converter_map) as index are exit 2.

# R13 built-in converters veto exactly what primitive + documented options + tabled screening veto (s6-c01-1)
UUID_TRY = "        try:\n            return uuid.UUID(value)\n"
M2('c01-uuid-layout-precheck-lowercase-only', 'C01', 'R13', [
    {'file': C, 'old': "from math import isfinite\n", 'new': "from math import isfinite\nimport re\n"},
    {'file': C, 'old': "strptime = datetime.strptime\n",
     'new': "strptime = datetime.strptime\n\n_UUID_PATTERN = re.compile(\n"
            "    r'(urn:uuid:)?[0-9a-f]{8}-?[0-9a-f]{4}-?[0-9a-f]{4}-?[0-9a-f]{4}-?[0-9a-f]{12}\\Z'\n)\n"},
    {'file': C, 'old': UUID_TRY, 'new': "        if _UUID_PATTERN.match(value) is None:\n            return None\n\n" + UUID_TRY}])
M('c01-uuid-length-precheck', 'C01', 'R13', C, UUID_TRY, "        if len(value) not in (32, 36):\n            return None\n" + UUID_TRY)
INT_SCREEN = "        if value.strip() != value:\n            return None\n\n        try:\n            converted = int(value)\n"
M('c01-int-isdigit-precheck', 'C01', 'R13', C, INT_SCREEN,
  "        if not value.isdigit():\n            return None\n\n        try:\n            converted = int(value)\n")
M('c01-int-whitespace-screen-dropped', 'C01', 'R13', C, INT_SCREEN, "        try:\n            converted = int(value)\n")
M('c01-float-length-cutoff', 'C01', 'R13', C, "        try:\n            converted = float(value)\n",
  "        if len(value) > 32:\n            return None\n        try:\n            converted = float(value)\n")
M('c01-path-converter-drops-empty-segments', 'C01', 'R13', C, "        return '/'.join(value)\n", "        return '/'.join(s for s in value if s)\n")
M('c01-dt-year-first-precheck', 'C01', 'R13', C, "        try:\n            return strptime(value, self._format_string)\n",
  "        if not value[:4].isdigit():\n            return None\n        try:\n            return strptime(value, self._format_string)\n")
# negative controls (exit 0): `if not value: return None` in front of uuid.UUID; `except (ValueError, TypeError)`; int() moved
# into a module-level helper returning None; the isfinite test moved out of the try; datetime.strptime spelled out

# R14 the finder walks uri.lstrip('/').split('/') (s6-c01-2)
SPLIT = "        path = uri.lstrip('/').split('/')\n"
M2('c01-find-merges-slashes', 'C01', 'R14', [
    {'file': F, 'old': "_IDENTIFIER_PATTERN = re.compile(r'[A-Za-z_][A-Za-z0-9_]*\\Z')\n",
     'new': "_IDENTIFIER_PATTERN = re.compile(r'[A-Za-z_][A-Za-z0-9_]*\\Z')\n_REPEATED_SLASHES = re.compile(r'//+')\n"},
    {'file': F, 'old': SPLIT, 'new': "        if '//' in uri:\n            uri = _REPEATED_SLASHES.sub('/', uri)\n\n" + SPLIT}])
M('c01-find-drops-empty-segments', 'C01', 'R14', F, SPLIT, "        path = [s for s in uri.lstrip('/').split('/') if s]\n")
M('c01-find-strips-trailing-slash', 'C01', 'R14', F, SPLIT, "        path = uri.strip('/').split('/')\n")
M('c01-find-refuses-dot-dot', 'C01', 'R14', F, SPLIT, "        if '..' in uri:\n            return None\n" + SPLIT)
# negative controls (exit 0): the split in two statements; re.sub('^/+', '', uri).split('/'); list(...) around it;
# `while uri.startswith('/'): uri = uri[1:]`

# R8 wave 8: the pruning predicate is evaluated on the node kinds, var_name / var_pattern included (s8-c01-3)
VARN = "                var_nodes = [node for node in nodes if node.is_var]\n                found_var_nodes = bool(var_nodes)\n"
M('c01-prune-by-var-name', 'C01', 'R8', F, VARN,
  "                found_var_nodes = any(node.var_name is not None for node in nodes)\n")
M('c01-prune-by-var-pattern', 'C01', 'R8', F, VARN,
  "                found_var_nodes = any(node.var_pattern is not None for node in nodes)\n")
M('c01-prune-by-var-name-truthiness-helper', 'C01', 'R8', F, VARN,
  "                var_nodes = [node for node in nodes if node.var_name is not None and not node.is_complex]\n"
  "                found_var_nodes = bool(var_nodes)\n")
# negative controls (exit 0): any(node.var_name is not None or node.is_complex ...); any(node.var_name is not None or
# node.var_pattern is not None ...); any(node.num_fields for node in nodes)

# R15 the multi-segment decision is the flag of the registered converter, whatever its type (s8-c01-1)
CMS = "    return getattr(converter, 'CONSUME_MULTIPLE_SEGMENTS', False)\n"
M('c01-multi-segment-baseconverter-only', 'C01', 'R15', C, CMS,
  "    klass = converter if isinstance(converter, type) else type(converter)\n"
  "    if not issubclass(klass, BaseConverter):\n        return False\n\n    return klass.CONSUME_MULTIPLE_SEGMENTS\n")
M('c01-multi-segment-isinstance-gate', 'C01', 'R15', C, CMS,
  "    if isinstance(converter, BaseConverter):\n        return converter.CONSUME_MULTIPLE_SEGMENTS\n"
  "    return isinstance(converter, type) and getattr(converter, 'CONSUME_MULTIPLE_SEGMENTS', False)\n")
M('c01-multi-segment-no-default', 'C01', 'R15', C, CMS, "    return converter.CONSUME_MULTIPLE_SEGMENTS\n")
M('c01-multi-segment-path-converter-only', 'C01', 'R15', C, CMS,
  "    klass = converter if isinstance(converter, type) else type(converter)\n    return issubclass(klass, PathConverter)\n")
# negative controls (exit 0): bool(getattr(...)); klass = converter if isinstance(converter, type) else type(converter);
# return getattr(klass, FLAG, False); hasattr(...) and converter.CONSUME_MULTIPLE_SEGMENTS; try/except AttributeError

# R16 the text the validator accepts is the text the node stores (s8-c01-2)
CNAME_V = "            name = field.group('cname')\n            if name:\n"
M('c01-validator-strips-converter-name', 'C01', 'R16', F, CNAME_V,
  "            name = (field.group('cname') or '').strip()\n            if name:\n")
M('c01-validator-lowercases-converter-name', 'C01', 'R16', F,
  "                if name not in self._converter_map:\n",
  "                if name.lower() not in self._converter_map:\n")
M('c01-validator-strips-field-name', 'C01', 'R16', F,
  "            name = field.group('fname')\n\n            is_identifier",
  "            name = field.group('fname').strip()\n\n            is_identifier")
M('c01-node-stores-lowercased-converter-name', 'C01', 'R16', F,
  "                            field.group('cname'),\n",
  "                            field.group('cname').lower(),\n")
# negative controls (exit 0): the strip on BOTH sides; the node alone strips (every accepted name is already stripped);
# `cname = field.group('cname')` held in a local of the constructor; `(field.group('cname') or '')` in the validator

# R17 the node attributes find() answers with are stored as a group (sa-am02426)
M('c01-override-keeps-old-uri-template', 'C01', 'R17', F,
  "                        node.resource = resource\n                        node.uri_template = uri_template\n",
  "                        node.resource = resource\n")
M('c01-override-keeps-old-method-map', 'C01', 'R17', F,
  "                        node.method_map = method_map\n                        node.resource = resource\n",
  "                        node.resource = resource\n")
M('c01-new-leaf-without-resource', 'C01', 'R17', F,
  "                new_node.method_map = method_map\n                new_node.resource = resource\n",
  "                new_node.method_map = method_map\n")
M('c01-override-uri-template-only-when-unset', 'C01', 'R17', F,
  "                        node.uri_template = uri_template\n",
  "                        if node.uri_template is None:\n                            node.uri_template = uri_template\n")
# negative controls (exit 0): the three stores reordered; one tuple assignment `node.method_map, node.resource, node.uri_template = ...`;
# `target = node` is NOT understood (stores on two names: exit 1 is avoided because each name's group is complete only if all
# three go through the same name -- verified: aliasing all three stores through `target` is silent)

# ---------------------------------------------------------------- wave 9
# R7 the (single, single) cell must be unconditional: a value-dependent answer is a verdict (s9-c01-1)
SS = "                return other.is_var and not other.is_complex\n"
M('c01-conflict-same-field-same-converter-allowed', 'C01', 'R7', F, SS,
  "                if not other.is_var or other.is_complex:\n                    return False\n"
  "                return (other.var_name, [c[1] for c in other.var_converter_map]) != (\n"
  "                    self.var_name,\n                    [c[1] for c in self.var_converter_map],\n                )\n")
M('c01-conflict-only-for-different-names', 'C01', 'R7', F, SS,
  "                return other.is_var and not other.is_complex and self.var_name != other.var_name\n")
M('c01-conflict-same-name-early-out', 'C01', 'R7', F, SS,
  "                if self.var_name == other.var_name:\n                    return False\n" + SS)
M('c01-conflict-unless-both-converted', 'C01', 'R7', F, SS,
  "                return other.is_var and not other.is_complex and not (self.var_converter_map and other.var_converter_map)\n")
# negative controls (exit 0): `... and self.raw_segment != segment` (different by the caller's contract); `single = ...; return bool(single)`;
# `if other.is_var: return not other.is_complex; return False`; `if self.var_name == other.var_name: return True` in front;
# `if other.var_name is None: return False; return not other.is_complex`.  An opaque helper call in the cell stays exit 2.

# R9 hand-quoted literal: the escape chain is evaluated on {backslash, ', ", CR, LF, ordinary} (s9-c01-2)
LIT_T = "template = '{0}if path[{1}] == {2!r}:\\n{3}'"
LIT_Q = "template = \"{0}if path[{1}] == '{2}':\\n{3}\""
LIT_A = "            self._literal,\n"
M2('c01-literal-hand-quoted-backslash-unescaped', 'C01', 'R9', [
    {'file': F, 'old': LIT_T, 'new': LIT_Q},
    {'file': F, 'old': LIT_A, 'new': "            self._literal.replace(\"'\", \"\\\\'\"),\n"}])
M2('c01-literal-hand-quoted-quote-unescaped', 'C01', 'R9', [
    {'file': F, 'old': LIT_T, 'new': LIT_Q},
    {'file': F, 'old': LIT_A, 'new': "            self._literal.replace('\\\\', '\\\\\\\\'),\n"}])
M2('c01-literal-hand-quoted-escape-order', 'C01', 'R9', [
    {'file': F, 'old': LIT_T, 'new': LIT_Q},
    {'file': F, 'old': LIT_A, 'new': "            self._literal.replace(\"'\", \"\\\\'\").replace('\\\\', '\\\\\\\\'),\n"}])
# negative controls: backslash, quote, \n and \r escaped in that order between ' or " quotes (exit 0); `{2}` fed by
# repr(self._literal) (exit 0); backslash + quote escaped but not the line breaks (exit 2: whether a literal segment can hold a
# line break is not decided)

# R18 the field pattern's classes exclude exactly the delimiters (s9-c01-3)
M('c01-argstr-class-excludes-paren', 'C01', 'R18', F, "(?P<argstr>[^}]*)", "(?P<argstr>[^})]*)")
M('c01-argstr-class-excludes-quotes', 'C01', 'R18', F, "(?P<argstr>[^}]*)", "(?P<argstr>[^}\"]*)")
M('c01-cname-class-runs-over-paren', 'C01', 'R18', F, "(?P<cname>[^}\\(]*)", "(?P<cname>[^}]*)")
M('c01-fname-class-excludes-paren', 'C01', 'R18', F, "(?P<fname>[^}:]*)", "(?P<fname>[^}:(]*)")
# negative controls (exit 0): `[^\}]*`, the lazy `[^}]*?`; a `\w*` class is exit 2 (category items are not read)

# wave 10 / k1-c01-3: an f-string in src() is read like the equivalent .format call (construct model and R9's placements)
LIT_SRC = ("        template = '{0}if path[{1}] == {2!r}:\\n{3}'\n        return template.format(\n            _TAB_STR * indentation,\n"
           "            self._segment_idx,\n            self._literal,\n            self._children_src(indentation + 1),\n        )\n")
M('c01-literal-fstring-hand-quoted', 'C01', 'R9', F, LIT_SRC,
  "        return f\"{_TAB_STR * indentation}if path[{self._segment_idx}] == '{self._literal}':\\n{self._children_src(indentation + 1)}\"\n")
M('c01-literal-fstring-bare', 'C01', 'R9', F, LIT_SRC,
  "        indent = _TAB_STR * indentation\n"
  "        return f\"{indent}if path[{self._segment_idx}] == {self._literal}:\\n{self._children_src(indentation + 1)}\"\n")
M('c01-literal-fstring-escape-quote-only', 'C01', 'R9', F, LIT_SRC,
  "        lit = self._literal.replace(\"'\", \"\\\\'\")\n"
  "        return f\"{_TAB_STR * indentation}if path[{self._segment_idx}] == '{lit}':\\n{self._children_src(indentation + 1)}\"\n")
M('c01-pattern-text-fstring-quoted', 'C01', 'R9', F,
  "            '{0}match = patterns[{1}].match(path[{2}])  # {3}'.format(\n                _TAB_STR * indentation,\n                self._pattern_idx,\n"
  "                self._segment_idx,\n                self._pattern_text,\n            ),\n",
  "            f\"{_TAB_STR * indentation}match = patterns[{self._pattern_idx}].match(path[{self._segment_idx}]); pattern = '{self._pattern_text}'\",\n")
# negative controls (exit 0): k1-c01-3 (seven src() methods as f-strings, `indent` local); the literal as
# f"{indent}if path[{self._segment_idx}] == {self._literal!r}:\n{...}" and with {repr(self._literal)}

# R5 (k2-c19-2): a same-class helper that rebinds the side tables and is used by _compile only is read where it is called;
# calling it again after the generator has filled the tables hands later lookups empty tables
RESET_BLOCK = "        self._return_values = []\n        self._patterns = []\n        self._converters = []\n\n        self._ast = _CxParent()\n"
RESET_HELPER = ("    def _reset_compiled_state(self) -> None:\n        self._return_values = []\n        self._patterns = []\n"
                "        self._converters = []\n\n        self._ast = _CxParent()\n\n")
M2('c01-table-reset-helper-called-after-generation', 'C01', 'R5', [
    {'file': F, 'old': RESET_BLOCK + "        self._generate_ast(\n            self._roots, self._ast, self._return_values, self._patterns, params_stack=[]\n        )\n",
     'new': "        self._reset_compiled_state()\n        self._generate_ast(\n            self._roots, self._ast, self._return_values, self._patterns, params_stack=[]\n        )\n"
            "        ast_root = self._ast\n        self._reset_compiled_state()\n        self._ast = ast_root\n"},
    {'file': F, 'old': "    def _instantiate_converter(\n", 'new': RESET_HELPER + "    def _instantiate_converter(\n"}], also=('C19',))
# negative control (exit 0): k2-c19-2 (the block moved verbatim into the helper, called once before _generate_ast)

# ----------------------------------------------------------------------
# wave k3 (behaviour-preserving patches): for every repaired false alarm / unread shape a "refactoring + break" operator --
# the rewrite the rule now reads (silent on its own, see the negative controls in DESIGN 7.x / the fixer report) combined with a break.
# guard level held in a local + level - 1
M2('c01-guard-level-local-minus-one', 'C01', 'R4', [
    {'file': 'falcon/routing/compiled.py',
     'old': "        outer_parent = _CxIfPathLength('>', level)\n",
     'new': "        guard_level = level - 1\n        outer_parent = _CxIfPathLength('>', guard_level)\n"},
])
# path index held in a local + level + 1
M2('c01-index-local-next-level', 'C01', 'R4', [
    {'file': 'falcon/routing/compiled.py',
     'old': '                        params_stack.append(_CxSetParamFromPath(field_name, level))\n',
     'new': '                        idx = level + 1\n                        params_stack.append(_CxSetParamFromPath(field_name, idx))\n'},
])
# finder header hoisted into a module constant + two table parameters swapped
M2('c01-header-constant-swapped-params', 'C01', 'R5', [
    {'file': 'falcon/routing/compiled.py',
     'old': "        src_lines = [\n            'def find(path, return_values, patterns, converters, params):',\n",
     'new': '        src_lines = [\n            _FIND_HEADER,\n'},
    {'file': 'falcon/routing/compiled.py',
     'old': '_NO_CHILDREN_ERR = (',
     'new': "_FIND_HEADER = 'def find(path, patterns, return_values, converters, params):'\n\n_NO_CHILDREN_ERR = ("},
])
# validation loop extracted into _validate_template(path) + called after the insertion
M2('c01-validate-helper-called-after-insert', 'C01', 'R1', [
    {'file': 'falcon/routing/compiled.py',
     'old': '        used_names: Set[str] = set()\n        for segment in path:\n            self._validate_template_segment(segment, used_names)\n',
     'new': ''},
    {'file': 'falcon/routing/compiled.py',
     'old': '        insert(self._roots)\n',
     'new': '        insert(self._roots)\n        self._validate_template(path)\n'},
    {'file': 'falcon/routing/compiled.py',
     'old': '    def _validate_template_segment(self, segment: str, used_names: Set[str]) -> None:',
     'new': '    def _validate_template(self, path: List[str]) -> None:\n        used_names: Set[str] = set()\n        for segment in path:\n            self._validate_template_segment(segment, used_names)\n\n    def _validate_template_segment(self, segment: str, used_names: Set[str]) -> None:'},
])
# payload stores extracted into nested bind(node) + uri_template forgotten
M2('c01-bind-helper-partial-payload', 'C01', 'R17', [
    {'file': 'falcon/routing/compiled.py',
     'old': '        def insert(nodes: List[CompiledRouterNode], path_index: int = 0) -> None:',
     'new': '        def bind(node: CompiledRouterNode) -> None:\n            node.method_map = method_map\n            node.resource = resource\n\n        def insert(nodes: List[CompiledRouterNode], path_index: int = 0) -> None:'},
    {'file': 'falcon/routing/compiled.py',
     'old': '                        node.method_map = method_map\n                        node.resource = resource\n                        node.uri_template = uri_template\n',
     'new': '                        bind(node)\n'},
    {'file': 'falcon/routing/compiled.py',
     'old': '                new_node.method_map = method_map\n                new_node.resource = resource\n                new_node.uri_template = uri_template\n',
     'new': '                bind(new_node)\n'},
])
# substituted template held in a local + the check only looks for a blank
M2('c01-whitespace-alias-space-only', 'C01', 'R9', [
    {'file': 'falcon/routing/compiled.py',
     'old': "        if re.search(r'\\s', _FIELD_PATTERN.sub('{FIELD}', uri_template)):\n            raise UnacceptableRouteError('URI templates may not include whitespace.')\n\n        path = uri_template",
     'new': "        without_fields = _FIELD_PATTERN.sub('{FIELD}', uri_template)\n        if re.search(r' ', without_fields):\n            raise UnacceptableRouteError('URI templates may not include whitespace.')\n\n        path = uri_template"},
    {'file': 'falcon/routing/compiled.py',
     'old': "        if re.search(r'\\s', _FIELD_PATTERN.sub('{FIELD}', segment)):\n            raise UnacceptableRouteError('URI templates may not include whitespace.')\n\n        for field in",
     'new': '        for field in'},
])
# emission loop extracted into _emit_params(target, stack) + emitted into the wrong block
M2('c01-emit-helper-wrong-receiver', 'C01', 'R3', [
    {'file': 'falcon/routing/compiled.py',
     'old': "                    cx_path_len = _CxIfPathLength('==', level + 1)\n                    for params in params_stack:\n                        cx_path_len.append_child(params)\n                    cx_path_len.append_child(_CxReturnValue(resource_idx))\n",
     'new': "                    cx_path_len = _CxIfPathLength('==', level + 1)\n                    self._emit_params(parent, params_stack)\n                    cx_path_len.append_child(_CxReturnValue(resource_idx))\n"},
    {'file': 'falcon/routing/compiled.py',
     'old': '                    for params in params_stack:\n                        parent.append_child(params)\n                    parent.append_child(_CxReturnValue(resource_idx))\n',
     'new': '                    self._emit_params(parent, params_stack)\n                    parent.append_child(_CxReturnValue(resource_idx))\n'},
    {'file': 'falcon/routing/compiled.py',
     'old': '    def _generate_conversion_ast(\n',
     'new': '    def _emit_params(self, target: _CxParent, params_stack: List[_CxElement]) -> None:\n        for params in params_stack:\n            target.append_child(params)\n\n    def _generate_conversion_ast(\n'},
])
# emission helper + one route return without its parameter assignments
M2('c01-emit-helper-one-site-missing', 'C01', 'R3', [
    {'file': 'falcon/routing/compiled.py',
     'old': "                    cx_path_len = _CxIfPathLength('==', level + 1)\n                    for params in params_stack:\n                        cx_path_len.append_child(params)\n                    cx_path_len.append_child(_CxReturnValue(resource_idx))\n",
     'new': "                    cx_path_len = _CxIfPathLength('==', level + 1)\n                    cx_path_len.append_child(_CxReturnValue(resource_idx))\n"},
    {'file': 'falcon/routing/compiled.py',
     'old': '                    for params in params_stack:\n                        parent.append_child(params)\n                    parent.append_child(_CxReturnValue(resource_idx))\n',
     'new': '                    self._emit_params(parent, params_stack)\n                    parent.append_child(_CxReturnValue(resource_idx))\n'},
    {'file': 'falcon/routing/compiled.py',
     'old': '    def _generate_conversion_ast(\n',
     'new': '    def _emit_params(self, target: _CxParent, params_stack: List[_CxElement]) -> None:\n        for params in params_stack:\n            target.append_child(params)\n\n    def _generate_conversion_ast(\n'},
])
# tables held in locals of _compile + the generator fills a list the router does not keep
M2('c01-compile-table-local-not-stored', 'C01', 'R5', [
    {'file': 'falcon/routing/compiled.py',
     'old': '        self._return_values = []\n        self._patterns = []\n        self._converters = []\n\n        self._ast = _CxParent()\n        self._generate_ast(\n            self._roots, self._ast, self._return_values, self._patterns, params_stack=[]\n        )\n',
     'new': '        return_values: List[CompiledRouterNode] = []\n        patterns: List[Pattern] = []\n        self._return_values = []\n        self._patterns = patterns\n        self._converters = []\n\n        self._ast = _CxParent()\n        self._generate_ast(\n            self._roots, self._ast, return_values, patterns, params_stack=[]\n        )\n'},
])
# tables held in locals of _compile + handed to the generator in swapped order
M2('c01-compile-table-locals-swapped', 'C01', 'R5', [
    {'file': 'falcon/routing/compiled.py',
     'old': '        self._return_values = []\n        self._patterns = []\n        self._converters = []\n\n        self._ast = _CxParent()\n        self._generate_ast(\n            self._roots, self._ast, self._return_values, self._patterns, params_stack=[]\n        )\n',
     'new': '        return_values: List[CompiledRouterNode] = []\n        patterns: List[Pattern] = []\n        self._return_values = return_values\n        self._patterns = patterns\n        self._converters = []\n\n        self._ast = _CxParent()\n        self._generate_ast(\n            self._roots, self._ast, patterns, return_values, params_stack=[]\n        )\n'},
])
# find() reads method_map through a local + the override path of insert() no longer stores it
M2('c01-find-local-payload-drops-method-map', 'C01', 'R17', [
    {'file': 'falcon/routing/compiled.py',
     'old': '        if node is not None:\n            return node.resource, node.method_map or {}, params, node.uri_template\n        else:\n            return None\n',
     'new': '        if node is not None:\n            method_map = node.method_map or {}\n            return node.resource, method_map, params, node.uri_template\n        else:\n            return None\n'},
    {'file': 'falcon/routing/compiled.py',
     'old': '                        node.method_map = method_map\n                        node.resource = resource\n                        node.uri_template = uri_template\n',
     'new': '                        node.resource = resource\n                        node.uri_template = uri_template\n'},
])
# negative controls (exit 0, tried on scratch copies): `next_level = level + 1` handed to _CxIfPathLength; the header literal as a module
# constant; _validate_template(path) extracted (called before the insertion); nested bind(node) storing all three fields;
# `without_fields = _FIELD_PATTERN.sub(...)` tested by re.search(r'\s', without_fields); _emit_params(target, stack) at both sites;
# `return_values = []; self._return_values = return_values` handed to the generator; `method_map = node.method_map or {}` in find()

# wave k3, second round of pre-emptive rewrites (refactoring + break)
# try/finally with an `inserted` flag instead of except/raise + the flag test inverted (undo on success, none on rejection)
M2('c01-undo-flag-inverted', 'C01', 'R1', [
    {'file': 'falcon/routing/compiled.py',
     'old': '                try:\n                    insert(new_node.children, path_index + 1)\n                except UnacceptableRouteError:\n                    # NOTE: A deeper segment was rejected; do not leave the\n                    #   half-inserted branch behind, otherwise the rejected\n                    #   template would keep affecting later routes and lookups.\n                    nodes.remove(new_node)\n                    raise\n',
     'new': '                inserted = False\n                try:\n                    insert(new_node.children, path_index + 1)\n                    inserted = True\n                finally:\n                    if inserted:\n                        nodes.remove(new_node)\n'},
])
# %-format template + the literal rendered as '%s' instead of %r
M2('c01-percent-template-literal-unquoted', 'C01', 'R9', [
    {'file': 'falcon/routing/compiled.py',
     'old': "        template = '{0}if path[{1}] == {2!r}:\\n{3}'\n        return template.format(\n            _TAB_STR * indentation,\n            self._segment_idx,\n            self._literal,\n            self._children_src(indentation + 1),\n        )\n",
     'new': '        return "%sif path[%d] == \'%s\':\\n%s" % (\n            _TAB_STR * indentation,\n            self._segment_idx,\n            self._literal,\n            self._children_src(indentation + 1),\n        )\n'},
])
# generate = self._generate_ast bound-method alias + tables handed over in swapped order
M2('c01-generate-alias-tables-swapped', 'C01', 'R5', [
    {'file': 'falcon/routing/compiled.py',
     'old': '        self._generate_ast(\n            self._roots, self._ast, self._return_values, self._patterns, params_stack=[]\n        )\n',
     'new': '        generate = self._generate_ast\n        generate(\n            self._roots, self._ast, self._patterns, self._return_values, params_stack=[]\n        )\n'},
])
# negative controls (exit 0): the undo written as `inserted = False; try: insert(..); inserted = True; finally: if not inserted: nodes.remove(new_node)`;
# a src() template written with % and %r for the literal; `generate = self._generate_ast; generate(...)` with the tables in order

# wave k3, third round of pre-emptive rewrites (refactoring + break)
# finder slot assigned by one conditional expression + the lazy arm keeps the stale finder
M2('c01-finder-slot-ifexp-keeps-stale', 'C01', 'R10', [
    {'file': 'falcon/routing/compiled.py',
     'old': "        if kwargs.get('compile', False):\n            self._find = self._compile()\n        else:\n            self._find = self._compile_and_find\n",
     'new': "        self._find = self._compile() if kwargs.get('compile', False) else self._find\n"},
])
# negative control (exit 0): self._find = self._compile() if kwargs.get('compile', False) else self._compile_and_find

# wave k3, coordinator cases (refactoring + break)
# an extra defaulted parameter of the lazy stub + placed in the middle: the finder arguments shift by one
M2('c01-lazy-stub-extra-parameter-in-the-middle', 'C01', 'R5', [
    {'file': 'falcon/routing/compiled.py',
     'old': '        _return_values: Any,\n        _patterns: Any,\n        _converters: Any,\n        params: Any,\n    ) -> Any:',
     'new': '        _return_values: Any,\n        _unused: Any = None,\n        _patterns: Any = None,\n        _converters: Any = None,\n        params: Any = None,\n    ) -> Any:'},
])
# table = self._<...> local alias in the generator + the index is the length of another table
M2('c01-table-alias-index-of-other-table', 'C01', 'R5', [
    {'file': 'falcon/routing/compiled.py',
     'old': '                        converter_idx = len(self._converters)\n                        self._converters.append(converter_obj)\n                        if converters._consumes',
     'new': '                        table = self._patterns\n                        converter_idx = len(table)\n                        self._converters.append(converter_obj)\n                        if converters._consumes'},
])
# negative controls (exit 0): `_unused: Any = None` appended LAST to _compile_and_find; `scope: MethodDict = dict()` in _compile; `params = dict()` /
# `params = _new_params()` (module-level `return {}`) in find(); `table = self._converters; converter_idx = len(table); table.append(obj)`

# ----------------------------------------------------------------------- R19 (wave 11: s11-c01-2)
# the converter instance comes from the class handed to THIS _instantiate_converter call; a memo must be keyed by the class object
_R19_SLOT = {'file': F, 'old': "        '_converter_map',\n", 'new': "        '_converter_cache',\n        '_converter_map',\n"}
_R19_INIT = {'file': F, 'old': "        self._finder_src: str = ''\n\n        self._options = CompiledRouterOptions()",
             'new': "        self._finder_src: str = ''\n        self._converter_cache = {}\n\n        self._options = CompiledRouterOptions()"}
_R19_BODY = ("        if argstr is None:\n            return klass()\n\n        # NOTE(kgriffs): Don't try this at home. ;)\n"
             "        src = '{0}({1})'.format(klass.__name__, argstr)\n        return eval(src, {klass.__name__: klass})\n")


def _r19_memo(keyline, key='key'):
    return ("        %s\n        converter = self._converter_cache.get(%s)\n        if converter is None:\n"
            "            if argstr is None:\n                converter = klass()\n            else:\n"
            "                src = '{0}({1})'.format(klass.__name__, argstr)\n"
            "                converter = eval(src, {klass.__name__: klass})\n"
            "            self._converter_cache[%s] = converter\n        return converter\n" % (keyline, key, key))


# the seed: memo keyed by the constructor text '<klass.__name__>(<argstr>)'
M2('c01-converter-memo-keyed-by-constructor-text', 'C01', 'R19', [_R19_SLOT, _R19_INIT, {
    'file': F, 'old': _R19_BODY,
    'new': ("        src = '{0}({1})'.format(klass.__name__, argstr or '')\n\n        converter = self._converter_cache.get(src)\n"
            "        if converter is None:\n            converter = eval(src, {klass.__name__: klass})\n"
            "            self._converter_cache[src] = converter\n\n        return converter\n")}])
# variant: keyed by (qualified name, argstr) -- still text about the class, not the class
M2('c01-converter-memo-keyed-by-qualname', 'C01', 'R19', [_R19_SLOT, _R19_INIT, {
    'file': F, 'old': _R19_BODY, 'new': _r19_memo("key = (klass.__module__ + '.' + klass.__qualname__, argstr)")}])
# variant: keyed by the class alone -- {a:int(2)} and {b:int(3)} share one instance
M2('c01-converter-memo-keyed-by-class-only', 'C01', 'R19', [_R19_SLOT, _R19_INIT, {
    'file': F, 'old': _R19_BODY, 'new': _r19_memo('key = klass')}])
# variant: nested store whose outer key is the class name, reached through a local and try/except KeyError
M2('c01-converter-nested-memo-outer-key-is-name', 'C01', 'R19', [_R19_SLOT, _R19_INIT, {
    'file': F, 'old': _R19_BODY,
    'new': ("        per_class = self._converter_cache.setdefault(klass.__name__, {})\n        try:\n            return per_class[argstr]\n"
            "        except KeyError:\n            pass\n"
            "        converter = klass() if argstr is None else eval('{0}({1})'.format(klass.__name__, argstr), {klass.__name__: klass})\n"
            "        per_class[argstr] = converter\n        return converter\n")}])
# variant: builder extracted into a same-class helper + setdefault under the name
M2('c01-converter-setdefault-by-name-through-helper', 'C01', 'R19', [_R19_SLOT, _R19_INIT, {
    'file': F, 'old': _R19_BODY,
    'new': ("        return self._converter_cache.setdefault((klass.__name__, argstr), self._build_converter(klass, argstr))\n\n"
            "    def _build_converter(self, klass, argstr):\n" + _R19_BODY)}])
# negative controls (exit 0, tried on scratch copies): memo keyed `(klass, argstr)` / `(klass, argstr or '')` / `(id(klass), argstr)` /
# `self._converter_cache[klass, argstr]` with try/except KeyError and a chained assignment / walrus .get(); nested
# `setdefault(klass, {})[argstr]`; builder extracted into `_build_converter(klass, argstr)` with and without the (klass, argstr) memo;
# `@functools.lru_cache(maxsize=None)` on the method; `ctor = klass; ns = {name: ctor}; eval(f'{name}({argstr})', ns)`; one conditional
# expression; a `_drop_converters()` method that clears / rebinds the store to {}
