"""Mutation operators for C02 (dispatch, 404/405/OPTIONS)."""

from .mutants import M, M2

APP = 'falcon/app.py'
ASGI = 'falcon/asgi/app.py'
UTIL = 'falcon/routing/util.py'
RESP = 'falcon/responders.py'
ERR = 'falcon/errors.py'

# ------------------------------------------------------------------ R1 route masks fallbacks
M('c02-scan-without-break', 'C02', 'R1', APP,
  """                    responder = obj

                    break
""", """                    responder = obj
""")
M('c02-sinks-mask-routes', 'C02', 'R1', APP,
  """        if resource is not None:
            try:
                responder = method_map[method]""", """        if resource is not None and not self._sink_and_static_routes:
            try:
                responder = method_map[method]""")
M('c02-falsy-resource-unmasked', 'C02', 'R1', APP,
  """        if resource is not None:
            try:
                responder = method_map[method]""", """        if resource:
            try:
                responder = method_map[method]""")
M('c02-no-match-is-400', 'C02', 'R1', APP,
  """            else:
                responder = self.__class__._default_responder_path_not_found
""", """            else:
                responder = self.__class__._default_responder_bad_request
""")
M('c02-not-found-default-raises-400', 'C02', 'R1', RESP,
  """async def path_not_found_async(req: Request, resp: Response, **kwargs: Any) -> NoReturn:
    \"\"\"Raise 404 HTTPRouteNotFound error.\"\"\"
    raise HTTPRouteNotFound()
""", """async def path_not_found_async(req: Request, resp: Response, **kwargs: Any) -> NoReturn:
    \"\"\"Raise 404 HTTPRouteNotFound error.\"\"\"
    raise HTTPBadRequest()
""", also=('C17',))
M('c02-sink-selected-without-match', 'C02', 'R1', APP,
  """                m = matcher.match(path)
                if m:
""", """                m = matcher.match(path)
                if m or is_sink:
""")
M('c02-selects-matcher-not-object', 'C02', 'R1', APP,
  "                    responder = obj\n", "                    responder = matcher\n")
M('c02-routed-branch-falls-back-to-sinks', 'C02', 'R1', APP,
  """                responder = self.__class__._default_responder_bad_request
        else:
""", """                responder = self.__class__._default_responder_bad_request
                resource = None
        if resource is None:
""")

# ------------------------------------------------------------------ R2 recency
M('c02-sink-append', 'C02', 'R2', APP,
  "self._sinks.insert(0, (prefix, sink, True))", "self._sinks.append((prefix, sink, True))")
M('c02-static-append', 'C02', 'R2', APP,
  "self._static_routes.insert(0, (sr, sr, False))", "self._static_routes.append((sr, sr, False))")
M('c02-static-insert-second', 'C02', 'R2', APP,
  "self._static_routes.insert(0, (sr, sr, False))", "self._static_routes.insert(1, (sr, sr, False))")
M('c02-scan-reversed', 'C02', 'R2', APP,
  "for matcher, obj, is_sink in self._sink_and_static_routes:", "for matcher, obj, is_sink in reversed(self._sink_and_static_routes):")
M('c02-rebuild-reverses-sinks', 'C02', 'R2', APP,
  "self._sink_and_static_routes = tuple(self._sinks + self._static_routes)",
  "self._sink_and_static_routes = tuple(self._sinks[::-1] + self._static_routes)")
M('c02-static-flagged-as-sink', 'C02', 'R2', APP,
  "self._static_routes.insert(0, (sr, sr, False))", "self._static_routes.insert(0, (sr, sr, True))")

# ------------------------------------------------------------------ R3 refresh + order flag
M('c02-add-sink-no-refresh', 'C02', 'R3', APP,
  """        self._sinks.insert(0, (prefix, sink, True))
        self._update_sink_and_static_routes()
""", """        self._sinks.insert(0, (prefix, sink, True))
""")
M('c02-add-static-refresh-before-insert', 'C02', 'R3', APP,
  """        self._static_routes.insert(0, (sr, sr, False))
        self._update_sink_and_static_routes()
""", """        self._update_sink_and_static_routes()
        self._static_routes.insert(0, (sr, sr, False))
""")
M('c02-add-static-refresh-conditional', 'C02', 'R3', APP,
  """        self._static_routes.insert(0, (sr, sr, False))
        self._update_sink_and_static_routes()
""", """        self._static_routes.insert(0, (sr, sr, False))
        if self._sinks:
            self._update_sink_and_static_routes()
""")
M('c02-concatenation-swapped', 'C02', 'R3', APP,
  "self._sink_and_static_routes = tuple(self._sinks + self._static_routes)",
  "self._sink_and_static_routes = tuple(self._static_routes + self._sinks)")
M('c02-order-flag-inverted', 'C02', 'R3', APP,
  """    def _update_sink_and_static_routes(self) -> None:
        if self._sink_before_static_route:""", """    def _update_sink_and_static_routes(self) -> None:
        if not self._sink_before_static_route:""")
M('c02-order-flag-ignored', 'C02', 'R3', APP,
  "self._sink_before_static_route = sink_before_static_route", "self._sink_before_static_route = True")

# ------------------------------------------------------------------ R4 Allow computation
M2('c02-join-inside-closure', 'C02', 'R4', [
    {'file': RESP, 'old': "    allowed = ', '.join(allowed_methods)\n", 'new': ""},
    {'file': RESP, 'old': "resp.set_header('Allow', allowed)", 'new': "resp.set_header('Allow', ', '.join(allowed_methods))", 'count': 2},
])
M('c02-options-appended-before-factory', 'C02', 'R4', UTIL,
  """        opt_responder = responders.create_default_options(allowed_methods, asgi=asgi)
        method_map['OPTIONS'] = opt_responder  # type: ignore[assignment]
        allowed_methods.append('OPTIONS')
""", """        allowed_methods.append('OPTIONS')
        opt_responder = responders.create_default_options(allowed_methods, asgi=asgi)
        method_map['OPTIONS'] = opt_responder  # type: ignore[assignment]
""")
M('c02-options-never-appended', 'C02', 'R4', UTIL,
  "        allowed_methods.append('OPTIONS')\n", "")
M('c02-options-appended-unconditionally', 'C02', 'R4', UTIL,
  """        allowed_methods.append('OPTIONS')

    na_responder""", """    allowed_methods.append('OPTIONS')

    na_responder""")
M('c02-meta-methods-in-allow', 'C02', 'R4', UTIL,
  "m for m in sorted(list(method_map.keys())) if m not in constants._META_METHODS", "m for m in sorted(list(method_map.keys()))")
M('c02-405-overwrites-implemented', 'C02', 'R4', UTIL,
  """        if method not in method_map:
            method_map[method] = na_responder""", """        if method != 'OPTIONS':
            method_map[method] = na_responder""")
M('c02-auto-options-not-installed', 'C02', 'R4', UTIL,
  "        method_map['OPTIONS'] = opt_responder  # type: ignore[assignment]\n", "")
M('c02-async-405-empty-allow', 'C02', 'R4', RESP,
  """        ) -> NoReturn:
            raise HTTPMethodNotAllowed(allowed_methods)

        return method_not_allowed_responder_async
""", """        ) -> NoReturn:
            raise HTTPMethodNotAllowed(())

        return method_not_allowed_responder_async
""")
M('c02-405-factories-swapped', 'C02', 'R4', RESP,
  """    if asgi:

        async def method_not_allowed_responder_async(""", """    if not asgi:

        async def method_not_allowed_responder_async(""")
M('c02-sync-options-204', 'C02', 'R4', RESP,
  """    def options_responder(req: Request, resp: Response, **kwargs: Any) -> None:
        resp.status = HTTP_200
""", """    def options_responder(req: Request, resp: Response, **kwargs: Any) -> None:
        resp.status = '204 No Content'
""")
M('c02-405-class-wrong-status', 'C02', 'R4', ERR,
  """        headers['Allow'] = ', '.join(allowed_methods)
        super().__init__(
            status.HTTP_405,""", """        headers['Allow'] = ', '.join(allowed_methods)
        super().__init__(
            status.HTTP_400,""", also=('C04', 'C17'))
M('c02-405-class-drops-allow', 'C02', 'R4', ERR,
  """        headers['Allow'] = ', '.join(allowed_methods)
        super().__init__(
            status.HTTP_405,
            title=title,
            description=description,
            headers=headers,""", """        headers['Allow'] = ', '.join(allowed_methods)
        super().__init__(
            status.HTTP_405,
            title=title,
            description=description,
            headers=None,""")

# ------------------------------------------------------------------ R5 suffix and kwargs
M('c02-suffix-not-applied', 'C02', 'R5', UTIL,
  "                responder_name += '_' + suffix\n", "                pass\n")
M('c02-suffix-falls-back-to-plain', 'C02', 'R5', UTIL,
  "            responder = getattr(resource, responder_name)\n",
  "            responder = getattr(resource, responder_name, None) or getattr(resource, 'on_' + method.lower())\n")
M('c02-suffix-only-for-get', 'C02', 'R5', UTIL,
  "            if suffix:\n                responder_name += '_' + suffix\n",
  "            if suffix and method == 'GET':\n                responder_name += '_' + suffix\n")
M('c02-groupdict-on-static-branch', 'C02', 'R5', APP,
  "                    if is_sink:\n                        params = m.groupdict()",
  "                    if not is_sink:\n                        params = m.groupdict()")
M('c02-groupdict-only-with-prior-params', 'C02', 'R5', APP,
  "                    if is_sink:\n                        params = m.groupdict()",
  "                    if is_sink and params:\n                        params = m.groupdict()")
M('c02-wsgi-responder-without-params', 'C02', 'R5', APP,
  "                    responder(req, resp, **params)", "                    responder(req, resp)")
M('c02-asgi-params-rebound', 'C02', 'R5', ASGI,
  """                responder, params, resource, req.uri_template = self._get_responder(req)  # type: ignore[assignment]
""", """                responder, params, resource, req.uri_template = self._get_responder(req)  # type: ignore[assignment]
                params = dict.fromkeys(params)
""")

# ------------------------------------------------------------------ R6 meta methods
M2('c02-meta-test-after-request-middleware', 'C02', 'R6', [
    {'file': APP, 'old': """            if req.method in self._META_METHODS:
                raise HTTPBadRequest()

""", 'new': ""},
    {'file': APP, 'old': """                        dependent_mw_resp_stack.insert(0, process_response)  # type: ignore[arg-type]

            if not resp.complete:
""", 'new': """                        dependent_mw_resp_stack.insert(0, process_response)  # type: ignore[arg-type]

            if req.method in self._META_METHODS:
                raise HTTPBadRequest()

            if not resp.complete:
"""},
    {'file': ASGI, 'old': """            if req.method in self._META_METHODS:
                raise HTTPBadRequest()

""", 'new': ""},
    {'file': ASGI, 'old': """                        dependent_mw_resp_stack.insert(0, process_response)

            if not resp.complete:
""", 'new': """                        dependent_mw_resp_stack.insert(0, process_response)

            if req.method in self._META_METHODS:
                raise HTTPBadRequest()

            if not resp.complete:
"""}])
M('c02-asgi-meta-not-rejected', 'C02', 'R6', ASGI,
  """            if req.method in self._META_METHODS:
                raise HTTPBadRequest()
""", """            if req.method in self._META_METHODS:
                resp.complete = False
""", also=('C03',))
M('c02-wsgi-meta-only-when-independent', 'C02', 'R6', APP,
  """            if req.method in self._META_METHODS:
                raise HTTPBadRequest()

            # NOTE(ealogar): The execution of request middleware
            # should be before routing. This will allow request mw
            # to modify the path.
            # NOTE: if flag set to use independent middleware, execute
            # request middleware independently. Otherwise, only queue
            # response middleware after request middleware succeeds.
            if self._independent_middleware:
""", """            # NOTE(ealogar): The execution of request middleware
            # should be before routing. This will allow request mw
            # to modify the path.
            # NOTE: if flag set to use independent middleware, execute
            # request middleware independently. Otherwise, only queue
            # response middleware after request middleware succeeds.
            if self._independent_middleware:
                if req.method in self._META_METHODS:
                    raise HTTPBadRequest()
""", also=('C03',))
M('c02-meta-set-emptied', 'C02', 'R6', APP,
  "_META_METHODS: ClassVar[FrozenSet[str]] = frozenset(constants._META_METHODS)",
  "_META_METHODS: ClassVar[FrozenSet[str]] = frozenset()")

M2('c02-static-bare-prefix-before-normalisation', 'C02', 'R7', [
    {'file': 'falcon/routing/static.py', 'old': """        if not prefix.endswith('/'):
            prefix += '/'

        self._prefix = prefix
""", 'new': """        self._bare_prefix = prefix
        if not prefix.endswith('/'):
            prefix += '/'

        self._prefix = prefix
"""},
    {'file': 'falcon/routing/static.py', 'old': "path == self._prefix[:-1]", 'new': "path == self._bare_prefix"}])

# ---- wave 5
M2('c02-meta-guard-moved-to-routed-branch', 'C02', 'R6', [
    {'file': 'falcon/app.py', 'old': """            if req.method in self._META_METHODS:
                raise HTTPBadRequest()

""", 'new': ""},
    {'file': 'falcon/asgi/app.py', 'old': """            if req.method in self._META_METHODS:
                raise HTTPBadRequest()

""", 'new': ""},
    {'file': 'falcon/app.py', 'old': """                responder = self.__class__._default_responder_bad_request
        else:
            params = {}
""", 'new': """                responder = self.__class__._default_responder_bad_request
            else:
                if method in self._META_METHODS and not req.is_websocket:
                    responder = self.__class__._default_responder_bad_request
        else:
            params = {}
"""}])

# ---- wave 6
# R2: every normal return of the registration functions has inserted the new entry
M('c02-static-skips-exact-duplicate', 'C02', 'R2', APP,
  """        self._static_routes.insert(0, (sr, sr, False))
""", """        if any(vars(route) == vars(sr) for route, _, _ in self._static_routes):
            return

        self._static_routes.insert(0, (sr, sr, False))
""")
M('c02-sink-skips-registered-pattern', 'C02', 'R2', APP,
  """        self._sinks.insert(0, (prefix, sink, True))
""", """        for pattern, registered, _ in self._sinks:
            if pattern.pattern == prefix.pattern and registered is sink:
                return
        self._sinks.insert(0, (prefix, sink, True))
""")
M('c02-static-insert-only-when-absent', 'C02', 'R2', APP,
  """        self._static_routes.insert(0, (sr, sr, False))
""", """        if not any(route._prefix == sr._prefix and route._directory == sr._directory for route, _, _ in self._static_routes):
            self._static_routes.insert(0, (sr, sr, False))
""")

# R7: match() decides on the raw request path
STATIC = 'falcon/routing/static.py'
M2('c02-static-match-pathlib', 'C02', 'R7', [
    {'file': STATIC, 'old': "from pathlib import Path\n", 'new': "from pathlib import Path\nfrom pathlib import PurePosixPath\n"},
    {'file': STATIC, 'old': "        return path.startswith(self._prefix) or path == self._prefix[:-1]\n",
     'new': "        route, requested = PurePosixPath(self._prefix), PurePosixPath(path)\n"
            "        return requested == route or route in requested.parents\n"}])
M('c02-static-match-collapses-leading-slashes', 'C02', 'R7', STATIC,
  "        return path.startswith(self._prefix) or path == self._prefix[:-1]\n",
  "        path = '/' + path.lstrip('/')\n"
  "        return path.startswith(self._prefix) or path == self._prefix[:-1]\n")
M('c02-static-match-normpath', 'C02', 'R7', STATIC,
  """        if self._fallback_filename is None:
            return path.startswith(self._prefix)
""", """        if self._fallback_filename is None:
            return (os.path.normpath(path) + '/').startswith(self._prefix)
""")
M('c02-static-match-case-insensitive', 'C02', 'R7', STATIC,
  """        if self._fallback_filename is None:
            return path.startswith(self._prefix)
""", """        if self._fallback_filename is None:
            return path.lower().startswith(self._prefix.lower())
""")
M('c02-static-match-bare-prefix-without-fallback', 'C02', 'R7', STATIC,
  """        if self._fallback_filename is None:
            return path.startswith(self._prefix)
""", """        if self._fallback_filename is None:
            return path.startswith(self._prefix) or path == self._prefix[:-1]
""")

# ---- wave 7
COMPILED = 'falcon/routing/compiled.py'
# R8 (shared with C01 R10): a finder kept across an accepted add_route() hides the new route behind the fallbacks
M2('c02-finder-kept-when-no-new-node', 'C02', 'R8', [
    {'file': COMPILED, 'old': """        def insert(nodes: List[CompiledRouterNode], path_index: int = 0) -> None:
            for node in nodes:
""", 'new': """        new_nodes: List[CompiledRouterNode] = []

        def insert(nodes: List[CompiledRouterNode], path_index: int = 0) -> None:
            for node in nodes:
"""},
    {'file': COMPILED, 'old': """            nodes.append(new_node)
            if path_index == len(path) - 1:
""", 'new': """            nodes.append(new_node)
            new_nodes.append(new_node)
            if path_index == len(path) - 1:
"""},
    {'file': COMPILED, 'old': """        else:
            self._find = self._compile_and_find
""", 'new': """        elif new_nodes:
            self._find = self._compile_and_find
"""}], also=('C01',))
M('c02-finder-kept-for-single-segment-templates', 'C02', 'R8', COMPILED,
  """        else:
            self._find = self._compile_and_find
""", """        elif len(path) > 1:
            self._find = self._compile_and_find
""", also=('C01',))

# R2: registration never removes an existing entry
M('c02-static-purges-same-prefix', 'C02', 'R2', APP,
  """        self._static_routes.insert(0, (sr, sr, False))
""", """        self._static_routes = [
            entry for entry in self._static_routes if entry[0]._prefix != sr._prefix
        ]
        self._static_routes.insert(0, (sr, sr, False))
""")
M('c02-sink-purges-same-pattern-in-place', 'C02', 'R2', APP,
  """        self._sinks.insert(0, (prefix, sink, True))
""", """        self._sinks[:] = [s for s in self._sinks if s[0].pattern != prefix.pattern]
        self._sinks.insert(0, (prefix, sink, True))
""")
M('c02-static-removes-shadowed-in-loop', 'C02', 'R2', APP,
  """        self._static_routes.insert(0, (sr, sr, False))
""", """        for entry in list(self._static_routes):
            if entry[0]._prefix.startswith(sr._prefix):
                self._static_routes.remove(entry)
        self._static_routes.insert(0, (sr, sr, False))
""")
M('c02-sink-history-capped', 'C02', 'R2', APP,
  """        self._sinks.insert(0, (prefix, sink, True))
""", """        self._sinks.insert(0, (prefix, sink, True))
        del self._sinks[16:]
""")

# R2 / R3: the rebuild of the combined table, read by abstract evaluation
M('c02-rebuild-reverse-whole-table', 'C02', 'R2', APP,
  """        if self._sink_before_static_route:
            self._sink_and_static_routes = tuple(self._sinks + self._static_routes)  # type: ignore[operator]
        else:
            self._sink_and_static_routes = tuple(self._static_routes + self._sinks)  # type: ignore[operator]
""", """        routes = self._sinks + self._static_routes  # type: ignore[operator]
        if not self._sink_before_static_route:
            routes.reverse()
        self._sink_and_static_routes = tuple(routes)
""")
M('c02-rebuild-slice-reverse-in-default-mode', 'C02', 'R2', APP,
  """        if self._sink_before_static_route:
            self._sink_and_static_routes = tuple(self._sinks + self._static_routes)  # type: ignore[operator]
        else:
            self._sink_and_static_routes = tuple(self._static_routes + self._sinks)  # type: ignore[operator]
""", """        routes = self._static_routes + self._sinks  # type: ignore[operator]
        if self._sink_before_static_route:
            routes = routes[::-1]
        self._sink_and_static_routes = tuple(routes)
""")
M('c02-rebuild-extends-the-static-list-in-place', 'C02', 'R2', APP,
  """        else:
            self._sink_and_static_routes = tuple(self._static_routes + self._sinks)  # type: ignore[operator]
""", """        else:
            routes = self._static_routes
            routes += self._sinks  # type: ignore[arg-type]
            self._sink_and_static_routes = tuple(routes)
""")
M('c02-rebuild-pair-selected-by-inverted-option', 'C02', 'R3', APP,
  """        if self._sink_before_static_route:
            self._sink_and_static_routes = tuple(self._sinks + self._static_routes)  # type: ignore[operator]
        else:
            self._sink_and_static_routes = tuple(self._static_routes + self._sinks)  # type: ignore[operator]
""", """        first, second = (
            (self._static_routes, self._sinks)
            if self._sink_before_static_route
            else (self._sinks, self._static_routes)
        )
        self._sink_and_static_routes = tuple(first + second)  # type: ignore[operator]
""")
M('c02-rebuild-drops-sinks-when-static-first', 'C02', 'R3', APP,
  """        else:
            self._sink_and_static_routes = tuple(self._static_routes + self._sinks)  # type: ignore[operator]
""", """        else:
            self._sink_and_static_routes = tuple(self._static_routes + self._sinks[1:])  # type: ignore[operator]
""")

# ---- wave 8
# R5: a sink's kwargs are exactly <match>.groupdict() (evaluated on sample groupdict() results)
M('c02-sink-kwargs-drop-unmatched-groups', 'C02', 'R5', APP,
  "                        params = m.groupdict()  # type: ignore[union-attr]\n",
  """                        params = {
                            name: value
                            for name, value in m.groupdict().items()  # type: ignore[union-attr]
                            if value is not None
                        }
""")
M('c02-sink-kwargs-drop-falsy-groups-afterwards', 'C02', 'R5', APP,
  "                        params = m.groupdict()  # type: ignore[union-attr]\n",
  """                        params = m.groupdict()  # type: ignore[union-attr]
                        params = {k: v for k, v in params.items() if v}
""")
M('c02-sink-kwargs-default-empty-string', 'C02', 'R5', APP,
  "                        params = m.groupdict()  # type: ignore[union-attr]\n",
  "                        params = m.groupdict('')  # type: ignore[union-attr]\n")

# R9 the flavour flag of the default-responder helpers (sa-am02608)
M('c02-set-default-responders-defaults-to-asgi', 'C02', 'R9', 'falcon/routing/util.py',
  "def set_default_responders(method_map: MethodDict, asgi: bool = False) -> None:",
  "def set_default_responders(method_map: MethodDict, asgi: bool = True) -> None:")
M('c02-405-factory-defaults-to-asgi', 'C02', 'R9', 'falcon/responders.py',
  "def create_method_not_allowed(\n    allowed_methods: Iterable[str], asgi: bool = False\n",
  "def create_method_not_allowed(\n    allowed_methods: Iterable[str], asgi: bool = True\n")
M('c02-options-factory-called-without-flag', 'C02', 'R9', 'falcon/routing/util.py',
  "responders.create_default_options(allowed_methods, asgi=asgi)", "responders.create_default_options(allowed_methods)")
M('c02-405-factory-called-with-negated-flag', 'C02', 'R9', 'falcon/routing/util.py',
  "responders.create_method_not_allowed(allowed_methods, asgi=asgi)", "responders.create_method_not_allowed(allowed_methods, asgi=not asgi)")
M('c02-router-relies-on-default-flavour', 'C02', 'R9', 'falcon/routing/compiled.py',
  "        set_default_responders(method_map, asgi=asgi)\n", "        set_default_responders(method_map)\n", also=('C16',))
# negative controls (exit 0): flag passed positionally; default spelled `bool(0)`-free constant `0`; the flag without a default;
# parameter renamed consistently

# R4: the 405 closures may read the class through an alias bound once in the factory and the method list through a list()/tuple()
# copy taken there (negative control, exit 0: `error_cls = HTTPMethodNotAllowed; allowed = list(allowed_methods)` in the factory,
# `raise error_cls(allowed)` in both responders; also tuple(...), and `HTTPMethodNotAllowed(list(allowed_methods))` in the closure).
# Still reported: an alias of another class, an alias rebound on a branch, an empty copy, and the shared exception INSTANCE
# built in the factory (seed s8-c19-1: `error = HTTPMethodNotAllowed(allowed_methods)` ... `raise error`).
M2('c02-405-class-alias-of-another-error', 'C02', 'R4', [
    {'file': 'falcon/responders.py',
     'old': "    if asgi:\n\n        async def method_not_allowed_responder_async(",
     'new': "    error_cls = HTTPNotFound\n\n    if asgi:\n\n        async def method_not_allowed_responder_async("},
    {'file': 'falcon/responders.py',
     'old': "            raise HTTPMethodNotAllowed(allowed_methods)\n\n        return method_not_allowed_responder_async",
     'new': "            raise error_cls(allowed_methods)\n\n        return method_not_allowed_responder_async"},
    {'file': 'falcon/responders.py',
     'old': "        raise HTTPMethodNotAllowed(allowed_methods)\n\n    return method_not_allowed\n",
     'new': "        raise error_cls(allowed_methods)\n\n    return method_not_allowed\n"}])
M2('c02-405-list-copy-of-nothing', 'C02', 'R4', [
    {'file': 'falcon/responders.py',
     'old': "    if asgi:\n\n        async def method_not_allowed_responder_async(",
     'new': "    allowed = list()\n\n    if asgi:\n\n        async def method_not_allowed_responder_async("},
    {'file': 'falcon/responders.py',
     'old': "            raise HTTPMethodNotAllowed(allowed_methods)\n\n        return method_not_allowed_responder_async",
     'new': "            raise HTTPMethodNotAllowed(allowed)\n\n        return method_not_allowed_responder_async"},
    {'file': 'falcon/responders.py',
     'old': "        raise HTTPMethodNotAllowed(allowed_methods)\n\n    return method_not_allowed\n",
     'new': "        raise HTTPMethodNotAllowed(allowed)\n\n    return method_not_allowed\n"}])

# ------------------------------------------------------------------ wave 9
# R10 every default responder is (req, resp, **kwargs) (s9-c02-1, s9-c02-2)
M('c02-options-responder-binds-allowed-as-parameter', 'C02', 'R10', RESP,
  "    def options_responder(req: Request, resp: Response, **kwargs: Any) -> None:\n",
  "    def options_responder(\n        req: Request, resp: Response, allowed: str = allowed, **kwargs: Any\n    ) -> None:\n")
M('c02-405-responder-keyword-only-default', 'C02', 'R10', RESP,
  "    def method_not_allowed(req: Request, resp: Response, **kwargs: Any) -> NoReturn:\n",
  "    def method_not_allowed(\n        req: Request, resp: Response, *, allowed_methods: Any = allowed_methods, **kwargs: Any\n    ) -> NoReturn:\n")
M('c02-bad-request-async-without-kwargs', 'C02', 'R10', RESP,
  "async def bad_request_async(req: Request, resp: Response, **kwargs: Any) -> NoReturn:\n",
  "async def bad_request_async(req: AsgiRequest, resp: AsgiResponse) -> NoReturn:\n")
M('c02-not-found-without-kwargs', 'C02', 'R10', RESP,
  "def path_not_found(req: Request, resp: Response, **kwargs: Any) -> NoReturn:\n",
  "def path_not_found(req: Request, resp: Response) -> NoReturn:\n")
M('c02-options-async-without-kwargs', 'C02', 'R10', RESP,
  "            req: AsgiRequest, resp: AsgiResponse, **kwargs: Any\n        ) -> None:\n",
  "            req: AsgiRequest, resp: AsgiResponse\n        ) -> None:\n")
# negative controls (exit 0): `(req, resp, /, **params)`; `(*args, **kwargs)`

# R11 the 404 / 400 defaults raise their error on every request (s9-c02-3)
PNF_A = ("async def path_not_found_async(req: Request, resp: Response, **kwargs: Any) -> NoReturn:\n"
         "    \"\"\"Raise 404 HTTPRouteNotFound error.\"\"\"\n")
M('c02-not-found-async-400-for-unknown-methods', 'C02', None, RESP, PNF_A,
  PNF_A + "    if req.method not in ('GET', 'HEAD', 'POST', 'PUT', 'DELETE', 'PATCH', 'OPTIONS'):\n"
          "        await bad_request_async(req, resp, **kwargs)\n\n")
M('c02-not-found-async-returns-for-options', 'C02', None, RESP, PNF_A,
  PNF_A + "    if req.method == 'OPTIONS':\n        return\n\n")
M('c02-bad-request-404-for-get', 'C02', 'R11', RESP,
  "    \"\"\"Raise 400 HTTPBadRequest error.\"\"\"\n    raise HTTPBadRequest(title='Bad request', description='Invalid HTTP method')\n\n\nasync",
  "    \"\"\"Raise 400 HTTPBadRequest error.\"\"\"\n    if req.method == 'GET':\n        raise HTTPRouteNotFound()\n"
  "    raise HTTPBadRequest(title='Bad request', description='Invalid HTTP method')\n\n\nasync")
# negative controls (exit 0): `exc = HTTPRouteNotFound(); raise exc`; the async twin delegating to path_not_found(req, resp, **kwargs);
# a request-dependent branch whose arms both raise HTTPRouteNotFound

# R5 (wave 10 / k1-c02-2): the responder name is evaluated through locals bound on the path (also a hoisted conditional-expression local)
M('c02-inline-suffix-wrong-separator', 'C02', 'R5', UTIL,
  "            responder_name = 'on_' + method.lower()\n            if suffix:\n                responder_name += '_' + suffix\n",
  "            responder_name = 'on_' + method.lower() + ('.' + suffix if suffix else '')\n")
M2('c02-hoisted-suffix-inverted-test', 'C02', 'R5', [
    {'file': UTIL, 'old': "    method_map = {}\n\n    for method in constants.COMBINED_METHODS:",
     'new': "    method_map = {}\n    name_suffix = '' if suffix else '_' + suffix\n\n    for method in constants.COMBINED_METHODS:"},
    {'file': UTIL, 'old': "            responder_name = 'on_' + method.lower()\n            if suffix:\n                responder_name += '_' + suffix\n\n"
                          "            responder = getattr(resource, responder_name)\n",
     'new': "            responder = getattr(resource, 'on_' + method.lower() + name_suffix)\n"}])
M('c02-suffix-fstring-dropped', 'C02', 'R5', UTIL,
  "            if suffix:\n                responder_name += '_' + suffix\n",
  "            if suffix:\n                responder_name = f'{responder_name}'\n")
# negative controls (exit 0): k1-c02-2 (name_suffix = '_' + suffix if suffix else '' hoisted, name built inline);
# f'on_{method.lower()}_{suffix}' under `if suffix:`; 'on_{}_{}'.format(method.lower(), suffix); 'on_%s_%s' % (method.lower(), suffix)

# R4 (s10-c02-1): the value the 405 closures keep is a materialised sequence on every path
ALLOW_COMP = ("    allowed_methods = [\n        m for m in sorted(list(method_map.keys())) if m not in constants._META_METHODS\n    ]\n")
M2('c02-allow-generator-materialised-on-one-branch', 'C02', 'R4', [
    {'file': UTIL, 'old': ALLOW_COMP,
     'new': "    allowed_methods = (\n        m for m in sorted(method_map) if m not in constants._META_METHODS\n    )\n"},
    {'file': UTIL, 'old': "        opt_responder = responders.create_default_options(allowed_methods, asgi=asgi)\n",
     'new': "        allowed_methods = list(allowed_methods)\n        opt_responder = responders.create_default_options(allowed_methods, asgi=asgi)\n"}])
M('c02-allow-iter-when-options-implemented', 'C02', 'R4', UTIL,
  "        allowed_methods.append('OPTIONS')\n",
  "        allowed_methods.append('OPTIONS')\n    else:\n        allowed_methods = iter(allowed_methods)\n")
# negative controls (exit 0): tuple(...) / sorted(...) of the comprehension; a generator expression re-bound by list(...) before the `if`;
# a generator handed to a factory that takes `allowed_methods = tuple(allowed_methods)` once in its own body

# R4 (k2-c02-2): the Allow list built by a package-level one-return helper handed the method map is read through the helper
M2('c02-allow-helper-keeps-meta-methods', 'C02', 'R4', [
    {'file': UTIL, 'old': ALLOW_COMP, 'new': "    allowed_methods = _implemented_http_methods(method_map)\n"},
    {'file': UTIL, 'old': "def set_default_responders(method_map: MethodDict, asgi: bool = False) -> None:\n",
     'new': "def _implemented_http_methods(method_map):\n    return [m for m in sorted(method_map)]\n\n\n"
            "def set_default_responders(method_map: MethodDict, asgi: bool = False) -> None:\n"}])
# negative control (exit 0): k2-c02-2 (the comprehension moved verbatim into the helper)

# R12 (s10-c02-3): a prefix that already is a pattern object is stored as it is
SINK_PREFIX = ("        if not hasattr(prefix, 'match'):\n            # Assume it is a string\n            prefix = re.compile(prefix)\n"
               "        else:\n            prefix = cast(Pattern[str], prefix)\n")
M('c02-sink-prefix-recompiled-from-pattern', 'C02', 'R12', APP, SINK_PREFIX,
  "        prefix = re.compile(getattr(prefix, 'pattern', prefix))\n")
M('c02-sink-prefix-recompiled-in-else', 'C02', 'R12', APP,
  "            prefix = cast(Pattern[str], prefix)\n", "            prefix = re.compile(prefix.pattern)\n")
M('c02-sink-prefix-always-compiled', 'C02', 'R12', APP, SINK_PREFIX,
  "        prefix = re.compile(prefix)\n")
M('c02-sink-str-prefix-never-compiled', 'C02', 'R12', APP, SINK_PREFIX, "        prefix = cast(Pattern[str], prefix)\n")
# negative controls (exit 0): `if isinstance(prefix, str): prefix = re.compile(prefix)`; `matcher = prefix if hasattr(prefix, 'match')
# else re.compile(prefix)`; entry bound to a local tuple first; the cast dropped


# ----------------------------------------------------------------------
# wave k3 (behaviour-preserving patches): for every repaired false alarm / unread shape a "refactoring + break" operator --
# the rewrite the rule now reads (silent on its own, see the negative controls in DESIGN 7.x / the fixer report) combined with a break.
# k3-c02-1 (early returns instead of for/else) + the no-match return hands back the 400 default
M2('c02-k3-early-returns-no-match-is-400', 'C02', 'R1', [
    {'file': 'falcon/app.py',
     'old': '        else:\n            params = {}\n\n            for matcher, obj, is_sink in self._sink_and_static_routes:\n                m = matcher.match(path)\n                if m:\n                    if is_sink:\n                        params = m.groupdict()  # type: ignore[union-attr]\n                    responder = obj\n\n                    break\n            else:\n                responder = self.__class__._default_responder_path_not_found\n\n        return (responder, params, resource, uri_template)\n',
     'new': '\n            return (responder, params, resource, uri_template)\n\n        for matcher, obj, is_sink in self._sink_and_static_routes:\n            m = matcher.match(path)\n            if m:\n                if is_sink:\n                    return (obj, m.groupdict(), None, uri_template)\n\n                return (obj, {}, None, uri_template)\n\n        responder = self.__class__._default_responder_bad_request\n        return (responder, {}, None, uri_template)\n'},
])
# k3-c02-1 + the static-route return dedented out of `if m:`
M2('c02-k3-early-returns-static-selected-unmatched', 'C02', 'R1', [
    {'file': 'falcon/app.py',
     'old': '        else:\n            params = {}\n\n            for matcher, obj, is_sink in self._sink_and_static_routes:\n                m = matcher.match(path)\n                if m:\n                    if is_sink:\n                        params = m.groupdict()  # type: ignore[union-attr]\n                    responder = obj\n\n                    break\n            else:\n                responder = self.__class__._default_responder_path_not_found\n\n        return (responder, params, resource, uri_template)\n',
     'new': '\n            return (responder, params, resource, uri_template)\n\n        for matcher, obj, is_sink in self._sink_and_static_routes:\n            m = matcher.match(path)\n            if m:\n                if is_sink:\n                    return (obj, m.groupdict(), None, uri_template)\n\n            return (obj, {}, None, uri_template)\n\n        responder = self.__class__._default_responder_path_not_found\n        return (responder, {}, None, uri_template)\n'},
])
# k3-c02-1 + the sink test inverted: groupdict() asked of a static route, sinks get {}
M2('c02-k3-early-returns-groupdict-on-static-branch', 'C02', 'R5', [
    {'file': 'falcon/app.py',
     'old': '        else:\n            params = {}\n\n            for matcher, obj, is_sink in self._sink_and_static_routes:\n                m = matcher.match(path)\n                if m:\n                    if is_sink:\n                        params = m.groupdict()  # type: ignore[union-attr]\n                    responder = obj\n\n                    break\n            else:\n                responder = self.__class__._default_responder_path_not_found\n\n        return (responder, params, resource, uri_template)\n',
     'new': '\n            return (responder, params, resource, uri_template)\n\n        for matcher, obj, is_sink in self._sink_and_static_routes:\n            m = matcher.match(path)\n            if m:\n                if not is_sink:\n                    return (obj, m.groupdict(), None, uri_template)\n\n                return (obj, {}, None, uri_template)\n\n        responder = self.__class__._default_responder_path_not_found\n        return (responder, {}, None, uri_template)\n'},
])
# k3-c02-1 + the matcher instead of the entry object is returned as responder
M2('c02-k3-early-returns-entry-matcher-returned', 'C02', 'R1', [
    {'file': 'falcon/app.py',
     'old': '        else:\n            params = {}\n\n            for matcher, obj, is_sink in self._sink_and_static_routes:\n                m = matcher.match(path)\n                if m:\n                    if is_sink:\n                        params = m.groupdict()  # type: ignore[union-attr]\n                    responder = obj\n\n                    break\n            else:\n                responder = self.__class__._default_responder_path_not_found\n\n        return (responder, params, resource, uri_template)\n',
     'new': '\n            return (responder, params, resource, uri_template)\n\n        for matcher, obj, is_sink in self._sink_and_static_routes:\n            m = matcher.match(path)\n            if m:\n                if is_sink:\n                    return (obj, m.groupdict(), None, uri_template)\n\n                return (matcher, {}, None, uri_template)\n\n        responder = self.__class__._default_responder_path_not_found\n        return (responder, {}, None, uri_template)\n'},
])
# k3-c02-2 (module-level _set_options_response helper) + append_header instead of set_header
M2('c02-k3-options-helper-appends-allow', 'C02', 'R4', [
    {'file': 'falcon/responders.py',
     'old': "    def options_responder(req: Request, resp: Response, **kwargs: Any) -> None:\n        resp.status = HTTP_200\n        resp.set_header('Allow', allowed)\n        resp.set_header('Content-Length', '0')\n",
     'new': '    def options_responder(req: Request, resp: Response, **kwargs: Any) -> None:\n        _set_options_response(resp, allowed)\n'},
    {'file': 'falcon/responders.py',
     'old': "        ) -> None:\n            resp.status = HTTP_200\n            resp.set_header('Allow', allowed)\n            resp.set_header('Content-Length', '0')\n",
     'new': '        ) -> None:\n            _set_options_response(resp, allowed)\n'},
    {'file': 'falcon/responders.py',
     'old': 'def create_default_options(\n',
     'new': "def _set_options_response(resp, allowed):\n    resp.status = HTTP_200\n    resp.append_header('Allow', allowed)\n    resp.set_header('Content-Length', '0')\n\n\ndef create_default_options(\n"},
])
# k3-c02-2 + the async closure hands (allowed, resp)
M2('c02-k3-options-helper-swapped-arguments', 'C02', 'R4', [
    {'file': 'falcon/responders.py',
     'old': "    def options_responder(req: Request, resp: Response, **kwargs: Any) -> None:\n        resp.status = HTTP_200\n        resp.set_header('Allow', allowed)\n        resp.set_header('Content-Length', '0')\n",
     'new': '    def options_responder(req: Request, resp: Response, **kwargs: Any) -> None:\n        _set_options_response(resp, allowed)\n'},
    {'file': 'falcon/responders.py',
     'old': "        ) -> None:\n            resp.status = HTTP_200\n            resp.set_header('Allow', allowed)\n            resp.set_header('Content-Length', '0')\n",
     'new': '        ) -> None:\n            _set_options_response(allowed, resp)\n'},
    {'file': 'falcon/responders.py',
     'old': 'def create_default_options(\n',
     'new': "def _set_options_response(resp, allowed):\n    resp.status = HTTP_200\n    resp.set_header('Allow', allowed)\n    resp.set_header('Content-Length', '0')\n\n\ndef create_default_options(\n"},
])
# k3-c02-2 + the helper forgets the Allow header
M2('c02-k3-options-helper-without-allow', 'C02', 'R4', [
    {'file': 'falcon/responders.py',
     'old': "    def options_responder(req: Request, resp: Response, **kwargs: Any) -> None:\n        resp.status = HTTP_200\n        resp.set_header('Allow', allowed)\n        resp.set_header('Content-Length', '0')\n",
     'new': '    def options_responder(req: Request, resp: Response, **kwargs: Any) -> None:\n        _set_options_response(resp, allowed)\n'},
    {'file': 'falcon/responders.py',
     'old': "        ) -> None:\n            resp.status = HTTP_200\n            resp.set_header('Allow', allowed)\n            resp.set_header('Content-Length', '0')\n",
     'new': '        ) -> None:\n            _set_options_response(resp, allowed)\n'},
    {'file': 'falcon/responders.py',
     'old': 'def create_default_options(\n',
     'new': "def _set_options_response(resp, allowed):\n    resp.status = HTTP_200\n    resp.set_header('Content-Length', '0')\n\n\ndef create_default_options(\n"},
])
# k3-c02-2 + the closures hand the live list, the helper joins at request time
M2('c02-k3-options-helper-joins-live-list', 'C02', 'R4', [
    {'file': 'falcon/responders.py',
     'old': "    def options_responder(req: Request, resp: Response, **kwargs: Any) -> None:\n        resp.status = HTTP_200\n        resp.set_header('Allow', allowed)\n        resp.set_header('Content-Length', '0')\n",
     'new': '    def options_responder(req: Request, resp: Response, **kwargs: Any) -> None:\n        _set_options_response(resp, allowed_methods)\n'},
    {'file': 'falcon/responders.py',
     'old': "        ) -> None:\n            resp.status = HTTP_200\n            resp.set_header('Allow', allowed)\n            resp.set_header('Content-Length', '0')\n",
     'new': '        ) -> None:\n            _set_options_response(resp, allowed_methods)\n'},
    {'file': 'falcon/responders.py',
     'old': 'def create_default_options(\n',
     'new': "def _set_options_response(resp, allowed):\n    resp.status = HTTP_200\n    resp.set_header('Allow', ', '.join(allowed))\n    resp.set_header('Content-Length', '0')\n\n\ndef create_default_options(\n"},
])
# bound-method alias match = matcher.match + a sink is selected without a match
M2('c02-match-alias-selected-unmatched', 'C02', 'R1', [
    {'file': 'falcon/app.py',
     'old': '                m = matcher.match(path)\n                if m:\n                    if is_sink:\n                        params = m.groupdict()  # type: ignore[union-attr]\n                    responder = obj\n\n                    break\n',
     'new': '                match = matcher.match\n                m = match(path)\n                if m or is_sink:\n                    if is_sink:\n                        params = m.groupdict()  # type: ignore[union-attr]\n                    responder = obj\n\n                    break\n'},
])
# method_map['OPTIONS'] = create_default_options(...) written directly + after the append
M2('c02-options-stored-directly-after-append', 'C02', 'R4', [
    {'file': 'falcon/routing/util.py',
     'old': "        opt_responder = responders.create_default_options(allowed_methods, asgi=asgi)\n        method_map['OPTIONS'] = opt_responder  # type: ignore[assignment]\n        allowed_methods.append('OPTIONS')\n",
     'new': "        allowed_methods.append('OPTIONS')\n        method_map['OPTIONS'] = responders.create_default_options(allowed_methods, asgi=asgi)  # type: ignore[assignment]\n"},
])
# direct store + under HEAD
M2('c02-options-stored-directly-wrong-key', 'C02', 'R4', [
    {'file': 'falcon/routing/util.py',
     'old': "        opt_responder = responders.create_default_options(allowed_methods, asgi=asgi)\n        method_map['OPTIONS'] = opt_responder  # type: ignore[assignment]\n",
     'new': "        method_map['HEAD'] = responders.create_default_options(allowed_methods, asgi=asgi)  # type: ignore[assignment]\n"},
])
# `if method in method_map: continue` guard clause + inverted
M2('c02-405-fill-guard-continue-inverted', 'C02', 'R4', [
    {'file': 'falcon/routing/util.py',
     'old': '        if method not in method_map:\n            method_map[method] = na_responder  # type: ignore[assignment]\n',
     'new': '        if method not in method_map:\n            continue\n\n        method_map[method] = na_responder  # type: ignore[assignment]\n'},
])
# setdefault() fill + wrong responder
M2('c02-405-setdefault-wrong-responder', 'C02', 'R4', [
    {'file': 'falcon/routing/util.py',
     'old': '        if method not in method_map:\n            method_map[method] = na_responder  # type: ignore[assignment]\n',
     'new': '        method_map.setdefault(method, responders.bad_request)  # type: ignore[arg-type]\n'},
])
# setdefault() fill + an unconditional store after it
M2('c02-405-setdefault-then-overwrite', 'C02', 'R4', [
    {'file': 'falcon/routing/util.py',
     'old': '        if method not in method_map:\n            method_map[method] = na_responder  # type: ignore[assignment]\n',
     'new': '        method_map.setdefault(method, na_responder)  # type: ignore[arg-type]\n        method_map[method] = na_responder\n'},
])
# meta = constants.<...> local alias + the WebDAV list instead of the meta methods
M2('c02-meta-alias-wrong-constant', 'C02', 'R4', [
    {'file': 'falcon/routing/util.py',
     'old': '    allowed_methods = [\n        m for m in sorted(list(method_map.keys())) if m not in constants._META_METHODS\n    ]\n',
     'new': '    meta = constants.WEBDAV_METHODS\n    allowed_methods = [m for m in sorted(method_map) if m not in meta]\n'},
])
# set_header = resp.<...> bound-method alias + append_header
M2('c02-options-set-header-alias-appends', 'C02', 'R4', [
    {'file': 'falcon/responders.py',
     'old': "    def options_responder(req: Request, resp: Response, **kwargs: Any) -> None:\n        resp.status = HTTP_200\n        resp.set_header('Allow', allowed)\n        resp.set_header('Content-Length', '0')\n",
     'new': "    def options_responder(req: Request, resp: Response, **kwargs: Any) -> None:\n        set_header = resp.append_header\n        resp.status = HTTP_200\n        set_header('Allow', allowed)\n        resp.set_header('Content-Length', '0')\n"},
])
# nested _fill(resp) helper shared by both closures + no Allow
M2('c02-options-nested-helper-without-allow', 'C02', 'R4', [
    {'file': 'falcon/responders.py',
     'old': "    def options_responder(req: Request, resp: Response, **kwargs: Any) -> None:\n        resp.status = HTTP_200\n        resp.set_header('Allow', allowed)\n        resp.set_header('Content-Length', '0')\n",
     'new': '    def options_responder(req: Request, resp: Response, **kwargs: Any) -> None:\n        _fill(resp)\n'},
    {'file': 'falcon/responders.py',
     'old': "        ) -> None:\n            resp.status = HTTP_200\n            resp.set_header('Allow', allowed)\n            resp.set_header('Content-Length', '0')\n",
     'new': '        ) -> None:\n            _fill(resp)\n'},
    {'file': 'falcon/responders.py',
     'old': "    allowed = ', '.join(allowed_methods)\n",
     'new': "    allowed = ', '.join(allowed_methods)\n\n    def _fill(resp: Any) -> None:\n        resp.status = HTTP_200\n        resp.set_header('Content-Length', '0')\n"},
])
# module-level _raise_method_not_allowed helper + raises with []
M2('c02-405-helper-empty-list', 'C02', 'R4', [
    {'file': 'falcon/responders.py',
     'old': '        ) -> NoReturn:\n            raise HTTPMethodNotAllowed(allowed_methods)\n',
     'new': '        ) -> NoReturn:\n            _raise_method_not_allowed(allowed_methods)\n'},
    {'file': 'falcon/responders.py',
     'old': '    def method_not_allowed(req: Request, resp: Response, **kwargs: Any) -> NoReturn:\n        raise HTTPMethodNotAllowed(allowed_methods)\n',
     'new': '    def method_not_allowed(req: Request, resp: Response, **kwargs: Any) -> NoReturn:\n        _raise_method_not_allowed(allowed_methods)\n'},
    {'file': 'falcon/responders.py',
     'old': 'def create_method_not_allowed(\n',
     'new': 'def _raise_method_not_allowed(allowed_methods: Iterable[str]) -> NoReturn:\n    raise HTTPMethodNotAllowed([])\n\n\ndef create_method_not_allowed(\n'},
])
# cls = self.__class__ alias + 400 default on no match
M2('c02-scan-alias-no-match-is-400', 'C02', 'R1', [
    {'file': 'falcon/app.py',
     'old': '            else:\n                responder = self.__class__._default_responder_path_not_found\n',
     'new': '            else:\n                cls = self.__class__\n                responder = cls._default_responder_bad_request\n'},
])
# sinks = self._sinks alias + append
M2('c02-add-sink-alias-append', 'C02', 'R2', [
    {'file': 'falcon/app.py',
     'old': '        self._sinks.insert(0, (prefix, sink, True))\n',
     'new': '        entry = (prefix, sink, True)\n        sinks = self._sinks\n        sinks.append(entry)\n'},
])
# sinks = self._sinks alias + refresh dropped
M2('c02-add-sink-alias-no-refresh', 'C02', 'R3', [
    {'file': 'falcon/app.py',
     'old': '        self._sinks.insert(0, (prefix, sink, True))\n        self._update_sink_and_static_routes()\n',
     'new': '        sinks = self._sinks\n        sinks.insert(0, (prefix, sink, True))\n'},
])
# scan extracted into a same-class method (tail call) + 400 default on no match
M2('c02-scan-method-helper-no-match-is-400', 'C02', 'R1', [
    {'file': 'falcon/app.py',
     'old': '        else:\n            params = {}\n\n            for matcher, obj, is_sink in self._sink_and_static_routes:\n                m = matcher.match(path)\n                if m:\n                    if is_sink:\n                        params = m.groupdict()  # type: ignore[union-attr]\n                    responder = obj\n\n                    break\n            else:\n                responder = self.__class__._default_responder_path_not_found\n\n        return (responder, params, resource, uri_template)\n',
     'new': '\n            return (responder, params, resource, uri_template)\n\n        return self._find_fallback(path, uri_template)\n\n    def _find_fallback(self, path, uri_template):\n        for matcher, obj, is_sink in self._sink_and_static_routes:\n            m = matcher.match(path)\n            if m:\n                if is_sink:\n                    return (obj, m.groupdict(), None, uri_template)\n\n                return (obj, {}, None, uri_template)\n\n        return (self.__class__._default_responder_bad_request, {}, None, uri_template)\n'},
])
# negative controls (exit 0): k3-c02-1, k3-c02-2 themselves; `match = matcher.match`; `cls = self.__class__` / `fallbacks = self._sink_and_static_routes`;
# the scan as a same-class method called in tail position; method_map['OPTIONS'] = create_default_options(...) before the append;
# `if method in method_map: continue`; method_map.setdefault(method, na_responder); `meta = constants._META_METHODS`;
# `set_header = resp.set_header`; a nested _fill(resp) shared by both OPTIONS closures; a module-level _raise_method_not_allowed(allowed_methods);
# `sinks = self._sinks; sinks.insert(0, entry)`


# wave k3, second round of pre-emptive rewrites (refactoring + break)
# method_map.get(method, <400 default>) instead of try/except KeyError + the default dropped (None responder)
M2('c02-get-default-missing', 'C02', 'R1', [
    {'file': 'falcon/app.py',
     'old': '            try:\n                responder = method_map[method]\n            except KeyError:\n                # NOTE(kgriffs): Dirty hack! We use __class__ here to avoid\n                #   binding self to the default responder method. We could\n                #   decorate the function itself with @staticmethod, but it\n                #   would perhaps be less obvious to the reader why this is\n                #   needed when just looking at the code in the reponder\n                #   module, so we just grab it directly here.\n                responder = self.__class__._default_responder_bad_request\n',
     'new': '            responder = method_map.get(method)\n'},
])
# .get() form + the 404 default for an unknown method of a matched route
M2('c02-get-default-is-404', 'C02', 'R1', [
    {'file': 'falcon/app.py',
     'old': '            try:\n                responder = method_map[method]\n            except KeyError:\n                # NOTE(kgriffs): Dirty hack! We use __class__ here to avoid\n                #   binding self to the default responder method. We could\n                #   decorate the function itself with @staticmethod, but it\n                #   would perhaps be less obvious to the reader why this is\n                #   needed when just looking at the code in the reponder\n                #   module, so we just grab it directly here.\n                responder = self.__class__._default_responder_bad_request\n',
     'new': '            responder = method_map.get(method, self.__class__._default_responder_path_not_found)\n'},
])
# params = m.groupdict() if is_sink else {} + arms swapped
M2('c02-params-ifexp-swapped', 'C02', 'R5', [
    {'file': 'falcon/app.py',
     'old': '                if m:\n                    if is_sink:\n                        params = m.groupdict()  # type: ignore[union-attr]\n                    responder = obj\n',
     'new': '                if m:\n                    params = {} if is_sink else m.groupdict()\n                    responder = obj\n'},
])
# resp.set_headers({...}) display + no Allow item
M2('c02-options-set-headers-without-allow', 'C02', 'R4', [
    {'file': 'falcon/responders.py',
     'old': "    def options_responder(req: Request, resp: Response, **kwargs: Any) -> None:\n        resp.status = HTTP_200\n        resp.set_header('Allow', allowed)\n        resp.set_header('Content-Length', '0')\n",
     'new': "    def options_responder(req: Request, resp: Response, **kwargs: Any) -> None:\n        resp.status = HTTP_200\n        resp.set_headers({'Content-Length': '0'})\n"},
    {'file': 'falcon/responders.py',
     'old': "        ) -> None:\n            resp.status = HTTP_200\n            resp.set_header('Allow', allowed)\n            resp.set_header('Content-Length', '0')\n",
     'new': "        ) -> None:\n            resp.status = HTTP_200\n            resp.set_headers({'Content-Length': '0'})\n"},
])
# set_headers display + Allow joined from the live list at request time
M2('c02-options-set-headers-live-list', 'C02', 'R4', [
    {'file': 'falcon/responders.py',
     'old': "    def options_responder(req: Request, resp: Response, **kwargs: Any) -> None:\n        resp.status = HTTP_200\n        resp.set_header('Allow', allowed)\n        resp.set_header('Content-Length', '0')\n",
     'new': "    def options_responder(req: Request, resp: Response, **kwargs: Any) -> None:\n        resp.status = HTTP_200\n        resp.set_headers({'Allow': ', '.join(allowed_methods), 'Content-Length': '0'})\n"},
    {'file': 'falcon/responders.py',
     'old': "        ) -> None:\n            resp.status = HTTP_200\n            resp.set_header('Allow', allowed)\n            resp.set_header('Content-Length', '0')\n",
     'new': "        ) -> None:\n            resp.status = HTTP_200\n            resp.set_headers({'Allow': ', '.join(allowed_methods), 'Content-Length': '0'})\n"},
])
# _OPTIONS = 'OPTIONS' module constant + appended before the OPTIONS responder is created
M2('c02-options-constant-appended-first', 'C02', 'R4', [
    {'file': 'falcon/routing/util.py',
     'old': "    if 'OPTIONS' not in method_map:\n",
     'new': '    if _OPTIONS not in method_map:\n'},
    {'file': 'falcon/routing/util.py',
     'old': "        opt_responder = responders.create_default_options(allowed_methods, asgi=asgi)\n        method_map['OPTIONS'] = opt_responder  # type: ignore[assignment]\n        allowed_methods.append('OPTIONS')\n",
     'new': '        allowed_methods.append(_OPTIONS)\n        opt_responder = responders.create_default_options(allowed_methods, asgi=asgi)\n        method_map[_OPTIONS] = opt_responder  # type: ignore[assignment]\n'},
    {'file': 'falcon/routing/util.py',
     'old': 'class SuffixedMethodNotFoundError(Exception):',
     'new': "_OPTIONS = 'OPTIONS'\n\n\nclass SuffixedMethodNotFoundError(Exception):"},
])
# for entry in table: matcher, obj, is_sink = entry + first two swapped
M2('c02-entry-unpacked-in-wrong-order', 'C02', 'R1', [
    {'file': 'falcon/app.py',
     'old': '            for matcher, obj, is_sink in self._sink_and_static_routes:\n                m = matcher.match(path)\n',
     'new': '            for entry in self._sink_and_static_routes:\n                obj, matcher, is_sink = entry\n                m = matcher.match(path)\n'},
])
# if (m := matcher.match(path)) + `or True`
M2('c02-walrus-match-not-tested', 'C02', 'R1', [
    {'file': 'falcon/app.py',
     'old': '                m = matcher.match(path)\n                if m:\n                    if is_sink:',
     'new': '                if (m := matcher.match(path)) or True:\n                    if is_sink:'},
])
# negative controls (exit 0): method_map.get(method, self.__class__._default_responder_bad_request); `params = m.groupdict() if is_sink else {}`;
# resp.set_headers({'Allow': allowed, 'Content-Length': '0'}); `_OPTIONS = 'OPTIONS'` used in the test / store / append;
# `for entry in table: matcher, obj, is_sink = entry`; `if m := matcher.match(path):`


# wave k3, third round of pre-emptive rewrites (refactoring + break)
# HTTPMethodNotAllowed(allowed_methods=...) keyword spelling + an empty list
M2('c02-405-keyword-empty-list', 'C02', 'R4', [
    {'file': 'falcon/responders.py',
     'old': '    def method_not_allowed(req: Request, resp: Response, **kwargs: Any) -> NoReturn:\n        raise HTTPMethodNotAllowed(allowed_methods)\n',
     'new': '    def method_not_allowed(req: Request, resp: Response, **kwargs: Any) -> NoReturn:\n        raise HTTPMethodNotAllowed(allowed_methods=[])\n'},
])
# keyword spelling + the list handed to another parameter
M2('c02-405-keyword-other-parameter', 'C02', 'R4', [
    {'file': 'falcon/responders.py',
     'old': '    def method_not_allowed(req: Request, resp: Response, **kwargs: Any) -> NoReturn:\n        raise HTTPMethodNotAllowed(allowed_methods)\n',
     'new': '    def method_not_allowed(req: Request, resp: Response, **kwargs: Any) -> NoReturn:\n        raise HTTPMethodNotAllowed(title=allowed_methods)\n'},
])
# `error = HTTPMethodNotAllowed(..); raise error` inside the closure + built from something else
M2('c02-405-error-local-wrong-list', 'C02', 'R4', [
    {'file': 'falcon/responders.py',
     'old': '    def method_not_allowed(req: Request, resp: Response, **kwargs: Any) -> NoReturn:\n        raise HTTPMethodNotAllowed(allowed_methods)\n',
     'new': '    def method_not_allowed(req: Request, resp: Response, **kwargs: Any) -> NoReturn:\n        error = HTTPMethodNotAllowed(list(kwargs))\n        raise error\n'},
])
# negative controls (exit 0): raise HTTPMethodNotAllowed(allowed_methods=allowed_methods); `error = HTTPMethodNotAllowed(allowed_methods); raise error`
# in the closure; `create = responders.create_method_not_allowed; create(allowed_methods, asgi=asgi)`

# ----------------------------------------------------------------------
# wave k4 (k4-c02-3): the tail of add_sink / add_static_route moved into a same-class helper that is HANDED the registration
# list (`self._push_fallback_entry(self._sinks, entry)` -> `registry.insert(0, entry); self._update_sink_and_static_routes()`);
# R2 / R3 / R12 read the helper in place, its parameter being the list (_registry_view).  Refactoring + break:
def _k4_push_helper(helper_body, sink_call='self._push_fallback_entry(self._sinks, (prefix, sink, True))',
                    static_call='self._push_fallback_entry(self._static_routes, (sr, sr, False))'):
    return [
        {'file': APP,
         'old': "        self._static_routes.insert(0, (sr, sr, False))\n        self._update_sink_and_static_routes()\n",
         'new': "        %s\n" % static_call},
        {'file': APP,
         'old': "        self._sinks.insert(0, (prefix, sink, True))\n        self._update_sink_and_static_routes()\n",
         'new': "        %s\n" % sink_call},
        {'file': APP,
         'old': "    def _update_sink_and_static_routes(self) -> None:\n",
         'new': "    def _push_fallback_entry(self, registry: List[Any], entry: Tuple[Any, ...]) -> None:\n"
                "        \"\"\"Register a sink or static route entry and refresh the dispatch order.\"\"\"\n"
                + helper_body +
                "\n    def _update_sink_and_static_routes(self) -> None:\n"},
    ]


_K4_REFRESH = "        self._update_sink_and_static_routes()\n"
M2('c02-k4-push-helper-appends', 'C02', 'R2', _k4_push_helper("        registry.append(entry)\n" + _K4_REFRESH))
M2('c02-k4-push-helper-inserts-second', 'C02', 'R2', _k4_push_helper("        registry.insert(1, entry)\n" + _K4_REFRESH))
M2('c02-k4-push-helper-stores-at-old-position', 'C02', 'R2', _k4_push_helper(
    "        for i, old in enumerate(registry):\n            if old[1] is entry[1]:\n                registry[i] = entry\n                break\n"
    "        else:\n            registry.insert(0, entry)\n" + _K4_REFRESH))
M2('c02-k4-push-helper-removes-equal-matchers', 'C02', 'R2', _k4_push_helper(
    "        for old in list(registry):\n            if old[0] == entry[0]:\n                registry.remove(old)\n"
    "        registry.insert(0, entry)\n" + _K4_REFRESH))
M2('c02-k4-push-helper-purges-in-place', 'C02', 'R2', _k4_push_helper(
    "        registry[:] = [old for old in registry if old[0] != entry[0]]\n        registry.insert(0, entry)\n" + _K4_REFRESH))
M2('c02-k4-push-helper-caps-history', 'C02', 'R2', _k4_push_helper(
    "        registry.insert(0, entry)\n        del registry[16:]\n" + _K4_REFRESH))
M2('c02-k4-push-helper-skips-registered', 'C02', 'R2', _k4_push_helper(
    "        if entry not in registry:\n            registry.insert(0, entry)\n" + _K4_REFRESH))
M2('c02-k4-push-helper-static-flagged-as-sink', 'C02', 'R2', _k4_push_helper(
    "        registry.insert(0, entry)\n" + _K4_REFRESH, static_call='self._push_fallback_entry(self._static_routes, (sr, sr, True))'))
M2('c02-k4-push-helper-no-refresh', 'C02', 'R3', _k4_push_helper("        registry.insert(0, entry)\n"))
M2('c02-k4-push-helper-refresh-before-insert', 'C02', 'R3', _k4_push_helper(_K4_REFRESH + "        registry.insert(0, entry)\n"))
M2('c02-k4-push-helper-sink-recompiled', 'C02', 'R12', _k4_push_helper(
    "        registry.insert(0, entry)\n" + _K4_REFRESH,
    sink_call='self._push_fallback_entry(self._sinks, (re.compile(prefix.pattern), sink, True))'))
# negative controls (exit 0): k4-c02-3 itself (_k4_push_helper("        registry.insert(0, entry)\n" + _K4_REFRESH)); the list handed by
# keyword (registry=self._sinks); `sinks = self._sinks; self._push_fallback_entry(sinks, entry)`; `return self._push_fallback_entry(...)`;
# a module-level `_push_fallback_entry(registry, entry)` that only inserts, the refresh left in the callers.
# exit 2 (not read, never silent): the helper re-binds `registry`, calls a method of self before it inserts, or lives in another class.

# C02 R4 (r4_allow) is also registered as C20 R6 (the preflight copies the same Allow value into
# Access-Control-Allow-Methods): every R4 operator legitimately fires there too.
from .mutants import MUTANTS as _ALL   # noqa: E402

for _m in _ALL:
    if _m['property'] == 'C02' and _m['rule'] == 'R4' and 'C20' not in _m['also']:
        _m['also'].append('C20')
