"""Mutation operators for C03."""

from .mutants import M, M2

# --------------------------------------------------------------------- C03
M('c03-wsgi-drop-complete-break', 'C03', 'R1', 'falcon/app.py',
  """                    process_request(req, resp)  # type: ignore[operator]
                    if resp.complete:
                        break
""", """                    process_request(req, resp)  # type: ignore[operator]
""")
M('c03-asgi-drop-complete-break', 'C03', 'R1', 'falcon/asgi/app.py',
  """                    await process_request(req, resp)  # type: ignore[operator]

                    if resp.complete:
                        break
""", """                    await process_request(req, resp)  # type: ignore[operator]
""")
M2('c03-both-drop-complete-break', 'C03', 'R2', [
    {'file': 'falcon/app.py', 'old': """                    process_request(req, resp)  # type: ignore[operator]
                    if resp.complete:
                        break
""", 'new': """                    process_request(req, resp)  # type: ignore[operator]
"""},
    {'file': 'falcon/asgi/app.py', 'old': """                    await process_request(req, resp)  # type: ignore[operator]

                    if resp.complete:
                        break
""", 'new': """                    await process_request(req, resp)  # type: ignore[operator]
"""}])
M('c03-wsgi-ok-before-responder', 'C03', None, 'falcon/app.py',
  """                if not resp.complete:
                    responder(req, resp, **params)

                req_succeeded = True
""", """                req_succeeded = True
                if not resp.complete:
                    responder(req, resp, **params)
""")
M('c03-asgi-dep-push-tail', 'C03', None, 'falcon/asgi/app.py',
  "dependent_mw_resp_stack.insert(0, process_response)", "dependent_mw_resp_stack.append(process_response)")
M('c03-prepare-response-append', 'C03', 'R3', 'falcon/app_helpers.py',
  "response_mw.insert(0, process_response)", "response_mw.append(process_response)")
M('c03-wsgi-presp-try-hoisted', 'C03', None, 'falcon/app.py',
  """        for process_response in mw_resp_stack or dependent_mw_resp_stack:
            try:
                process_response(req, resp, resource, req_succeeded)
            except Exception as ex:
                if not self._handle_exception(req, resp, ex, params):
                    raise

                req_succeeded = False
""", """        try:
            for process_response in mw_resp_stack or dependent_mw_resp_stack:
                process_response(req, resp, resource, req_succeeded)
        except Exception as ex:
            if not self._handle_exception(req, resp, ex, params):
                raise

            req_succeeded = False
""")
M('c03-asgi-presp-no-fail', 'C03', None, 'falcon/asgi/app.py',
  """                if not await self._handle_exception(req, resp, ex, params):
                    raise

                req_succeeded = False

        data: Optional[bytes] = b''
""", """                if not await self._handle_exception(req, resp, ex, params):
                    raise

        data: Optional[bytes] = b''
""")
M('c03-shutdown-forward', 'C03', 'R5', 'falcon/asgi/app.py',
  "for handler in reversed(self._unprepared_middleware):", "for handler in self._unprepared_middleware:")
M('c03-startup-failure-continues', 'C03', 'R5', 'falcon/asgi/app.py',
  """                                    'type': EventType.LIFESPAN_STARTUP_FAILED,
                                    'message': traceback.format_exc(),
                                }
                            )
                            return
""", """                                    'type': EventType.LIFESPAN_STARTUP_FAILED,
                                    'message': traceback.format_exc(),
                                }
                            )
""")
M('c03-after-hook-action-first', 'C03', 'R4', 'falcon/hooks.py',
  """            sync_responder(self, req, resp, **kwargs)
            sync_action(req, resp, self, *action_args, **action_kwargs)
""", """            sync_action(req, resp, self, *action_args, **action_kwargs)
            sync_responder(self, req, resp, **kwargs)
""")
M('c03-before-hook-async-swapped', 'C03', 'R4', 'falcon/hooks.py',
  """            await async_action(req, resp, self, kwargs, *action_args, **action_kwargs)
            await async_responder(self, req, resp, **kwargs)
""", """            await async_responder(self, req, resp, **kwargs)
            await async_action(req, resp, self, kwargs, *action_args, **action_kwargs)
""")
M('c03-wsgi-resource-mw-unguarded', 'C03', None, 'falcon/app.py',
  """                if resource:
                    # Call process_resource middleware methods.
                    for process_resource in mw_rsrc_stack:
                        process_resource(req, resp, resource, params)
                        if resp.complete:
                            break
""", """                if True:
                    # Call process_resource middleware methods.
                    for process_resource in mw_rsrc_stack:
                        process_resource(req, resp, resource, params)
                        if resp.complete:
                            break
""")

M('c03-add-middleware-prepends', 'C03', 'R6', 'falcon/app.py',
  "            self._unprepared_middleware += middleware  # type: ignore[arg-type]",
  "            self._unprepared_middleware = middleware + self._unprepared_middleware  # type: ignore[arg-type]")
M('c03-prepare-mode-constant', 'C03', 'R6', 'falcon/app.py',
  """            self._unprepared_middleware,
            independent_middleware=self._independent_middleware,
        )""", """            self._unprepared_middleware,
            independent_middleware=True,
        )""")
M('c03-asgi-prepare-drops-mode', 'C03', 'R6', 'falcon/asgi/app.py',
  """            middleware=middleware,
            independent_middleware=independent_middleware,
            asgi=True,""", """            middleware=middleware,
            asgi=True,""")

M('c03-class-hook-own-namespace-only', 'C03', 'R7', 'falcon/hooks.py',
  """            for responder_name, responder in getmembers(
                responder_or_resource, callable
            ):
                if _DECORABLE_METHOD_NAME.match(responder_name):
                    responder = cast('Responder', responder)
                    do_before_all""", """            for responder_name, responder in list(vars(responder_or_resource).items()):
                if callable(responder) and _DECORABLE_METHOD_NAME.match(responder_name):
                    responder = cast('Responder', responder)
                    do_before_all""")

# ---- wave 4
M('c03-wsgi-flag-computed-after-handled-exception', 'C03', 'R2', 'falcon/app.py',
  """            except Exception as ex:
                if not self._handle_exception(req, resp, ex, params):
                    raise

        # Call process_response middleware methods.
""", """            except Exception as ex:
                if not self._handle_exception(req, resp, ex, params):
                    raise

                req_succeeded = isinstance(ex, HTTPStatus)

        # Call process_response middleware methods.
""", also=('C20', 'C06'))
M('c03-lifespan-rollback-runs-shutdown-handlers', 'C03', 'R5', 'falcon/asgi/app.py',
  """                                    'type': EventType.LIFESPAN_STARTUP_FAILED,
                                    'message': traceback.format_exc(),
                                }
                            )
                            return
""", """                                    'type': EventType.LIFESPAN_STARTUP_FAILED,
                                    'message': traceback.format_exc(),
                                }
                            )
                            for other in reversed(self._unprepared_middleware):
                                if hasattr(other, 'process_shutdown'):
                                    await other.process_shutdown(scope, event)
                            return
""")
M2('c03-decorable-pattern-from-http-methods-only', 'C03', 'R8', [
    {'file': 'falcon/hooks.py', 'old': "from falcon.constants import COMBINED_METHODS", 'new': "from falcon.constants import HTTP_METHODS"},
    {'file': 'falcon/hooks.py', 'old': "'|'.join(method.lower() for method in COMBINED_METHODS)", 'new': "'|'.join(method.lower() for method in HTTP_METHODS)"}])

# ---- wave 5
M('c03-prepare-dependent-drops-response-only-components', 'C03', 'R3', 'falcon/app_helpers.py',
  """            if process_request or process_response:
                request_mw.append((process_request, process_response))  # type: ignore[arg-type]
""", """            if process_request:
                request_mw.append((process_request, process_response))  # type: ignore[arg-type]
""")
M('c03-prepare-independent-response-needs-request', 'C03', 'R3', 'falcon/app_helpers.py',
  """            if process_response:
                response_mw.insert(0, process_response)  # type: ignore[arg-type]
""", """            if process_response and process_request:
                response_mw.insert(0, process_response)  # type: ignore[arg-type]
""")
M('c03-prepare-resource-only-in-independent-mode', 'C03', 'R3', 'falcon/app_helpers.py',
  """        if process_resource:
            resource_mw.append(process_resource)  # type: ignore[arg-type]

    return tuple(request_mw), tuple(resource_mw), tuple(response_mw)""", """        if process_resource and independent_middleware:
            resource_mw.append(process_resource)  # type: ignore[arg-type]

    return tuple(request_mw), tuple(resource_mw), tuple(response_mw)""")
M2('c03-dependent-loop-breaks-on-complete', 'C03', 'R2', [
    {'file': 'falcon/app.py', 'old': """                    if process_response:
                        dependent_mw_resp_stack.insert(0, process_response)  # type: ignore[arg-type]
""", 'new': """                    if process_response:
                        dependent_mw_resp_stack.insert(0, process_response)  # type: ignore[arg-type]
                    if resp.complete:
                        break
"""},
    {'file': 'falcon/asgi/app.py', 'old': """                    if process_response:
                        dependent_mw_resp_stack.insert(0, process_response)
""", 'new': """                    if process_response:
                        dependent_mw_resp_stack.insert(0, process_response)
                    if resp.complete:
                        break
"""}], also=('C20', 'C06'))
M('c03-sink-reported-as-resource', 'C03', 'R9', 'falcon/app.py',
  """                    responder = obj

                    break
""", """                    responder = resource = obj

                    break
""")

# ---- wave 6
M('c03-before-filters-own-namespace', 'C03', 'R7', 'falcon/hooks.py',
  """                if _DECORABLE_METHOD_NAME.match(responder_name):
                    responder = cast('Responder', responder)
                    do_before_all = _wrap_with_before(responder, action, args, kwargs)
""", """                if responder_name in vars(responder_or_resource) and _DECORABLE_METHOD_NAME.match(responder_name):
                    responder = cast('Responder', responder)
                    do_before_all = _wrap_with_before(responder, action, args, kwargs)
""")
M('c03-add-middleware-dedupes-by-equality', 'C03', 'R6', 'falcon/app.py',
  """            self._unprepared_middleware += middleware  # type: ignore[arg-type]
""", """            middleware = [mc for mc in middleware if mc not in self._unprepared_middleware]
            self._unprepared_middleware += middleware  # type: ignore[arg-type]
""")
M('c03-add-middleware-appends-filtered', 'C03', 'R6', 'falcon/app.py',
  """            self._unprepared_middleware += middleware  # type: ignore[arg-type]
""", """            self._unprepared_middleware += [mc for mc in middleware if mc is not None and mc not in self._unprepared_middleware]
""")
M('c03-asgi-async-spelling-decided-per-component', 'C03', 'R3', 'falcon/app_helpers.py',
  """            process_response: Union[Optional[APResponse], Optional[PResponse]] = (
                util.get_bound_method(component, 'process_response_async')
                or _wrap_non_coroutine_unsafe(
                    util.get_bound_method(component, 'process_response')
                )
            )
""", """            process_response: Union[Optional[APResponse], Optional[PResponse]] = (
                util.get_bound_method(component, 'process_response_async')
                if hasattr(component, 'process_request_async')
                else _wrap_non_coroutine_unsafe(
                    util.get_bound_method(component, 'process_response')
                )
            )
""")
M('c03-asgi-resource-method-never-falls-back', 'C03', 'R3', 'falcon/app_helpers.py',
  """            process_resource: Union[Optional[APResource], Optional[PResource]] = (
                util.get_bound_method(component, 'process_resource_async')
                or _wrap_non_coroutine_unsafe(
                    util.get_bound_method(component, 'process_resource')
                )
            )
""", """            process_resource: Union[Optional[APResource], Optional[PResource]] = (
                util.get_bound_method(component, 'process_resource_async')
            )
""")
M('c03-wsgi-response-method-from-async-name', 'C03', 'R3', 'falcon/app_helpers.py',
  """            process_response = util.get_bound_method(component, 'process_response')
""", """            process_response = util.get_bound_method(component, 'process_response_async') or util.get_bound_method(component, 'process_response')
""")

# ---- wave 8: R10 (= C04 R5, escape half): the handler of last resort raises nothing itself
M('c03-log-error-message-in-format-template', 'C03', 'R10', 'falcon/request.py',
  """        log_line = DEFAULT_ERROR_LOG_FORMAT.format(
            now(), self.method, self.path, query_string_formatted
        )

        self._wsgierrors.write(log_line + message + '\\n')
""", """        log_line = (DEFAULT_ERROR_LOG_FORMAT + message).format(
            now(), self.method, self.path, query_string_formatted
        )

        self._wsgierrors.write(log_line + '\\n')
""", also=('C04',))
M('c03-python-error-handler-formats-message-as-template', 'C03', 'R10', 'falcon/app.py',
  "        req.log_error(traceback.format_exc())\n",
  "        req.log_error(('Unhandled exception in ' + req.path + ': {}').format(traceback.format_exc()))\n", also=('C04',))

# ---- wave 9: R4 raise-propagation clause and R11 (merge of positional arguments)
M('c03-after-action-in-finally-sync', 'C03', 'R4', 'falcon/hooks.py',
  """            sync_responder(self, req, resp, **kwargs)
            sync_action(req, resp, self, *action_args, **action_kwargs)
""", """            try:
                sync_responder(self, req, resp, **kwargs)
            finally:
                sync_action(req, resp, self, *action_args, **action_kwargs)
""")
M('c03-after-action-in-finally-async', 'C03', 'R4', 'falcon/hooks.py',
  """            await async_responder(self, req, resp, **kwargs)
            await async_action(req, resp, self, *action_args, **action_kwargs)
""", """            try:
                await async_responder(self, req, resp, **kwargs)
            finally:
                await async_action(req, resp, self, *action_args, **action_kwargs)
""")
M('c03-before-wrapper-swallows-action-error', 'C03', 'R4', 'falcon/hooks.py',
  """            sync_action(req, resp, self, kwargs, *action_args, **action_kwargs)
            sync_responder(self, req, resp, **kwargs)
""", """            try:
                sync_action(req, resp, self, kwargs, *action_args, **action_kwargs)
            except Exception:
                pass
            sync_responder(self, req, resp, **kwargs)
""")
M('c03-merge-takes-none-keyword-for-missing', 'C03', 'R11', 'falcon/hooks.py',
  "        if argname not in kwargs:\n            kwargs[argname] = args[i]\n",
  "        if kwargs.get(argname) is None:\n            kwargs[argname] = args[i]\n")
M('c03-merge-takes-falsy-keyword-for-missing', 'C03', 'R11', 'falcon/hooks.py',
  "        if argname not in kwargs:\n            kwargs[argname] = args[i]\n",
  "        if not kwargs.get(argname):\n            kwargs[argname] = args[i]\n")
M('c03-merge-overwrites-supplied-keyword', 'C03', 'R11', 'falcon/hooks.py',
  "        if argname not in kwargs:\n            kwargs[argname] = args[i]\n",
  "        if argname in kwargs:\n            kwargs[argname] = args[i]\n")
M('c03-merge-stores-wrong-index', 'C03', 'R11', 'falcon/hooks.py',
  "            kwargs[argname] = args[i]\n",
  "            kwargs[argname] = args[i - 1]\n")

# ---- preserving wave 1: R3 reads append()+final reverse() as head insertion; the flips must stay exact
M('c03-response-stack-head-inserted-and-reversed', 'C03', 'R3', 'falcon/app_helpers.py',
  "    return tuple(request_mw), tuple(resource_mw), tuple(response_mw)  # type: ignore[return-value]\n",
  "    response_mw.reverse()\n\n    return tuple(request_mw), tuple(resource_mw), tuple(response_mw)  # type: ignore[return-value]\n")
M('c03-request-stack-reversed-at-the-end', 'C03', 'R3', 'falcon/app_helpers.py',
  "    return tuple(request_mw), tuple(resource_mw), tuple(response_mw)  # type: ignore[return-value]\n",
  "    request_mw.reverse()\n\n    return tuple(request_mw), tuple(resource_mw), tuple(response_mw)  # type: ignore[return-value]\n")
M2('c03-response-stack-appended-reversed-twice', 'C03', 'R3', [
    {'file': 'falcon/app_helpers.py', 'old': "                response_mw.insert(0, process_response)  # type: ignore[arg-type]\n",
     'new': "                response_mw.append(process_response)  # type: ignore[arg-type]\n"},
    {'file': 'falcon/app_helpers.py', 'old': "    return tuple(request_mw), tuple(resource_mw), tuple(response_mw)  # type: ignore[return-value]\n",
     'new': "    response_mw.reverse()\n    response_mw.reverse()\n\n    return tuple(request_mw), tuple(resource_mw), tuple(response_mw)  # type: ignore[return-value]\n"}])

# ---- wave 10: R6 the caller's iterable is traversed at most once before it is a list
M2('c03-add-middleware-chain-scan-then-extend', 'C03', 'R6', [
    {'file': 'falcon/app.py', 'old': """            try:
                middleware = list(middleware)  # type: ignore[call-overload]
            except TypeError:
""", 'new': """            if not hasattr(middleware, '__iter__'):
"""},
    {'file': 'falcon/app.py', 'old': "                        for mc in self._unprepared_middleware + middleware  # type: ignore[operator]\n",
     'new': "                        for mc in (*self._unprepared_middleware, *middleware)\n"}])
M('c03-add-middleware-cors-scan-before-listing', 'C03', 'R6', 'falcon/app.py',
  """            try:
                middleware = list(middleware)  # type: ignore[call-overload]
            except TypeError:
""", """            try:
                n_cors = sum(isinstance(mc, CORSMiddleware) for mc in middleware)  # type: ignore[union-attr]
                middleware = list(middleware)  # type: ignore[call-overload]
            except TypeError:
""")

# ---- preserving wave 2: the app flows are path-sensitive for pure control flags (try/else -> flag refactoring is
#      silent: preserving/k2-c03-1); a flag that is set too early, or never cleared, must still be reported
M2('c03-wsgi-dispatch-flag-set-before-routing', 'C03', 'R2', [
    {'file': 'falcon/app.py', 'old': """        req_succeeded = False

        try:
            if req.method in self._META_METHODS:
                raise HTTPBadRequest()
""", 'new': """        req_succeeded = False
        pre_dispatch_ok = False

        try:
            pre_dispatch_ok = True
            if req.method in self._META_METHODS:
                raise HTTPBadRequest()
"""},
    {'file': 'falcon/app.py', 'old': """        except Exception as ex:
            if not self._handle_exception(req, resp, ex, params):
                raise
        else:
            try:
                # NOTE(kgriffs): If the request did not match any
""", 'new': """        except Exception as ex:
            if not self._handle_exception(req, resp, ex, params):
                raise

        if pre_dispatch_ok:
            try:
                # NOTE(kgriffs): If the request did not match any
"""}], also=('C06', 'C20', 'C02', 'C04', 'C05'))
M2('c03-wsgi-dispatch-flag-initialised-true', 'C03', 'R2', [
    {'file': 'falcon/app.py', 'old': """        req_succeeded = False

        try:
            if req.method in self._META_METHODS:
                raise HTTPBadRequest()
""", 'new': """        req_succeeded = False
        pre_dispatch_ok = True

        try:
            if req.method in self._META_METHODS:
                raise HTTPBadRequest()
"""},
    {'file': 'falcon/app.py', 'old': """        except Exception as ex:
            if not self._handle_exception(req, resp, ex, params):
                raise
        else:
            try:
                # NOTE(kgriffs): If the request did not match any
""", 'new': """        except Exception as ex:
            if not self._handle_exception(req, resp, ex, params):
                raise

        if pre_dispatch_ok:
            try:
                # NOTE(kgriffs): If the request did not match any
"""}], also=('C06', 'C20', 'C02', 'C04', 'C05'))

# ---- preserving wave 2: deque.appendleft is read as head insertion (k2-c03-3 silent); a deque that is APPENDED to is tail insertion
M2('c03-response-stack-deque-appended', 'C03', 'R3', [
    {'file': 'falcon/app_helpers.py', 'old': "from inspect import iscoroutinefunction\n", 'new': "from collections import deque\nfrom inspect import iscoroutinefunction\n"},
    {'file': 'falcon/app_helpers.py', 'old': "    response_mw: Union[List[APResponse], List[PResponse]] = []\n", 'new': "    response_mw = deque()  # type: ignore[var-annotated]\n"},
    {'file': 'falcon/app_helpers.py', 'old': "                response_mw.insert(0, process_response)  # type: ignore[arg-type]\n",
     'new': "                response_mw.append(process_response)  # type: ignore[arg-type]\n"}])

# ---- the handle outcome may be held in a local (`handled = self._handle_exception(...)`): an inverted test must still be reported
M('c03-wsgi-handled-local-inverted', 'C03', None, 'falcon/app.py',
  """        except Exception as ex:
            if not self._handle_exception(req, resp, ex, params):
                raise
        else:
""", """        except Exception as ex:
            handled = self._handle_exception(req, resp, ex, params)
            if handled:
                raise
        else:
""", also=('C06', 'C20', 'C02', 'C04', 'C05'))

# ---- own preserving variants (iterable held in a local, enumerate, snapshot of resp.complete): the breaks must still be reported
M('c03-shutdown-forward-through-local', 'C03', 'R5', 'falcon/asgi/app.py',
  "                for handler in reversed(self._unprepared_middleware):\n",
  "                handlers = list(self._unprepared_middleware)\n                for handler in handlers:\n")
M('c03-startup-reversed-through-enumerate', 'C03', 'R5', 'falcon/asgi/app.py',
  "                for handler in self._unprepared_middleware:\n                    if hasattr(handler, 'process_startup'):\n",
  "                for _idx, handler in enumerate(reversed(self._unprepared_middleware)):\n                    if hasattr(handler, 'process_startup'):\n")
M('c03-wsgi-complete-snapshot-inverted', 'C03', None, 'falcon/app.py',
  "            if not resp.complete:\n                # NOTE(warsaw): Moved this to inside the try except\n",
  "            completed = resp.complete\n            if completed:\n                # NOTE(warsaw): Moved this to inside the try except\n",
  also=('C06', 'C20', 'C02', 'C04', 'C05'))

# ---- wave 11: R5 lifespan handlers prepared by a helper and kept on the app; R7 member enumeration through a listing helper
_W11_LS_HELPER = '''

def prepare_middleware_lifespan(middleware):
    startup_handlers = []
    shutdown_handlers = []

    for component in middleware:
        process_startup = getattr(component, 'process_startup', None)
        process_shutdown = getattr(component, 'process_shutdown', None)

        if process_startup is not None:
            startup_handlers.append(process_startup)

        if process_shutdown is not None:
            shutdown_handlers.append(process_shutdown)

    return tuple(startup_handlers), %s


def default_serialize_error('''


def _w11_lifespan(ret, shutdown_iter='shutdown_handlers', startup_iter='startup_handlers'):
    return [
        {'file': 'falcon/app_helpers.py', 'old': "\n\ndef default_serialize_error(", 'new': _W11_LS_HELPER % ret},
        {'file': 'falcon/asgi/app.py', 'old': "from falcon.app_helpers import prepare_middleware_ws\n",
         'new': "from falcon.app_helpers import prepare_middleware_lifespan\nfrom falcon.app_helpers import prepare_middleware_ws\n"},
        {'file': 'falcon/asgi/app.py', 'old': "        '_middleware_ws',\n", 'new': "        '_middleware_lifespan',\n        '_middleware_ws',\n"},
        {'file': 'falcon/asgi/app.py', 'old': "        self._middleware_ws = prepare_middleware_ws(middleware)\n",
         'new': "        self._middleware_ws = prepare_middleware_ws(middleware)\n        self._middleware_lifespan = prepare_middleware_lifespan(middleware)\n"},
        {'file': 'falcon/asgi/app.py', 'old': "    ) -> None:\n        while True:\n            event = await receive()\n            if event['type'] == 'lifespan.startup':",
         'new': "    ) -> None:\n        startup_handlers, shutdown_handlers = self._middleware_lifespan\n\n        while True:\n            event = await receive()\n            if event['type'] == 'lifespan.startup':"},
        {'file': 'falcon/asgi/app.py', 'old': "                for handler in self._unprepared_middleware:\n                    if hasattr(handler, 'process_startup'):\n                        try:\n                            await handler.process_startup(scope, event)",
         'new': "                for handler in %s:\n                    if True:\n                        try:\n                            await handler(scope, event)" % startup_iter},
        {'file': 'falcon/asgi/app.py', 'old': "                for handler in reversed(self._unprepared_middleware):\n                    if hasattr(handler, 'process_shutdown'):\n                        try:\n                            await handler.process_shutdown(scope, event)",
         'new': "                for handler in %s:\n                    if True:\n                        try:\n                            await handler(scope, event)" % shutdown_iter},
    ]


M2('c03-lifespan-prepared-shutdown-one-shot-reversed', 'C03', 'R5', _w11_lifespan('reversed(shutdown_handlers)'))
M2('c03-lifespan-prepared-shutdown-one-shot-generator', 'C03', 'R5', _w11_lifespan('(h for h in shutdown_handlers[::-1])'))
M2('c03-lifespan-prepared-shutdown-one-shot-iter', 'C03', 'R5', _w11_lifespan('iter(tuple(reversed(shutdown_handlers)))'))
M2('c03-lifespan-prepared-shutdown-forward', 'C03', 'R5', _w11_lifespan('tuple(shutdown_handlers)'))
M2('c03-lifespan-prepared-shutdown-reversed-twice', 'C03', 'R5', _w11_lifespan('tuple(reversed(shutdown_handlers))', shutdown_iter='reversed(shutdown_handlers)'))

_W11_HOOK_OLD = """            for responder_name, responder in getmembers(
                responder_or_resource, callable
            ):
                if _DECORABLE_METHOD_NAME.match(responder_name):
                    responder = cast('Responder', responder)
                    do_%s_all = _wrap_with_%s(responder, action, args, kwargs)

                    setattr(responder_or_resource, responder_name, do_%s_all)
"""
_W11_HOOK_NEW = """            for responder_name, responder in _get_decorable_responders(
                responder_or_resource
            ):
                do_%s_all = _wrap_with_%s(responder, action, args, kwargs)

                setattr(responder_or_resource, responder_name, do_%s_all)
"""
_W11_LISTING = '''

def _get_decorable_responders(resource_type):
%s


def _wrap_with_after('''


def _w11_hooks(body, which=('before', 'after')):
    return [{'file': 'falcon/hooks.py', 'old': _W11_HOOK_OLD % (w, w, w), 'new': _W11_HOOK_NEW % (w, w, w)} for w in which] + [
        {'file': 'falcon/hooks.py', 'old': "\n\ndef _wrap_with_after(", 'new': _W11_LISTING % body}]


M2('c03-class-hook-listing-helper-vars', 'C03', 'R7', _w11_hooks(
    "    return [(name, attr) for name, attr in vars(resource_type).items()\n            if _DECORABLE_METHOD_NAME.match(name) and callable(attr)]"))
M2('c03-class-hook-listing-helper-dunder-dict-local', 'C03', 'R7', _w11_hooks(
    "    ns = resource_type.__dict__\n    out = []\n    for name, attr in ns.items():\n        if _DECORABLE_METHOD_NAME.match(name) and callable(attr):\n            out.append((name, attr))\n    return out",
    which=('before',)))
M2('c03-class-hook-listing-helper-own-filter', 'C03', 'R7', _w11_hooks(
    "    return [(name, attr) for name, attr in getmembers(resource_type, callable)\n            if _DECORABLE_METHOD_NAME.match(name) and name in vars(resource_type)]",
    which=('after',)))
