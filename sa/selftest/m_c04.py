"""Mutation operators for C04 (exceptions become the most specific handler's response)."""

from .mutants import M, M2

# ----------------------------------------------------------------- R1 windows
M('c04-wsgi-narrow-except-responder', 'C04', 'R1', 'falcon/app.py',
  """                req_succeeded = True
            except Exception as ex:
                if not self._handle_exception(req, resp, ex, params):
                    raise
""", """                req_succeeded = True
            except HTTPError as ex:
                if not self._handle_exception(req, resp, ex, params):
                    raise
""", also=('C03',))
M('c04-asgi-narrow-except-render', 'C04', 'R1', 'falcon/asgi/app.py',
  """        except Exception as ex:
            if not await self._handle_exception(req, resp, ex, params):
                raise

            req_succeeded = False

        resp_status: int = resp.status_code
""", """        except HTTPError as ex:
            if not await self._handle_exception(req, resp, ex, params):
                raise

            req_succeeded = False

        resp_status: int = resp.status_code
""", also=('C03', 'C05'))   # C05 R14 = the render-call protection of C04 R1, shared
M('c04-wsgi-presp-reraise-always', 'C04', 'R1', 'falcon/app.py',
  """                process_response(req, resp, resource, req_succeeded)
            except Exception as ex:
                if not self._handle_exception(req, resp, ex, params):
                    raise
""", """                process_response(req, resp, resource, req_succeeded)
            except Exception as ex:
                self._handle_exception(req, resp, ex, params)
                raise
""", also=('C03',))
M('c04-wsgi-render-failure-swallowed', 'C04', 'R1', 'falcon/app.py',
  """            body, length = self._get_body(resp, env.get('wsgi.file_wrapper'))
        except Exception as ex:
            if not self._handle_exception(req, resp, ex, params):
                raise

            req_succeeded = False
""", """            body, length = self._get_body(resp, env.get('wsgi.file_wrapper'))
        except Exception as ex:
            req_succeeded = False
""", also=('C03',))
M('c04-asgi-presp-unprotected', 'C04', 'R1', 'falcon/asgi/app.py',
  """            try:
                await process_response(req, resp, resource, req_succeeded)

            except Exception as ex:
                if not await self._handle_exception(req, resp, ex, params):
                    raise

                req_succeeded = False
""", """            await process_response(req, resp, resource, req_succeeded)
""", also=('C03',))

# --------------------------------------------------------------- R2 selection
M('c04-mro-reversed', 'C04', 'R2', 'falcon/app.py',
  "for exc in type(ex).__mro__[:-1]:", "for exc in reversed(type(ex).__mro__[:-1]):")
M('c04-mro-slice-reversed', 'C04', 'R2', 'falcon/app.py',
  "for exc in type(ex).__mro__[:-1]:", "for exc in type(ex).__mro__[:-1][::-1]:")
M('c04-mro-skips-own-class', 'C04', 'R2', 'falcon/app.py',
  "for exc in type(ex).__mro__[:-1]:", "for exc in type(ex).__mro__[1:-1]:")
M2('c04-find-last-match', 'C04', 'R2', [
    {'file': 'falcon/app.py', 'old': "        for exc in type(ex).__mro__[:-1]:\n",
     'new': "        found = None\n        for exc in type(ex).__mro__[:-1]:\n"},
    {'file': 'falcon/app.py', 'old': """            if handler is not None:
                return handler
        return None
""", 'new': """            if handler is not None:
                found = handler
        return found
"""}])
M('c04-find-stops-at-unregistered', 'C04', 'R2', 'falcon/app.py',
  """            if handler is not None:
                return handler
        return None
""", """            return handler
        return None
""")
M('c04-wsgi-register-first-wins', 'C04', 'R2', 'falcon/app.py',
  "            self._error_handlers[exc] = handler\n", "            self._error_handlers.setdefault(exc, handler)\n")
M('c04-asgi-register-guarded', 'C04', 'R2', 'falcon/asgi/app.py',
  "            self._error_handlers[exc] = handler_callable\n",
  "            if exc not in self._error_handlers:\n                self._error_handlers[exc] = handler_callable\n")
M('c04-drop-default-httpstatus-handler', 'C04', 'R2', 'falcon/app.py',
  "        self.add_error_handler(HTTPStatus, self._http_status_handler)\n", "")
M('c04-default-handlers-swapped', 'C04', 'R2', 'falcon/app.py',
  """        self.add_error_handler(HTTPError, self._http_error_handler)
        self.add_error_handler(HTTPStatus, self._http_status_handler)
""", """        self.add_error_handler(HTTPError, self._http_status_handler)
        self.add_error_handler(HTTPStatus, self._http_error_handler)
""")
M('c04-asgi-http-error-handler-ws-only', 'C04', 'R2', 'falcon/asgi/app.py',
  """        if resp:
            self._compose_error_response(req, resp, error)
        elif ws:
""", """        if resp and ws:
            self._compose_error_response(req, resp, error)
        elif ws:
""", also=())

# ------------------------------------------------------ R3 handle discipline
M('c04-wsgi-reset-after-call', 'C04', 'R3', 'falcon/app.py',
  """        resp.text = resp.data = resp.media = None
        if err_handler is not None:
            try:
                err_handler(req, resp, ex, params)
            except HTTPStatus as status:
                self._compose_status_response(req, resp, status)
            except HTTPError as error:
                self._compose_error_response(req, resp, error)

""", """        if err_handler is not None:
            try:
                err_handler(req, resp, ex, params)
            except HTTPStatus as status:
                self._compose_status_response(req, resp, status)
            except HTTPError as error:
                self._compose_error_response(req, resp, error)

            resp.text = resp.data = resp.media = None
""")
M('c04-asgi-reset-drops-media', 'C04', 'R3', 'falcon/asgi/app.py',
  "            resp.text = resp.data = resp.media = None\n", "            resp.text = resp.data = None\n")
M('c04-asgi-reset-only-without-handler', 'C04', 'R3', 'falcon/asgi/app.py',
  """        if resp:
            # NOTE(caselit): Reset body, data and media before calling the handler
            resp.text = resp.data = resp.media = None
""", """        if resp and err_handler is None:
            # NOTE(caselit): Reset body, data and media before calling the handler
            resp.text = resp.data = resp.media = None
""")
M('c04-wsgi-drop-httpstatus-arm', 'C04', 'R3', 'falcon/app.py',
  """            except HTTPStatus as status:
                self._compose_status_response(req, resp, status)
            except HTTPError as error:
""", """            except HTTPError as error:
""")
M('c04-asgi-drop-httperror-arm', 'C04', 'R3', 'falcon/asgi/app.py',
  """            except HTTPError as error:
                await self._http_error_handler(req, resp, error, params, ws=ws)
""", "")
M('c04-asgi-error-arm-renders-as-status', 'C04', 'R3', 'falcon/asgi/app.py',
  "                await self._http_error_handler(req, resp, error, params, ws=ws)\n",
  "                await self._http_status_handler(req, resp, error, params, ws=ws)\n")
M('c04-wsgi-handled-returns-false', 'C04', 'R3', 'falcon/app.py',
  """            return True

        # NOTE(kgriffs): No error handlers are defined for ex
""", """            return False

        # NOTE(kgriffs): No error handlers are defined for ex
""")
M('c04-asgi-unhandled-returns-true', 'C04', 'R3', 'falcon/asgi/app.py',
  """        # would have matched one of the corresponding default
        # handlers.
        return False

    async def _ws_cleanup_on_error""", """        # would have matched one of the corresponding default
        # handlers.
        return True

    async def _ws_cleanup_on_error""")
M('c04-wsgi-handler-gets-wrong-args', 'C04', 'R3', 'falcon/app.py',
  "                err_handler(req, resp, ex, params)\n", "                err_handler(resp, req, ex, params)\n")

# ----------------------------------------------------------------- R4 rendering
M('c04-xml-drop-code', 'C04', 'R4', 'falcon/http_error.py',
  """        if self.code is not None:
            et.SubElement(error_element, 'code').text = str(self.code)

""", "")
M('c04-xml-code-truthy', 'C04', 'R4', 'falcon/http_error.py',
  """        if self.code is not None:
            et.SubElement(error_element, 'code').text = str(self.code)
""", """        if self.code:
            et.SubElement(error_element, 'code').text = str(self.code)
""")
M('c04-dict-description-truthy', 'C04', 'R4', 'falcon/http_error.py',
  """        if self.description is not None:
            obj['description'] = self.description
""", """        if self.description:
            obj['description'] = self.description
""")
M('c04-xml-description-from-title', 'C04', 'R4', 'falcon/http_error.py',
  "et.SubElement(error_element, 'description').text = self.description", "et.SubElement(error_element, 'description').text = self.title")
M('c04-vary-only-when-preferred', 'C04', 'R4', 'falcon/app_helpers.py',
  """        resp.content_type = preferred

    resp.append_header('Vary', 'Accept')
""", """        resp.content_type = preferred
        resp.append_header('Vary', 'Accept')
""")
M('c04-compose-error-drops-status', 'C04', 'R4', 'falcon/app.py',
  """        resp.status = error.status

        if error.headers is not None:
""", """        if error.headers is not None:
""")
M('c04-compose-error-serialize-before-headers', 'C04', 'R4', 'falcon/app.py',
  """        if error.headers is not None:
            resp.set_headers(error.headers)

        self._serialize_error(req, resp, error)
""", """        self._serialize_error(req, resp, error)

        if error.headers is not None:
            resp.set_headers(error.headers)
""")
M('c04-compose-status-headers-only-with-text', 'C04', 'R4', 'falcon/app.py',
  "        if http_status.headers is not None:\n", "        if http_status.headers is not None and http_status.text:\n")
M('c04-compose-status-drops-text', 'C04', 'R4', 'falcon/app.py',
  "        resp.text = http_status.text\n", "        pass\n")
M('c04-httpgone-wrong-status', 'C04', 'R4', 'falcon/errors.py', "            status.HTTP_410,\n", "            status.HTTP_401,\n")
M('c04-http-locked-2xx-status', 'C04', 'R4', 'falcon/errors.py', "            status.HTTP_423,\n", "            status.HTTP_203,\n")
M('c04-redirect-wrong-status', 'C04', 'R4', 'falcon/redirects.py',
  "super(HTTPSeeOther, self).__init__(falcon.HTTP_303, headers)", "super(HTTPSeeOther, self).__init__(falcon.HTTP_302, headers)")
M('c04-httperror-code-not-stored', 'C04', 'R4', 'falcon/http_error.py', "        self.code = code\n", "        self.code = None\n")
M('c04-httpstatus-text-not-stored', 'C04', 'R4', 'falcon/http_status.py', "        self.text = text\n", "        self.text = None\n")

# ------------------------------------------------------------ R5 never escapes
M('c04-wsgi-python-handler-400', 'C04', 'R5', 'falcon/app.py',
  "self._compose_error_response(req, resp, HTTPInternalServerError())", "self._compose_error_response(req, resp, HTTPBadRequest())")
M('c04-asgi-python-handler-no-body', 'C04', 'R5', 'falcon/asgi/app.py',
  "            self._compose_error_response(req, resp, falcon.HTTPInternalServerError())\n", "            resp.status = 500\n")
M('c04-wsgi-python-handler-strict-decode', 'C04', 'R5', 'falcon/app.py',
  "        req.log_error(traceback.format_exc())\n", "        req.log_error(traceback.format_exc().encode('ascii').decode())\n", also=('C03',))

# ------------------------------------------------ R6 nothing raises before try
# (R6 reports F8/F10 on the unmutated tree; these add a further violation.  The constructor mutants also break
#  C06 R2(c), the WSGI/ASGI escape-set parity of the two constructors, which is a genuine consequence.)
M('c04-wsgi-meta-check-hoisted', 'C04', 'R6', 'falcon/app.py',
  """        req_succeeded = False

        try:
            if req.method in self._META_METHODS:
                raise HTTPBadRequest()
""", """        req_succeeded = False
        if req.method in self._META_METHODS:
            raise HTTPBadRequest()

        try:
""", also=('C03', 'C06'))
M('c04-asgi-content-type-strict-decode', 'C04', 'R6', 'falcon/asgi/request.py',
  "self.content_type = req_headers[b'content-type'].decode('latin1')", "self.content_type = req_headers[b'content-type'].decode()", count=2, also=('C06',))
M('c04-wsgi-content-type-unguarded', 'C04', 'R6', 'falcon/request.py',
  """        try:
            self.content_type = self.env['CONTENT_TYPE']
        except KeyError:
            self.content_type = None
""", """        self.content_type = self.env['CONTENT_TYPE']
""", also=('C06',))
M('c04-wsgi-path-encoded-twice', 'C04', 'R6', 'falcon/request.py',
  "            path = path.encode('iso-8859-1').decode('utf-8', 'replace')\n",
  "            path = path.encode('iso-8859-1').decode('utf-8', 'replace')\n            path.encode('iso-8859-1')\n", also=('C06', 'C16'))

M('c04-to-dict-loop-truthiness', 'C04', 'R4', 'falcon/http_error.py',
  """        if self.description is not None:
            obj['description'] = self.description

        if self.code is not None:
            obj['code'] = self.code

        if self.link is not None:
            obj['link'] = self.link
""", """        for name in ('description', 'code', 'link'):
            value = getattr(self, name)
            if value:
                obj[name] = value
""")

M2('c04-find-handler-remembers-matched-class', 'C04', 'R2', [
    {'file': 'falcon/app.py', 'old': """            if handler is not None:
                return handler
        return None
""", 'new': """            if handler is not None:
                self._last_matched = exc
                return handler
        return None
"""}], also=('C19',))

# ---- wave 4
M('c04-default-handler-formats-exception-object', 'C04', 'R5', 'falcon/app.py',
  """        req.log_error(traceback.format_exc())
        self._compose_error_response(req, resp, HTTPInternalServerError())
""", """        req.log_error('%s\\n%s' % (error, traceback.format_exc()))
        self._compose_error_response(req, resp, HTTPInternalServerError())
""", also=('C03',))
M('c04-asgi-default-handler-fstring-exception-object', 'C04', 'R5', 'falcon/asgi/app.py',
  """        falcon._logger.error('[FALCON] Unhandled exception in ASGI app', exc_info=error)
""", """        falcon._logger.error(f'[FALCON] Unhandled exception in ASGI app: {error}', exc_info=error)
""", also=('C03',))

# ---- wave 5: R4 (f) negotiated media type of the default serializer; R8 req.accept
_NEG_OLD = """    media_handlers = [mt for mt in options.media_handlers if mt not in predefined]
    # NOTE(caselit,vytas): Add the registered handlers after the predefined
    #   ones. This ensures that in the case of an equal match, the first one
    #   (JSON) is selected and that the q parameter is taken into consideration
    #   when selecting the media handler.
    preferred = req.client_prefers(predefined + media_handlers)
"""
M('c04-serializer-json-prefix-fast-path', 'C04', 'R4', 'falcon/app_helpers.py', _NEG_OLD,
  """    media_handlers = [mt for mt in options.media_handlers if mt not in predefined]
    accept = req.accept
    if accept == '*/*' or accept.startswith(MEDIA_JSON):
        preferred = MEDIA_JSON
    else:
        preferred = req.client_prefers(predefined + media_handlers)
""")
M('c04-serializer-json-substring-fast-path', 'C04', 'R4', 'falcon/app_helpers.py', _NEG_OLD,
  """    media_handlers = [mt for mt in options.media_handlers if mt not in predefined]
    if 'json' in req.accept.lower():
        preferred = MEDIA_JSON
    else:
        preferred = req.client_prefers(predefined + media_handlers)
""")
M('c04-serializer-xml-equality-fast-path', 'C04', 'R4', 'falcon/app_helpers.py', _NEG_OLD,
  """    media_handlers = [mt for mt in options.media_handlers if mt not in predefined]
    if req.accept in (MEDIA_XML, 'text/xml'):
        preferred = MEDIA_XML
    else:
        preferred = req.client_prefers(predefined + media_handlers)
""")
M('c04-serializer-catch-all-shortcut-picks-xml', 'C04', 'R4', 'falcon/app_helpers.py', _NEG_OLD,
  """    media_handlers = [mt for mt in options.media_handlers if mt not in predefined]
    if req.accept == '*/*':
        preferred = MEDIA_XML
    else:
        preferred = req.client_prefers(predefined + media_handlers)
""")
M('c04-serializer-handlers-offered-first', 'C04', 'R4', 'falcon/app_helpers.py',
  "    preferred = req.client_prefers(predefined + media_handlers)\n", "    preferred = req.client_prefers(media_handlers + predefined)\n")
M('c04-serializer-xml-predefined-first', 'C04', 'R4', 'falcon/app_helpers.py',
  "        [MEDIA_JSON, 'text/xml', MEDIA_XML]\n", "        [MEDIA_XML, 'text/xml', MEDIA_JSON]\n")
M('c04-serializer-suffix-heuristic-overrides-negotiation', 'C04', 'R4', 'falcon/app_helpers.py',
  """    if preferred is None:
        # NOTE(kgriffs): See if the client expects a custom media
""", """    if preferred is None or preferred != MEDIA_JSON:
        # NOTE(kgriffs): See if the client expects a custom media
""")
M2('c04-accept-dict-get-default', 'C04', 'R8', [
    {'file': 'falcon/request.py', 'old': """        try:
            return self.env['HTTP_ACCEPT'] or '*/*'
        except KeyError:
            return '*/*'
""", 'new': """        return self.env.get('HTTP_ACCEPT', '*/*')
"""},
    {'file': 'falcon/asgi/request.py', 'old': """        try:
            return self._asgi_headers[b'accept'].decode('latin1') or '*/*'
        except KeyError:
            return '*/*'
""", 'new': """        return self._asgi_headers.get(b'accept', b'*/*').decode('latin1')
"""}])
M('c04-wsgi-accept-blank-passes-through', 'C04', 'R8', 'falcon/request.py',
  "            return self.env['HTTP_ACCEPT'] or '*/*'\n", "            return self.env['HTTP_ACCEPT']\n", also=('C06',))
M('c04-asgi-accept-missing-is-none', 'C04', 'R8', 'falcon/asgi/request.py',
  """            return self._asgi_headers[b'accept'].decode('latin1') or '*/*'
        except KeyError:
            return '*/*'
""", """            return self._asgi_headers[b'accept'].decode('latin1') or '*/*'
        except KeyError:
            return None
""", also=('C06',))
M2('c04-accept-built-by-none-default-factory', 'C04', 'R8', [
    {'file': 'falcon/request.py', 'old': """    @property
    def accept(self) -> str:
        \"\"\"Value of the Accept header, or ``'*/*'`` if the header is missing.\"\"\"
        # NOTE(kgriffs): Per RFC, a missing accept header is
        # equivalent to '*/*'
        try:
            return self.env['HTTP_ACCEPT'] or '*/*'
        except KeyError:
            return '*/*'
""", 'new': """    accept: Optional[str] = helpers._header_property('HTTP_ACCEPT')
"""},
    {'file': 'falcon/asgi/request.py', 'old': """    @property
    def accept(self) -> str:
        # NOTE(kgriffs): Per RFC, a missing accept header is
        # equivalent to '*/*'
        try:
            return self._asgi_headers[b'accept'].decode('latin1') or '*/*'
        except KeyError:
            return '*/*'
""", 'new': """    accept: Optional[str] = asgi_helpers._header_property('Accept')
"""}])

# ---- wave 6: R2 selection read semantically (any shape other than the plain MRO loop is evaluated on model hierarchies);
#      R4 (g) the text put into the XML / JSON error document is the field value itself
_FIND_OLD = """        for exc in type(ex).__mro__[:-1]:
            handler = self._error_handlers.get(exc)

            if handler is not None:
                return handler
        return None
"""
M('c04-find-most-derived-by-mro-length', 'C04', 'R2', 'falcon/app.py', _FIND_OLD,
  """        handlers = self._error_handlers
        matches = handlers.keys() & type(ex).__mro__[:-1]
        if matches:
            return handlers[max(matches, key=lambda exc: len(exc.__mro__))]
        return None
""")
M('c04-find-any-member-of-intersection', 'C04', 'R2', 'falcon/app.py', _FIND_OLD,
  """        for exc in set(type(ex).__mro__) & self._error_handlers.keys():
            return self._error_handlers[exc]
        return None
""")
M('c04-find-in-registration-order', 'C04', 'R2', 'falcon/app.py', _FIND_OLD,
  """        for exc, handler in self._error_handlers.items():
            if isinstance(ex, exc):
                return handler
        return None
""")
M('c04-find-most-registered-ancestors', 'C04', 'R2', 'falcon/app.py', _FIND_OLD,
  """        matches = [c for c in self._error_handlers if isinstance(ex, c)]
        if not matches:
            return None
        return self._error_handlers[max(matches, key=lambda c: sum(issubclass(c, o) for o in matches))]
""")
M('c04-find-next-over-sorted-by-name', 'C04', 'R2', 'falcon/app.py', _FIND_OLD,
  """        mro = sorted(type(ex).__mro__[:-1], key=lambda c: c.__name__)
        return next((self._error_handlers[c] for c in mro if c in self._error_handlers), None)
""")

_XML_IMPORT = "import xml.etree.ElementTree as et\n"
M2('c04-xml-strips-supplementary-planes', 'C04', 'R4', [
    {'file': 'falcon/http_error.py', 'old': _XML_IMPORT,
     'new': _XML_IMPORT + "from functools import partial\nimport re\n\n_XML_INVALID_CHARS = re.compile('[^\\t\\n\\r\\x20-\\ud7ff\\ue000-\\ufffd]')\n"},
    {'file': 'falcon/http_error.py', 'old': "        et.SubElement(error_element, 'title').text = self.title\n",
     'new': "        clean = partial(_XML_INVALID_CHARS.sub, '')\n        et.SubElement(error_element, 'title').text = clean(self.title)\n"},
    {'file': 'falcon/http_error.py', 'old': "et.SubElement(error_element, 'description').text = self.description",
     'new': "et.SubElement(error_element, 'description').text = clean(self.description)"},
    {'file': 'falcon/http_error.py', 'old': "et.SubElement(link_element, key).text = self.link[key]",
     'new': "et.SubElement(link_element, key).text = clean(self.link[key])"}])
M2('c04-xml-title-ascii-only', 'C04', 'R4', [
    {'file': 'falcon/http_error.py', 'old': _XML_IMPORT, 'new': _XML_IMPORT + "import re\n"},
    {'file': 'falcon/http_error.py', 'old': "        et.SubElement(error_element, 'title').text = self.title\n",
     'new': "        et.SubElement(error_element, 'title').text = re.sub('[^\\x20-\\x7e]+', '?', self.title)\n"}])
M('c04-xml-description-truncated', 'C04', 'R4', 'falcon/http_error.py',
  "et.SubElement(error_element, 'description').text = self.description", "et.SubElement(error_element, 'description').text = self.description[:200]")
M('c04-xml-link-text-drops-control-whitespace', 'C04', 'R4', 'falcon/http_error.py',
  "et.SubElement(link_element, key).text = self.link[key]",
  "et.SubElement(link_element, key).text = self.link[key].translate({9: None, 10: None, 13: None})")
M('c04-dict-title-stripped', 'C04', 'R4', 'falcon/http_error.py', "        obj['title'] = self.title\n", "        obj['title'] = self.title.strip()\n")

# ---- wave 8
# R5: str.format / % is total only for a constant template (log_error is reached from the handler of last resort)
_LOG_OLD = """        log_line = DEFAULT_ERROR_LOG_FORMAT.format(
            now(), self.method, self.path, query_string_formatted
        )

        self._wsgierrors.write(log_line + message + '\\n')
"""
M('c04-log-error-message-in-format-template', 'C04', 'R5', 'falcon/request.py', _LOG_OLD,
  """        log_line = (DEFAULT_ERROR_LOG_FORMAT + message).format(
            now(), self.method, self.path, query_string_formatted
        )

        self._wsgierrors.write(log_line + '\\n')
""", also=('C03',))
M('c04-log-error-template-local-with-message', 'C04', 'R5', 'falcon/request.py', _LOG_OLD,
  """        template = DEFAULT_ERROR_LOG_FORMAT + message.rstrip() + '\\n'
        log_line = template.format(
            now(), self.method, self.path, query_string_formatted
        )

        self._wsgierrors.write(log_line)
""", also=('C03',))
M('c04-log-error-message-in-percent-template', 'C04', 'R5', 'falcon/request.py', _LOG_OLD,
  """        log_line = DEFAULT_ERROR_LOG_FORMAT.format(
            now(), self.method, self.path, query_string_formatted
        )

        self._wsgierrors.write((log_line + message + '%s') % '\\n')
""", also=('C03',))
M('c04-log-error-format-field-not-supplied', 'C04', 'R5', 'falcon/request.py', _LOG_OLD,
  """        log_line = DEFAULT_ERROR_LOG_FORMAT.format(
            now(), self.method, self.path
        )

        self._wsgierrors.write(log_line + query_string_formatted + message + '\\n')
""", also=('C03',))

# R4 (b2): Vary: Accept holds through Response.append_header
_APPEND_OLD = """            if name in self._headers:
                value = self._headers[name] + ', ' + value

            self._headers[name] = value
"""
M('c04-append-header-skips-substring-duplicate', 'C04', 'R4', 'falcon/response.py', _APPEND_OLD,
  """            if name in self._headers:
                current = self._headers[name]

                if value in current:
                    return

                value = current + ', ' + value

            self._headers[name] = value
""")
M('c04-append-header-skips-prefix-duplicate', 'C04', 'R4', 'falcon/response.py', _APPEND_OLD,
  """            if name in self._headers:
                if self._headers[name].lower().startswith(value.lower()):
                    return

                value = self._headers[name] + ', ' + value

            self._headers[name] = value
""")
M('c04-append-header-keeps-first-value-only', 'C04', 'R4', 'falcon/response.py', _APPEND_OLD,
  """            if name in self._headers and name in ('vary', 'allow'):
                return

            if name in self._headers:
                value = self._headers[name] + ', ' + value

            self._headers[name] = value
""")

# R8: the accessor delegates to get_header(): its default only covers a MISSING header
_ASGI_ACCEPT_OLD = """        try:
            return self._asgi_headers[b'accept'].decode('latin1') or '*/*'
        except KeyError:
            return '*/*'
"""
M('c04-asgi-accept-through-get-header-default', 'C04', 'R8', 'falcon/asgi/request.py', _ASGI_ACCEPT_OLD,
  """        return self.get_header('Accept', default='*/*')
""", also=('C11',))
M('c04-asgi-accept-through-get-header-positional-default', 'C04', 'R8', 'falcon/asgi/request.py', _ASGI_ACCEPT_OLD,
  """        value = self.get_header('Accept', False, '*/*')
        return value
""", also=('C11',))
M('c04-wsgi-accept-through-get-header-default', 'C04', 'R8', 'falcon/request.py',
  """        try:
            return self.env['HTTP_ACCEPT'] or '*/*'
        except KeyError:
            return '*/*'
""", """        return self.get_header('Accept', default='*/*')
""", also=('C11',))

# R9 (= C11 R11): a non-zero weight must not be rounded to q=0
M('c04-media-range-quality-rounded', 'C04', 'R9', 'falcon/util/mediatypes.py',
  "        return cls(main_type, subtype, q, params)\n", "        return cls(main_type, subtype, round(q, 3), params)\n", also=('C11',))
M('c04-media-range-quality-truncated-to-int-thousandths', 'C04', 'R9', 'falcon/util/mediatypes.py',
  "        return cls(main_type, subtype, q, params)\n", "        return cls(main_type, subtype, int(q * 1000) / 1000, params)\n", also=('C11',))

# R4 (h): to_json hands to_dict() to the handler whole (wave 9: s9-c04-1)
_TO_JSON_OBJ = "        obj = self.to_dict()\n        if handler is None:\n"
M('c04-to-json-drops-falsy-members', 'C04', 'R4', 'falcon/http_error.py', _TO_JSON_OBJ,
  "        obj = {key: value for key, value in self.to_dict().items() if value}\n        if handler is None:\n")
M('c04-to-json-dict-of-filtered-pairs', 'C04', 'R4', 'falcon/http_error.py', _TO_JSON_OBJ,
  "        doc = self.to_dict()\n        obj = dict((k, doc[k]) for k in doc if k == 'title' or doc[k] not in (None, '', 0))\n        if handler is None:\n")
M('c04-to-json-pops-falsy-members-in-a-loop', 'C04', 'R4', 'falcon/http_error.py', _TO_JSON_OBJ,
  "        obj = self.to_dict()\n        for key in list(obj):\n            if not obj[key]:\n                obj.pop(key)\n        if handler is None:\n")
M('c04-to-json-stringifies-members', 'C04', 'R4', 'falcon/http_error.py', _TO_JSON_OBJ,
  "        obj = {key: str(value) for key, value in self.to_dict().items()}\n        if handler is None:\n")

# R4 (i): the public renderers return the serializer's bytes unchanged (wave 9: s9-c04-2)
M2('c04-to-xml-strips-control-bytes', 'C04', 'R4', [
    {'file': 'falcon/http_error.py', 'old': "class HTTPError(Exception):\n",
     'new': "import re\n_XML_CONTROL_CHARS = re.compile(rb'[\\x00-\\x08\\x0b\\x0c\\x0e-\\x1f\\x7f-\\x9f]')\n\n\nclass HTTPError(Exception):\n"},
    {'file': 'falcon/http_error.py', 'old': "        return self._to_xml()\n", 'new': "        return _XML_CONTROL_CHARS.sub(b'', self._to_xml())\n"},
])
M('c04-to-xml-reencoded-ascii-ignore', 'C04', 'R4', 'falcon/http_error.py', "        return self._to_xml()\n",
  "        return self._to_xml().decode('utf-8').encode('ascii', 'ignore')\n")
M('c04-to-xml-replaces-del-byte', 'C04', 'R4', 'falcon/http_error.py', "        return self._to_xml()\n",
  "        doc = self._to_xml()\n        return doc.replace(b'\\x7f', b'')\n")
M2('c04-to-json-strips-high-bytes', 'C04', 'R4', [
    {'file': 'falcon/http_error.py', 'old': "class HTTPError(Exception):\n", 'new': "import re\n\n\nclass HTTPError(Exception):\n"},
    {'file': 'falcon/http_error.py', 'old': "        return handler.serialize(obj, MEDIA_JSON)\n",
     'new': "        return re.sub(rb'[\\x80-\\x9f]', b'', handler.serialize(obj, MEDIA_JSON))\n"},
])

# ------------------------------------------------ wave 10
# R1 (s10-c04-2 / s6-c05-2): the body is rendered AGAIN inside the except arm of the rendering window, outside every
# try: a second rendering failure (error document negotiated to the same failing media handler) escapes to the server
_RENDER_ARM = """            if not self._handle_exception(req, resp, ex, params):
                raise

            req_succeeded = False

        resp_status: str = code_to_http_status(resp.status)
"""
M('c04-wsgi-render-again-in-except-arm', 'C04', 'R1', 'falcon/app.py', _RENDER_ARM,
  """            if not self._handle_exception(req, resp, ex, params):
                raise

            req_succeeded = False

            body, length = self._get_body(resp, env.get('wsgi.file_wrapper'))

        resp_status: str = code_to_http_status(resp.status)
""", also=('C03', 'C05', 'C06'))
M('c04-wsgi-render-again-after-the-window', 'C04', 'R1', 'falcon/app.py', _RENDER_ARM,
  """            if not self._handle_exception(req, resp, ex, params):
                raise

            req_succeeded = False

        if not req_succeeded and resp.media is not None:
            body, length = self._get_body(resp, env.get('wsgi.file_wrapper'))

        resp_status: str = code_to_http_status(resp.status)
""", also=('C03', 'C05', 'C06'))
M('c04-asgi-render-again-in-except-arm', 'C04', 'R1', 'falcon/asgi/app.py',
  """            if not await self._handle_exception(req, resp, ex, params):
                raise

            req_succeeded = False

        resp_status: int = resp.status_code
""", """            if not await self._handle_exception(req, resp, ex, params):
                raise

            req_succeeded = False

            data = await resp.render_body()

        resp_status: int = resp.status_code
""", also=('C03', 'C05', 'C06'))
# R4(c) (s10-c04-3): the hand-written title/description/code blocks of _to_xml folded into one loop over a constant
# table, guarded by truthiness where to_dict has `is not None`: code=0 / description='' vanish from the XML only
_XML_BLOCKS = """        et.SubElement(error_element, 'title').text = self.title

        if self.description is not None:
            et.SubElement(error_element, 'description').text = self.description

        if self.code is not None:
            et.SubElement(error_element, 'code').text = str(self.code)
"""
M('c04-xml-field-loop-truthiness-guard', 'C04', 'R4', 'falcon/http_error.py', _XML_BLOCKS,
  """        for name in ('title', 'description', 'code'):
            value = getattr(self, name)
            if value:
                et.SubElement(error_element, name).text = str(value)
""")
M('c04-xml-field-pairs-loop-truthiness-guard', 'C04', 'R4', 'falcon/http_error.py', _XML_BLOCKS,
  """        et.SubElement(error_element, 'title').text = self.title

        for name, value in (('description', self.description), ('code', self.code)):
            if value:
                et.SubElement(error_element, name).text = str(value)
""")
M('c04-xml-field-loop-skips-falsy-by-continue', 'C04', 'R4', 'falcon/http_error.py', _XML_BLOCKS,
  """        et.SubElement(error_element, 'title').text = self.title

        for name in ('description', 'code'):
            value = getattr(self, name)
            if not value:
                continue
            et.SubElement(error_element, name).text = str(value)
""")
M('c04-xml-field-loop-forgets-code', 'C04', 'R4', 'falcon/http_error.py', _XML_BLOCKS,
  """        et.SubElement(error_element, 'title').text = self.title

        for name in ('description',):
            value = getattr(self, name)
            if value is not None:
                et.SubElement(error_element, name).text = str(value)
""")
# R2 through a hoisted bound lookup (the shape of the behaviour-preserving k1-c04-2): the clause still decides
M('c04-find-hoisted-get-reversed-walk', 'C04', 'R2', 'falcon/app.py',
  """        for exc in type(ex).__mro__[:-1]:
            handler = self._error_handlers.get(exc)
""", """        get_handler = self._error_handlers.get

        for exc in reversed(type(ex).__mro__[:-1]):
            handler = get_handler(exc)
""")

# ---- second preserving wave (k2-*): "refactoring + break" - the behaviour-preserving shape the rules now look through
# (helper extracted, list of pieces, constant tuple, local alias, additive keyword-only parameter) PLUS the original mistake
M2('c04-k2-offers-helper-xml-predefined-first', 'C04', 'R4', [
    {'file': 'falcon/app_helpers.py',
     'old': "    predefined = (\n        [MEDIA_JSON, 'text/xml', MEDIA_XML]\n        if options.xml_error_serialization\n        else [MEDIA_JSON]\n    )\n    media_handlers = [mt for mt in options.media_handlers if mt not in predefined]\n    # NOTE(caselit,vytas): Add the registered handlers after the predefined\n    #   ones. This ensures that in the case of an equal match, the first one\n    #   (JSON) is selected and that the q parameter is taken into consideration\n    #   when selecting the media handler.\n    preferred = req.client_prefers(predefined + media_handlers)\n",
     'new': '    media_types = _error_media_types(options)\n    preferred = req.client_prefers(media_types)\n'},
    {'file': 'falcon/app_helpers.py',
     'old': 'def default_serialize_error(req: Request, resp: Response, exception: HTTPError) -> None:\n',
     'new': "def _error_media_types(options):\n    predefined = (\n        [MEDIA_XML, 'text/xml', MEDIA_JSON]\n        if options.xml_error_serialization\n        else [MEDIA_JSON]\n    )\n    media_handlers = [mt for mt in options.media_handlers if mt not in predefined]\n    return predefined + media_handlers\n\n\ndef default_serialize_error(req: Request, resp: Response, exception: HTTPError) -> None:\n"},
])
M2('c04-k2-offers-helper-handlers-first', 'C04', 'R4', [
    {'file': 'falcon/app_helpers.py',
     'old': "    predefined = (\n        [MEDIA_JSON, 'text/xml', MEDIA_XML]\n        if options.xml_error_serialization\n        else [MEDIA_JSON]\n    )\n    media_handlers = [mt for mt in options.media_handlers if mt not in predefined]\n    # NOTE(caselit,vytas): Add the registered handlers after the predefined\n    #   ones. This ensures that in the case of an equal match, the first one\n    #   (JSON) is selected and that the q parameter is taken into consideration\n    #   when selecting the media handler.\n    preferred = req.client_prefers(predefined + media_handlers)\n",
     'new': '    media_types = _error_media_types(options)\n    preferred = req.client_prefers(media_types)\n'},
    {'file': 'falcon/app_helpers.py',
     'old': 'def default_serialize_error(req: Request, resp: Response, exception: HTTPError) -> None:\n',
     'new': "def _error_media_types(options):\n    predefined = (\n        [MEDIA_JSON, 'text/xml', MEDIA_XML]\n        if options.xml_error_serialization\n        else [MEDIA_JSON]\n    )\n    media_handlers = [mt for mt in options.media_handlers if mt not in predefined]\n    return media_handlers + predefined\n\n\ndef default_serialize_error(req: Request, resp: Response, exception: HTTPError) -> None:\n"},
])
M2('c04-k2-offers-constant-tuple-xml-first', 'C04', 'R4', [
    {'file': 'falcon/app_helpers.py',
     'old': "    predefined = (\n        [MEDIA_JSON, 'text/xml', MEDIA_XML]\n        if options.xml_error_serialization\n        else [MEDIA_JSON]\n    )\n    media_handlers = [mt for mt in options.media_handlers if mt not in predefined]\n    # NOTE(caselit,vytas): Add the registered handlers after the predefined\n    #   ones. This ensures that in the case of an equal match, the first one\n    #   (JSON) is selected and that the q parameter is taken into consideration\n    #   when selecting the media handler.\n    preferred = req.client_prefers(predefined + media_handlers)\n",
     'new': '    predefined = (\n        _ERROR_MEDIA_TYPES_WITH_XML\n        if options.xml_error_serialization\n        else _ERROR_MEDIA_TYPES\n    )\n    media_handlers = [mt for mt in options.media_handlers if mt not in predefined]\n    # NOTE(caselit,vytas): Add the registered handlers after the predefined\n    #   ones. This ensures that in the case of an equal match, the first one\n    #   (JSON) is selected and that the q parameter is taken into consideration\n    #   when selecting the media handler.\n    preferred = req.client_prefers([*predefined, *media_handlers])\n'},
    {'file': 'falcon/app_helpers.py',
     'old': 'def default_serialize_error(req: Request, resp: Response, exception: HTTPError) -> None:\n',
     'new': "_ERROR_MEDIA_TYPES = (MEDIA_JSON,)\n_ERROR_MEDIA_TYPES_WITH_XML = (MEDIA_XML, 'text/xml', MEDIA_JSON)\n\n\ndef default_serialize_error(req: Request, resp: Response, exception: HTTPError) -> None:\n"},
])
M2('c04-k2-offers-starred-display-handlers-first', 'C04', 'R4', [
    {'file': 'falcon/app_helpers.py',
     'old': "    predefined = (\n        [MEDIA_JSON, 'text/xml', MEDIA_XML]\n        if options.xml_error_serialization\n        else [MEDIA_JSON]\n    )\n    media_handlers = [mt for mt in options.media_handlers if mt not in predefined]\n    # NOTE(caselit,vytas): Add the registered handlers after the predefined\n    #   ones. This ensures that in the case of an equal match, the first one\n    #   (JSON) is selected and that the q parameter is taken into consideration\n    #   when selecting the media handler.\n    preferred = req.client_prefers(predefined + media_handlers)\n",
     'new': '    predefined = (\n        _ERROR_MEDIA_TYPES_WITH_XML\n        if options.xml_error_serialization\n        else _ERROR_MEDIA_TYPES\n    )\n    media_handlers = [mt for mt in options.media_handlers if mt not in predefined]\n    # NOTE(caselit,vytas): Add the registered handlers after the predefined\n    #   ones. This ensures that in the case of an equal match, the first one\n    #   (JSON) is selected and that the q parameter is taken into consideration\n    #   when selecting the media handler.\n    preferred = req.client_prefers([*media_handlers, *predefined])\n'},
    {'file': 'falcon/app_helpers.py',
     'old': 'def default_serialize_error(req: Request, resp: Response, exception: HTTPError) -> None:\n',
     'new': "_ERROR_MEDIA_TYPES = (MEDIA_JSON,)\n_ERROR_MEDIA_TYPES_WITH_XML = (MEDIA_JSON, 'text/xml', MEDIA_XML)\n\n\ndef default_serialize_error(req: Request, resp: Response, exception: HTTPError) -> None:\n"},
])
M2('c04-k2-negotiation-helper-swaps-the-offers', 'C04', 'R4', [
    {'file': 'falcon/app_helpers.py',
     'old': '    preferred = req.client_prefers(predefined + media_handlers)\n',
     'new': '    preferred = _negotiate(req, predefined, media_handlers)\n'},
    {'file': 'falcon/app_helpers.py',
     'old': 'def default_serialize_error(req: Request, resp: Response, exception: HTTPError) -> None:\n',
     'new': 'def _negotiate(req, first, second):\n    return req.client_prefers(second + first)\n\n\ndef default_serialize_error(req: Request, resp: Response, exception: HTTPError) -> None:\n'},
])
M2('c04-k2-append-header-delimiter-skips-substring-duplicate', 'C04', 'R4', [
    {'file': 'falcon/response.py',
     'old': '    def append_header(self, name: str, value: str) -> None:\n',
     'new': "    def append_header(self, name: str, value: str, *, delimiter: str = ', ') -> None:\n"},
    {'file': 'falcon/response.py',
     'old': "            if name in self._headers:\n                value = self._headers[name] + ', ' + value\n\n            self._headers[name] = value\n",
     'new': '            if name in self._headers:\n                current = self._headers[name]\n\n                if value in current:\n                    return\n\n                value = current + delimiter + value\n\n            self._headers[name] = value\n'},
])
M2('c04-k2-append-header-delimiter-default-is-a-blank', 'C04', 'R4', [
    {'file': 'falcon/response.py',
     'old': '    def append_header(self, name: str, value: str) -> None:\n',
     'new': "    def append_header(self, name: str, value: str, *, delimiter: str = ' ') -> None:\n"},
    {'file': 'falcon/response.py',
     'old': "                value = self._headers[name] + ', ' + value\n",
     'new': '                value = self._headers[name] + delimiter + value\n'},
], also=('C15',))
M2('c04-k2-serializer-vary-parameter-default-not-accept', 'C04', 'R4', [
    {'file': 'falcon/app_helpers.py',
     'old': 'def default_serialize_error(req: Request, resp: Response, exception: HTTPError) -> None:\n',
     'new': "def default_serialize_error(req: Request, resp: Response, exception: HTTPError, *, _vary: str = 'Accept-Encoding') -> None:\n"},
    {'file': 'falcon/app_helpers.py',
     'old': "    resp.append_header('Vary', 'Accept')\n",
     'new': "    resp.append_header('Vary', _vary)\n"},
])
M2('c04-k2-compose-helper-forgets-the-headers', 'C04', 'R4', [
    {'file': 'falcon/app.py',
     'old': '        resp.status = error.status\n\n        if error.headers is not None:\n            resp.set_headers(error.headers)\n\n        self._serialize_error(req, resp, error)\n',
     'new': '        self._copy_status_and_headers(resp, error)\n\n        self._serialize_error(req, resp, error)\n\n    def _copy_status_and_headers(self, resp, source):\n        resp.status = source.status\n'},
])
M2('c04-k2-compose-helper-called-after-the-serializer', 'C04', 'R4', [
    {'file': 'falcon/app.py',
     'old': '        resp.status = error.status\n\n        if error.headers is not None:\n            resp.set_headers(error.headers)\n\n        self._serialize_error(req, resp, error)\n',
     'new': '        self._serialize_error(req, resp, error)\n        self._copy_status_and_headers(resp, error)\n\n    def _copy_status_and_headers(self, resp, source):\n        resp.status = source.status\n\n        if source.headers is not None:\n            resp.set_headers(source.headers)\n'},
])
M2('c04-k2-compose-locals-headers-of-the-response', 'C04', 'R4', [
    {'file': 'falcon/app.py',
     'old': '        resp.status = error.status\n\n        if error.headers is not None:\n            resp.set_headers(error.headers)\n\n        self._serialize_error(req, resp, error)\n',
     'new': '        status = error.status\n        resp.status = status\n\n        headers = resp.headers\n        if headers is not None:\n            resp.set_headers(headers)\n\n        serialize = self._serialize_error\n        serialize(req, resp, error)\n'},
])
M2('c04-k2-reset-helper-forgets-media', 'C04', 'R3', [
    {'file': 'falcon/app.py',
     'old': '        resp.text = resp.data = resp.media = None\n        if err_handler is not None:\n',
     'new': '        _reset_body(resp)\n        if err_handler is not None:\n'},
    {'file': 'falcon/app.py',
     'old': 'class App:\n',
     'new': 'def _reset_body(resp):\n    resp.text = resp.data = None\n\n\nclass App:\n'},
])
M2('c04-k2-reset-helper-called-after-the-handler', 'C04', 'R3', [
    {'file': 'falcon/app.py',
     'old': '        resp.text = resp.data = resp.media = None\n        if err_handler is not None:\n',
     'new': '        if err_handler is not None:\n'},
    {'file': 'falcon/app.py',
     'old': '                err_handler(req, resp, ex, params)\n            except HTTPStatus as status:\n                self._compose_status_response(req, resp, status)\n',
     'new': '                err_handler(req, resp, ex, params)\n                _reset_body(resp)\n            except HTTPStatus as status:\n                self._compose_status_response(req, resp, status)\n'},
    {'file': 'falcon/app.py',
     'old': 'class App:\n',
     'new': 'def _reset_body(resp):\n    resp.text = resp.data = resp.media = None\n\n\nclass App:\n'},
])
M2('c04-k2-python-handler-compose-alias-400', 'C04', 'R5', [
    {'file': 'falcon/app.py',
     'old': '        req.log_error(traceback.format_exc())\n        self._compose_error_response(req, resp, HTTPInternalServerError())\n',
     'new': '        req.log_error(traceback.format_exc())\n        compose = self._compose_error_response\n        compose(req, resp, HTTPBadRequest())\n'},
])
M2('c04-k2-to-dict-description-local-by-truthiness', 'C04', 'R4', [
    {'file': 'falcon/http_error.py',
     'old': "        if self.description is not None:\n            obj['description'] = self.description\n",
     'new': "        description = self.description\n        if description:\n            obj['description'] = description\n"},
])
M2('c04-k2-registry-alias-setdefault', 'C04', 'R2', [
    {'file': 'falcon/app.py',
     'old': '        for exc in exception_tuple:\n            if not issubclass(exc, BaseException):\n                raise TypeError(\'"exception" must be an exception type.\')\n\n            self._error_handlers[exc] = handler\n',
     'new': '        handlers = self._error_handlers\n        for exc in exception_tuple:\n            if not issubclass(exc, BaseException):\n                raise TypeError(\'"exception" must be an exception type.\')\n\n            handlers.setdefault(exc, handler)\n'},
])
M2('c04-k2-default-handlers-helper-forgets-httpstatus', 'C04', 'R2', [
    {'file': 'falcon/app.py',
     'old': '        self.add_error_handler(Exception, self._python_error_handler)\n        self.add_error_handler(HTTPError, self._http_error_handler)\n        self.add_error_handler(HTTPStatus, self._http_status_handler)\n',
     'new': '        self._add_default_error_handlers()\n'},
    {'file': 'falcon/app.py',
     'old': '    def set_error_serializer(self, serializer: ErrorSerializer) -> None:',
     'new': '    def _add_default_error_handlers(self) -> None:\n        self.add_error_handler(Exception, self._python_error_handler)\n        self.add_error_handler(HTTPError, self._http_error_handler)\n\n    def set_error_serializer(self, serializer: ErrorSerializer) -> None:'},
])
M2('c04-k2-to-json-serialize-alias-filtered-dict', 'C04', 'R4', [
    {'file': 'falcon/http_error.py',
     'old': '        obj = self.to_dict()\n        if handler is None:\n            handler = _DEFAULT_JSON_HANDLER\n        # NOTE: the json handler requires the sync serialize interface\n        return handler.serialize(obj, MEDIA_JSON)\n',
     'new': '        if handler is None:\n            handler = _DEFAULT_JSON_HANDLER\n        serialize = handler.serialize\n        # NOTE: the json handler requires the sync serialize interface\n        return serialize({k: v for k, v in self.to_dict().items() if v}, MEDIA_JSON)\n'},
])
M('c04-k2-ctor-tuple-assignment-drops-code', 'C04', 'R4', 'falcon/http_error.py',
  "        self.headers = headers\n        self.code = code\n", "        self.headers, self.code = headers, None\n")
M2('c04-k2-xml-subelement-alias-code-by-truthiness', 'C04', 'R4', [
    {'file': 'falcon/http_error.py',
     'old': "        et.SubElement(error_element, 'title').text = self.title\n",
     'new': "        sub = et.SubElement\n        sub(error_element, 'title').text = self.title\n"},
    {'file': 'falcon/http_error.py',
     'old': "        if self.code is not None:\n            et.SubElement(error_element, 'code').text = str(self.code)\n",
     'new': "        if self.code:\n            sub(error_element, 'code').text = str(self.code)\n"}])
M('c04-k2-to-dict-alias-code-from-title', 'C04', 'R4', 'falcon/http_error.py',
  "        obj = obj_type()\n\n        obj['title'] = self.title\n\n        if self.description is not None:\n            obj['description'] = self.description\n\n        if self.code is not None:\n            obj['code'] = self.code\n",
  "        obj = obj_type()\n        doc = obj\n\n        doc['title'] = self.title\n\n        if self.description is not None:\n            doc['description'] = self.description\n\n        if self.code is not None:\n            doc['code'] = self.title\n")
M('c04-k2-error-status-local-2xx', 'C04', 'R4', 'falcon/errors.py',
  "        super().__init__(\n            status.HTTP_410,\n", "        gone = status.HTTP_203\n        super().__init__(\n            gone,\n")
# k3 (k3-c06-1): `d[k] if k in d else c` / `k in d and d[k]` / `if k not in d: .. else: d[k]` are read as guarded lookups by R6;
# refactoring + break: the guard names ANOTHER key, ANOTHER mapping, or the lookup sits on the arm where the key is absent
_QS_TRY = """        try:
            self.query_string = env['QUERY_STRING']
        except KeyError:
            self.query_string = ''
            self._params: Dict[str, Union[str, List[str]]] = {}
        else:
            if self.query_string:
                self._params = parse_query_string(
                    self.query_string,
                    keep_blank=self.options.keep_blank_qs_values,
                    csv=self.options.auto_parse_qs_csv,
                )

            else:
                self._params = {}
"""
_QS_TAIL = """        if self.query_string:
            self._params: Dict[str, Union[str, List[str]]] = parse_query_string(
                self.query_string,
                keep_blank=self.options.keep_blank_qs_values,
                csv=self.options.auto_parse_qs_csv,
            )
        else:
            self._params = {}
"""
M('c04-k3-query-string-ifexp-guard-tests-another-key', 'C04', 'R6', 'falcon/request.py', _QS_TRY,
  "        self.query_string = env['QUERY_STRING'] if 'PATH_INFO' in env else ''\n" + _QS_TAIL, also=('C06',))
M('c04-k3-query-string-ifexp-lookup-on-the-absent-arm', 'C04', 'R6', 'falcon/request.py', _QS_TRY,
  "        self.query_string = env['QUERY_STRING'] if 'QUERY_STRING' not in env else ''\n" + _QS_TAIL, also=('C06',))
M('c04-k3-query-string-ifexp-guard-tests-another-mapping', 'C04', 'R6', 'falcon/request.py', _QS_TRY,
  "        self.query_string = env['QUERY_STRING'] if 'QUERY_STRING' in self.options.__dict__ else ''\n" + _QS_TAIL, also=('C06',))
M('c04-k3-query-string-or-chain-lookup-when-absent', 'C04', 'R6', 'falcon/request.py', _QS_TRY,
  "        self.query_string = ('QUERY_STRING' in env or env['QUERY_STRING']) and ''\n" + _QS_TAIL, also=('C06',))
M('c04-k3-query-string-else-arm-of-in-test', 'C04', 'R6', 'falcon/request.py', _QS_TRY,
  "        if 'QUERY_STRING' in env:\n            self.query_string = ''\n        else:\n            self.query_string = env['QUERY_STRING']\n" + _QS_TAIL, also=('C06',))
# k3: a private module constant as the answer of req.accept is folded by R8; refactoring + break: the constant is blank
M2('c04-k3-accept-module-constant-blank', 'C04', 'R8', [
    {'file': 'falcon/request.py',
     'old': "            return self.env['HTTP_ACCEPT'] or '*/*'\n        except KeyError:\n            return '*/*'\n",
     'new': "            return self.env['HTTP_ACCEPT'] or _ACCEPT_ANYTHING\n        except KeyError:\n            return _ACCEPT_ANYTHING\n"},
    {'file': 'falcon/request.py', 'old': "\nclass Request:\n", 'new': "\n_ACCEPT_ANYTHING = ''\n\n\nclass Request:\n"}])

# ---- fourth preserving wave (k4-c04-2): the whole negotiation block of default_serialize_error extracted into a module-level
# helper that answers with early returns (`return preferred` / `return MEDIA_JSON` / `return MEDIA_XML` / `return None`).
# R4 (f) reads each `return <e>` of the helper like `preferred = <e>` of the inlined block, per CFG path.
# "refactoring + break": that helper PLUS a shortcut that selects a type without / against the negotiation.
_K4_BLOCK = """    predefined = (
        [MEDIA_JSON, 'text/xml', MEDIA_XML]
        if options.xml_error_serialization
        else [MEDIA_JSON]
    )
    media_handlers = [mt for mt in options.media_handlers if mt not in predefined]
    # NOTE(caselit,vytas): Add the registered handlers after the predefined
    #   ones. This ensures that in the case of an equal match, the first one
    #   (JSON) is selected and that the q parameter is taken into consideration
    #   when selecting the media handler.
    preferred = req.client_prefers(predefined + media_handlers)

    if preferred is None:
        # NOTE(kgriffs): See if the client expects a custom media
        # type based on something Falcon supports. Returning something
        # is probably better than nothing, but if that is not
        # desired, this behavior can be customized by adding a
        # custom HTTPError serializer for the custom type.
        accept = req.accept.lower()

        # NOTE(kgriffs): Simple heuristic, but it's fast, and
        # should be sufficiently accurate for our purposes. Does
        # not take into account weights if both types are
        # acceptable (simply chooses JSON). If it turns out we
        # need to be more sophisticated, we can always change it
        # later (YAGNI).
        if '+json' in accept:
            preferred = MEDIA_JSON
        elif '+xml' in accept:
            # NOTE(caselit): Ignore xml_error_serialization when
            #   checking if the media should be XML. This gives a chance to
            #   an XML media handler, if any, to be used.
            preferred = MEDIA_XML
"""
_K4_SER = 'def default_serialize_error(req: Request, resp: Response, exception: HTTPError) -> None:\n'
_K4_HEAD = """def _negotiate_error_media_type(req, options):
    predefined = (
        [MEDIA_JSON, 'text/xml', MEDIA_XML]
        if options.xml_error_serialization
        else [MEDIA_JSON]
    )
    media_handlers = [mt for mt in options.media_handlers if mt not in predefined]
"""
_K4_NEG = """    preferred = req.client_prefers(predefined + media_handlers)

"""
_K4_FOUND = """    if preferred is not None:
        return preferred

"""
_K4_TAIL = """    accept = req.accept.lower()

    if '+json' in accept:
        return MEDIA_JSON

    if '+xml' in accept:
        return MEDIA_XML

    return None


"""


def _k4_helper(mid, shortcut='', found=_K4_FOUND):
    M2(mid, 'C04', 'R4', [
        {'file': 'falcon/app_helpers.py', 'old': _K4_BLOCK, 'new': '    preferred = _negotiate_error_media_type(req, options)\n'},
        {'file': 'falcon/app_helpers.py', 'old': _K4_SER, 'new': _K4_HEAD + shortcut + _K4_NEG + found + _K4_TAIL + _K4_SER}])


_k4_helper('c04-k4-negotiation-helper-json-prefix-shortcut',
           "    accept = req.accept\n    if accept == '*/*' or accept.startswith(MEDIA_JSON):\n        return MEDIA_JSON\n\n")
_k4_helper('c04-k4-negotiation-helper-json-substring-skips-client-prefers',
           "    if 'json' in req.accept.lower():\n        return MEDIA_JSON\n\n")
_k4_helper('c04-k4-negotiation-helper-xml-text-skips-client-prefers',
           "    if req.accept in (MEDIA_XML, 'text/xml'):\n        return MEDIA_XML\n\n")
_k4_helper('c04-k4-negotiation-helper-catch-all-returns-xml',
           "    if req.accept == '*/*':\n        return MEDIA_XML\n\n")
_k4_helper('c04-k4-negotiation-helper-suffix-heuristic-overrides-answer',
           found="    if preferred is not None and preferred == MEDIA_JSON:\n        return preferred\n\n")
M2('c04-k4-negotiation-helper-handlers-offered-first', 'C04', 'R4', [
    {'file': 'falcon/app_helpers.py', 'old': _K4_BLOCK, 'new': '    preferred = _negotiate_error_media_type(req, options)\n'},
    {'file': 'falcon/app_helpers.py', 'old': _K4_SER,
     'new': _K4_HEAD + _K4_NEG.replace('predefined + media_handlers', 'media_handlers + predefined') + _K4_FOUND + _K4_TAIL + _K4_SER}])
