"""Mutation operators for C05 (protocol-valid, length-consistent responses)."""

from .mutants import M, M2

A = 'falcon/app.py'
G = 'falcon/asgi/app.py'

# ------------------------------------------------------- R1 ASGI event protocol
M('c05-asgi-eof-twice', 'C05', 'R1', G,
  "\n        await send(_EVT_RESP_EOF)\n", "\n        await send(_EVT_RESP_EOF)\n        await send(_EVT_RESP_EOF)\n")
M('c05-asgi-stream-chunk-without-more-body', 'C05', 'R1', G,
  """                                'body': data,
                                'more_body': True,
""", """                                'body': data,
""")
M('c05-asgi-read-chunk-more-body-false', 'C05', 'R1', G,
  """                                    'body': data or b'',
                                    'more_body': True,
""", """                                    'body': data or b'',
                                    'more_body': False,
""")
M('c05-asgi-bodiless-no-final-event', 'C05', 'R1', G,
  "\n            await send(_EVT_RESP_EOF)\n", "\n")
M('c05-asgi-sse-no-final-event', 'C05', 'R1', G,
  """            await send({'type': EventType.HTTP_RESPONSE_BODY})
            return
""", """            return
""")
M('c05-asgi-data-branch-falls-through', 'C05', 'R1', G,
  """            if resp._registered_callbacks:
                self._schedule_callbacks(resp)
            return

        stream = resp.stream
""", """            if resp._registered_callbacks:
                self._schedule_callbacks(resp)

        stream = resp.stream
""")

# ------------------------------------------------------------------- R2 WSGI
M('c05-wsgi-status-not-normalised', 'C05', 'R2', A,
  "        start_response(resp_status, headers)\n", "        start_response(resp.status, headers)\n")
M('c05-wsgi-start-response-skipped-when-empty', 'C05', 'R2', A,
  "        start_response(resp_status, headers)\n        return body\n",
  "        if body:\n            start_response(resp_status, headers)\n        return body\n")
M('c05-wsgi-start-response-twice-for-head', 'C05', 'R2', A,
  """        if req.method == 'HEAD' or resp_status in _BODILESS_STATUS_CODES:
            body = []
""", """        if req.method == 'HEAD' or resp_status in _BODILESS_STATUS_CODES:
            body = []
            start_response(resp_status, resp._wsgi_headers(None))
""")
M('c05-wsgi-headers-bypass-wsgi-headers', 'C05', 'R2', A,
  "resp._wsgi_headers(default_media_type)\n", "list(resp._headers.items())\n")

# -------------------------------------------------------------- R3 precedence
M('c05-wsgi-render-data-before-text', 'C05', 'R3', 'falcon/response.py',
  """        text = self.text
        if text is None:
            data = self._data
""", """        text = self.text
        data = self._data
        if data is not None:
            return data
        if text is None:
            data = self._data
""")
M('c05-asgi-inline-media-before-data', 'C05', 'R3', G,
  "                    if data is None and resp._media is not None:\n", "                    if resp._media is not None:\n")
M('c05-asgi-response-media-beats-text', 'C05', 'R3', 'falcon/asgi/response.py',
  """        text = self.text
        if text is None:
""", """        text = self.text
        if text is None or self._media is not None:
""")
M('c05-wsgi-stream-beats-rendered-body', 'C05', 'R3', A,
  """        if data is not None:
            return [data], len(data)
""", """        if data is not None and resp.stream is None:
            return [data], len(data)
""")
M('c05-asgi-stream-beats-rendered-body', 'C05', 'R3', G,
  """        if data is not None:
            # PERF(kgriffs): Böse mußt sein.""", """        if data is not None and not resp.stream:
            # PERF(kgriffs): Böse mußt sein.""")

# ------------------------------------------------------- R4 bodiless / typeless
M('c05-wsgi-bodiless-without-304', 'C05', 'R4', A, "        status.HTTP_304,\n", "", count=2, occurrence=0)
M('c05-asgi-typeless-without-304', 'C05', 'R4', G,
  "_TYPELESS_STATUS_CODES = frozenset([204, 304])", "_TYPELESS_STATUS_CODES = frozenset([204])")
M('c05-asgi-typeless-not-subset', 'C05', 'R4', G,
  "_TYPELESS_STATUS_CODES = frozenset([204, 304])", "_TYPELESS_STATUS_CODES = frozenset([204, 205, 304])")
M('c05-wsgi-head-keeps-body', 'C05', 'R4', A,
  """        if req.method == 'HEAD' or resp_status in _BODILESS_STATUS_CODES:
            body = []
""", """        if req.method == 'HEAD' or resp_status in _BODILESS_STATUS_CODES:
            pass
""")
M('c05-asgi-head-not-bodiless', 'C05', 'R4', G,
  "        if req.method == 'HEAD' or resp_status in _BODILESS_STATUS_CODES:\n", "        if resp_status in _BODILESS_STATUS_CODES:\n")
M('c05-asgi-bodiless-sends-body', 'C05', 'R4', G,
  "\n            await send(_EVT_RESP_EOF)\n", "\n            await send({'type': EventType.HTTP_RESPONSE_BODY, 'body': data or b''})\n")
M('c05-wsgi-typeless-keeps-media-type', 'C05', 'R4', A,
  "                default_media_type = None\n", "                pass\n")
M('c05-asgi-media-type-dropped-for-every-bodiless', 'C05', 'R4', G,
  """            if resp_status in _TYPELESS_STATUS_CODES:
                default_media_type = None
            elif (
""", """            default_media_type = None
            if resp_status in _TYPELESS_STATUS_CODES:
                pass
            elif (
""")
M('c05-wsgi-headers-default-content-type-inverted', 'C05', 'R4', 'falcon/response.py',
  "        if media_type is not None and 'content-type' not in headers:\n", "        if media_type is not None and 'content-type' in headers:\n")
M('c05-asgi-headers-default-content-type-dropped', 'C05', 'R4', 'falcon/asgi/response.py',
  """        if media_type is not None and 'content-type' not in headers:
            headers['content-type'] = media_type
""", """        if media_type is not None and 'content-type' not in headers and self._extra_headers:
            headers['content-type'] = media_type
""")

# ---------------------------------------------------- R5 forced Content-Length
M('c05-asgi-content-length-conditional', 'C05', 'R5', G,
  "            resp._headers['content-length'] = str(len(data))\n",
  "            if 'content-length' not in resp._headers:\n                resp._headers['content-length'] = str(len(data))\n")
M('c05-wsgi-content-length-conditional', 'C05', 'R5', A,
  """            if length is not None:
                resp._headers['content-length'] = str(length)

        headers""", """            if length is not None and 'content-length' not in resp._headers:
                resp._headers['content-length'] = str(length)

        headers""")
M('c05-wsgi-length-of-text-not-bytes', 'C05', 'R5', A,
  "            return [data], len(data)\n", "            return [data], len(resp.text or '')\n")
M('c05-asgi-length-of-text-not-bytes', 'C05', 'R5', G,
  "            resp._headers['content-length'] = str(len(data))\n", "            resp._headers['content-length'] = str(len(resp.text or ''))\n")
M('c05-asgi-zero-length-not-set', 'C05', 'R5', G,
  """        if not stream:
            resp._headers['content-length'] = '0'
""", """        if not stream:
            pass
""")
M('c05-wsgi-length-rebound', 'C05', 'R5', A,
  """        resp_status: str = code_to_http_status(resp.status)
""", """        resp_status: str = code_to_http_status(resp.status)
        length = resp.content_length or length
""")

# -------------------------------------------------------- R6 close exactly once
M('c05-asgi-read-loop-close-outside-finally', 'C05', 'R6', G,
  """                finally:
                    if hasattr(stream, 'close'):
                        await stream.close()
            else:
""", """                finally:
                    pass
                if hasattr(stream, 'close'):
                    await stream.close()
            else:
""")
M('c05-asgi-iter-loop-close-twice', 'C05', 'R6', G,
  """                        if data is None:
                            break
""", """                        if data is None:
                            await stream.close()
                            break
""")
M('c05-asgi-iter-loop-close-only-on-error', 'C05', 'R6', G,
  """                finally:
                    # NOTE(vytas): This could be DRYed with the above identical
                    #   twoliner in a one large block, but OTOH we would be
                    #   unable to reuse the current try.. except.
                    if hasattr(stream, 'close'):
                        await stream.close()
""", """                except Exception:
                    if hasattr(stream, 'close'):
                        await stream.close()
                    raise
""")
# task cancellation (asyncio.CancelledError is a BaseException) must reach the close as well
_READ_FINALLY = """                finally:
                    if hasattr(stream, 'close'):
                        await stream.close()
            else:
"""
M('c05-asgi-read-loop-close-except-exception-else', 'C05', 'R6', G, _READ_FINALLY,
  """                except Exception:
                    if hasattr(stream, 'close'):
                        try:
                            await stream.close()
                        except Exception:
                            pass
                    raise
                else:
                    if hasattr(stream, 'close'):
                        await stream.close()
            else:
""")
M('c05-asgi-read-loop-close-except-oserror-typeerror-else', 'C05', 'R6', G, _READ_FINALLY,
  """                except (OSError, RuntimeError, Exception):
                    if hasattr(stream, 'close'):
                        await stream.close()
                    raise
                else:
                    if hasattr(stream, 'close'):
                        await stream.close()
            else:
""")
M('c05-asgi-iter-loop-finally-closes-only-when-no-cancel', 'C05', 'R6', G,
  """                finally:
                    # NOTE(vytas): This could be DRYed with the above identical
                    #   twoliner in a one large block, but OTOH we would be
                    #   unable to reuse the current try.. except.
                    if hasattr(stream, 'close'):
                        await stream.close()
""", """                except Exception:
                    if hasattr(stream, 'close'):
                        await stream.close()
                    raise
                else:
                    if hasattr(stream, 'close'):
                        await stream.close()
""")
M('c05-closeable-iterator-close-noop', 'C05', 'R6', 'falcon/app_helpers.py',
  "            self._stream.close()\n", "            self._stream.flush()\n")
M('c05-wsgi-filelike-plain-iterator', 'C05', 'R6', A,
  """                    iterable = helpers.CloseableStreamIterator(
                        stream,  # type: ignore[arg-type]
                        self._STREAM_BLOCK_SIZE,
                    )
""", """                    iterable = iter(lambda: stream.read(self._STREAM_BLOCK_SIZE), b'')
""")

# ------------------------------------------------ R7 SSE framing / status line
M('c05-sse-single-newline', 'C05', 'R7', 'falcon/asgi/structures.py',
  "        return (block + '\\n').encode()\n", "        return block.encode()\n")
M('c05-sse-retry-without-newline', 'C05', 'R7', 'falcon/asgi/structures.py',
  "            block += f'retry: {self.retry}\\n'\n", "            block += f'retry: {self.retry}'\n")
M('c05-sse-ping-single-newline', 'C05', 'R7', 'falcon/asgi/structures.py',
  "            return b': ping\\n\\n'\n", "            return b': ping\\n'\n")
M('c05-status-format-without-space', 'C05', 'R7', 'falcon/util/misc.py',
  "        return '{} {}'.format(code, _DEFAULT_HTTP_REASON)\n", "        return '{}{}'.format(code, _DEFAULT_HTTP_REASON)\n")
M('c05-status-range-check-dropped', 'C05', 'R7', 'falcon/util/misc.py',
  """    if not 100 <= code <= 999:
        raise ValueError('{!r} is not a valid status code'.format(status))
""", "")
M('c05-status-str-passthrough-without-space', 'C05', 'R7', 'falcon/util/misc.py',
  "    if isinstance(status, str) and ' ' in status:\n", "    if isinstance(status, str):\n")
M('c05-status-table-typo', 'C05', 'R7', 'falcon/status_codes.py',
  "HTTP_208: Final[str] = '208 Already Reported'", "HTTP_208: Final[str] = '280 Already Reported'")

# ------------------------------- R1 freshness: a sent event object is not modified afterwards
# (wave 5, s5-c05-1: one body-event dict built before the stream loops, payload swapped per chunk)
M2('c05-asgi-stream-chunk-event-reused', 'C05', 'R1', [
    {'file': G, 'old': """            if hasattr(stream, 'read'):
                try:
                    while True:
""", 'new': """            chunk_event: AsgiSendMsg = {
                'type': 'http.response.body',
                'body': b'',
                'more_body': True,
            }

            if hasattr(stream, 'read'):
                try:
                    while True:
"""},
    {'file': G, 'old': """                            await send(
                                {
                                    'type': EventType.HTTP_RESPONSE_BODY,
                                    # NOTE(kgriffs): Handle the case in which
                                    #   data is None
                                    'body': data or b'',
                                    'more_body': True,
                                }
                            )
""", 'new': """                            chunk_event['body'] = data or b''
                            await send(chunk_event)
"""},
    {'file': G, 'old': """                        await send(
                            {
                                'type': EventType.HTTP_RESPONSE_BODY,
                                'body': data,
                                'more_body': True,
                            }
                        )
""", 'new': """                        chunk_event['body'] = data
                        await send(chunk_event)
"""}])
M2('c05-asgi-sse-event-dict-reused', 'C05', 'R1', [
    {'file': G, 'old': """            async for event in sse_emitter:
                if not event:
""", 'new': """            sse_event = {'type': EventType.HTTP_RESPONSE_BODY, 'body': b'', 'more_body': True}
            async for event in sse_emitter:
                if not event:
"""},
    {'file': G, 'old': """                await send(
                    {
                        'type': EventType.HTTP_RESPONSE_BODY,
                        'body': event.serialize(sse_handler),
                        'more_body': True,
                    }
                )
""", 'new': """                sse_event['body'] = event.serialize(sse_handler)
                await send(sse_event)
"""}])
M2('c05-asgi-module-chunk-event-mutated', 'C05', 'R1', [
    {'file': G, 'old': "_EVT_RESP_EOF: AsgiSendMsg = {'type': EventType.HTTP_RESPONSE_BODY}\n",
     'new': "_EVT_RESP_EOF: AsgiSendMsg = {'type': EventType.HTTP_RESPONSE_BODY}\n"
            "_EVT_RESP_CHUNK: AsgiSendMsg = {'type': EventType.HTTP_RESPONSE_BODY, 'body': b'', 'more_body': True}\n"},
    {'file': G, 'old': """                        await send(
                            {
                                'type': EventType.HTTP_RESPONSE_BODY,
                                'body': data,
                                'more_body': True,
                            }
                        )
""", 'new': """                        _EVT_RESP_CHUNK['body'] = data
                        await send(_EVT_RESP_CHUNK)
"""}], also=('C19',))   # C19 R3: a module-level table modified per request
M('c05-asgi-data-event-cleared-after-send', 'C05', 'R1', G,
  """            await send(
                {
                    # PERF(vytas): Inline the value of
                    #   EventType.HTTP_RESPONSE_BODY in this critical code path.
                    'type': 'http.response.body',
                    'body': data,
                }
            )
""", """            body_event = {'type': 'http.response.body', 'body': data}
            await send(body_event)
            body_event['body'] = b''
""")

# ------------------------ R4 by value: the sets the two status branches consult, whatever they are called
# (wave 5, s5-c05-3: the WSGI typeless test consults the bodiless set)
M('c05-wsgi-typeless-test-consults-bodiless-set', 'C05', 'R4', A,
  "            if resp_status in _TYPELESS_STATUS_CODES:\n", "            if resp_status in _BODILESS_STATUS_CODES:\n")
M('c05-asgi-typeless-test-only-204', 'C05', 'R4', G,
  "            if resp_status in _TYPELESS_STATUS_CODES:\n", "            if resp_status == 204:\n")
M('c05-wsgi-typeless-test-int-codes', 'C05', 'R4', A,
  "            if resp_status in _TYPELESS_STATUS_CODES:\n", "            if resp_status in (204, 304):\n")
M('c05-asgi-bodiless-test-inline-with-205', 'C05', 'R4', G,
  "        if req.method == 'HEAD' or resp_status in _BODILESS_STATUS_CODES:\n",
  "        if req.method == 'HEAD' or resp_status in (100, 101, 204, 205, 304):\n")

# ------------------- R5: no computed Content-Length for a bodiless status answered to a non-HEAD request
M('c05-wsgi-length-backfill-for-bodiless-status', 'C05', 'R5', A,
  """                length is not None
                and req.method == 'HEAD'
                and resp_status not in _BODILESS_STATUS_CODES
                and 'content-length' not in resp._headers
""", """                length is not None
                and 'content-length' not in resp._headers
""")
M('c05-asgi-length-backfill-for-bodiless-status', 'C05', 'R5', G,
  """                (data is not None or not resp.stream)
                and req.method == 'HEAD'
                and resp_status not in _BODILESS_STATUS_CODES
                and 'content-length' not in resp._headers
""", """                (data is not None or not resp.stream)
                and 'content-length' not in resp._headers
""")

# ------------------- R7 (wave 7, s7-c05-3): the number rendered into the status line is the int()-normalised code,
# never the raw argument -- read alike from f-strings, str.format, % and concatenation
M('c05-status-fstring-renders-raw-argument', 'C05', 'R7', 'falcon/util/misc.py',
  "        return '{} {}'.format(code, _DEFAULT_HTTP_REASON)\n", "        return f'{status} {_DEFAULT_HTTP_REASON}'\n")
M('c05-status-format-renders-raw-argument', 'C05', 'R7', 'falcon/util/misc.py',
  "        return '{} {}'.format(code, _DEFAULT_HTTP_REASON)\n", "        return '{} {}'.format(status, _DEFAULT_HTTP_REASON)\n")
M('c05-status-percent-renders-raw-argument', 'C05', 'R7', 'falcon/util/misc.py',
  "        return '{} {}'.format(code, _DEFAULT_HTTP_REASON)\n", "        return '%s %s' % (status, _DEFAULT_HTTP_REASON)\n")
M('c05-status-concat-renders-raw-argument', 'C05', 'R7', 'falcon/util/misc.py',
  "        return '{} {}'.format(code, _DEFAULT_HTTP_REASON)\n", "        return str(status) + ' ' + _DEFAULT_HTTP_REASON\n")
M('c05-status-fstring-without-space', 'C05', 'R7', 'falcon/util/misc.py',
  "        return '{} {}'.format(code, _DEFAULT_HTTP_REASON)\n", "        return f'{code}{_DEFAULT_HTTP_REASON}'\n")
M2('c05-status-fstrings-range-check-dropped', 'C05', 'R7', [
    {'file': 'falcon/util/misc.py', 'old': "        return '{} {}'.format(code, _DEFAULT_HTTP_REASON)\n", 'new': "        return f'{code} {_DEFAULT_HTTP_REASON}'\n"},
    {'file': 'falcon/util/misc.py', 'old': """    if not 100 <= code <= 999:
        raise ValueError('{!r} is not a valid status code'.format(status))
""", 'new': ""},
])

# ------------------------------------------------------------------ auto-mutation sweep (sa-am*)
RSP = 'falcon/response.py'
ARSP = 'falcon/asgi/response.py'
# R9 (sa-am00459): the 'body' of a body event is never None
M('c05-asgi-read-chunk-none-not-normalised', 'C05', 'R9', G, "                                    'body': data or b'',\n", "                                    'body': data,\n")
M('c05-asgi-read-chunk-normalised-to-none', 'C05', 'R9', G, "                                    'body': data or b'',\n", "                                    'body': data or None,\n")
M('c05-asgi-iter-chunk-none-not-excluded', 'C05', 'R9', G,
  "                        if data is None:\n                            break\n\n", "")
# R10a (sa-am00270): the disconnect watcher is cancelled before it is awaited
_CANCEL = "            watcher.cancel()\n            try:\n                await watcher\n"
M('c05-asgi-sse-watcher-not-cancelled', 'C05', 'R10', G, _CANCEL, "            try:\n                await watcher\n")
M('c05-asgi-sse-watcher-cancelled-after-await', 'C05', 'R10', G, _CANCEL, "            try:\n                await watcher\n                watcher.cancel()\n")
M('c05-asgi-sse-watcher-cancelled-only-when-done', 'C05', 'R10', G, _CANCEL,
  "            if watcher.done():\n                watcher.cancel()\n            try:\n                await watcher\n")
# R10b (sa-am00325): the emitter is validated before the response start
_REJECT = """            if isasyncgenfunction(sse_emitter):
                raise TypeError(
                    'Response.sse must be an async iterable. This can be obtained by '
                    'simply executing the async generator function and then setting '
                    'the result to Response.sse, e.g.: '
                    'resp.sse = some_asyncgen_function()'
                )
"""
M('c05-asgi-sse-emitter-check-does-nothing', 'C05', 'R10', G, _REJECT, "            if isasyncgenfunction(sse_emitter):\n                pass\n")
M('c05-asgi-sse-emitter-check-removed', 'C05', 'R10', G, _REJECT, "")
M2('c05-asgi-sse-emitter-check-after-start', 'C05', 'R10', [
    {'file': G, 'old': _REJECT, 'new': ""},
    {'file': G, 'old': "            sse_handler, _, _ = self.resp_options.media_handlers._resolve(\n", 'new': _REJECT + "            sse_handler, _, _ = self.resp_options.media_handlers._resolve(\n"}])
# R11 (sa-am00952 / sa-am00956): optional fast-path serializer; render cache filled before it is read
_ADISPATCH = """                    if serialize_sync:
                        self._media_rendered = serialize_sync(self._media)
                    else:
                        self._media_rendered = await handler.serialize_async(
                            self._media, self.content_type
                        )
"""
M('c05-asgi-render-body-inverted-fast-path', 'C05', 'R11', ARSP, _ADISPATCH, _ADISPATCH.replace("if serialize_sync:", "if not (serialize_sync):"))
M('c05-asgi-render-body-fast-path-unguarded', 'C05', 'R11', ARSP, _ADISPATCH, "                    self._media_rendered = serialize_sync(self._media)\n")
M('c05-asgi-render-body-slow-path-stores-nothing', 'C05', 'R11', ARSP, _ADISPATCH,
  "                    if serialize_sync:\n                        self._media_rendered = serialize_sync(self._media)\n                    else:\n                        pass\n")
M('c05-asgi-inlined-render-inverted-fast-path', 'C05', 'R11', G,
  "                            if serialize_sync:\n                                resp._media_rendered = serialize_sync(resp._media)\n",
  "                            if not serialize_sync:\n                                resp._media_rendered = serialize_sync(resp._media)\n")
M('c05-asgi-inlined-render-fast-path-stores-nothing', 'C05', 'R11', G,
  "                                resp._media_rendered = serialize_sync(resp._media)\n", "                                serialize_sync(resp._media)\n")
M('c05-wsgi-render-body-rendition-not-cached', 'C05', 'R11', RSP,
  "                    self._media_rendered = handler.serialize(\n                        self._media, self.content_type\n                    )\n",
  "                    data = handler.serialize(\n                        self._media, self.content_type\n                    )\n")
# R12 (sa-am02138 / sa-am02143): raw header setters stringify what the caller passed
M2('c05-set-header-value-not-stringified', 'C05', 'R12', [{'file': RSP, 'old': "        # to US-ASCII.\n        value = str(value)\n", 'new': "        # to US-ASCII.\n", 'count': 2, 'occurrence': 0}], also=('C15',))
M2('c05-append-header-value-not-stringified', 'C05', 'R12', [{'file': RSP, 'old': "        # to US-ASCII.\n        value = str(value)\n", 'new': "        # to US-ASCII.\n", 'count': 2, 'occurrence': 1}], also=('C15',))
M('c05-set-headers-value-not-stringified', 'C05', 'R12', RSP, "            value = str(value)\n", "", also=('C15',))
M2('c05-set-header-stringified-after-store', 'C05', 'R12', [
    {'file': RSP, 'old': "        # to US-ASCII.\n        value = str(value)\n", 'new': "        # to US-ASCII.\n", 'count': 2, 'occurrence': 0},
    {'file': RSP, 'old': "        self._headers[name] = value\n\n    def delete_header", 'new': "        self._headers[name] = value\n        value = str(value)\n\n    def delete_header"}],
   also=('C15',))

# R7 payload precedence data > text > json of an SSE event (wave 9: s9-c05-2)
SSEV = 'falcon/asgi/structures.py'
_SSE_TEXT_ARM = "        elif self.text is not None:\n            block += f'data: {self.text}\\n'\n"
M2('c05-sse-text-tested-before-data', 'C05', 'R7', [
    {'file': SSEV, 'old': _SSE_TEXT_ARM, 'new': ""},
    {'file': SSEV, 'old': "        if self.data is not None:\n",
     'new': "        if self.text is not None:\n            block += f'data: {self.text}\\n'\n        elif self.data is not None:\n"}])
M('c05-sse-text-arm-not-exclusive', 'C05', 'R7', SSEV, "        elif self.text is not None:\n", "        if self.text is not None:\n")
M('c05-sse-text-by-truthiness', 'C05', 'R7', SSEV, "        elif self.text is not None:\n", "        elif self.text:\n")
M('c05-sse-json-by-truthiness', 'C05', 'R7', SSEV, "        elif self.json is not None:\n", "        elif self.json:\n")
M('c05-sse-json-arm-unconditional', 'C05', 'R7', SSEV, "        elif self.json is not None:\n", "        else:\n")

# R13 SSEvent.__init__ rejects only wrongly typed arguments (wave 9: s9-c05-3)
_SSE_RETRY = "        if retry is not None and not isinstance(retry, int):\n            raise TypeError('retry must be an int')\n"
M('c05-sse-ctor-rejects-nonpositive-retry', 'C05', 'R13', SSEV, _SSE_RETRY,
  _SSE_RETRY + "\n        if retry is not None and retry <= 0:\n            raise ValueError('retry must be a positive number of milliseconds')\n")
M('c05-sse-ctor-asserts-positive-retry', 'C05', 'R13', SSEV, _SSE_RETRY, _SSE_RETRY + "        assert retry is None or retry > 0\n")
M('c05-sse-ctor-rejects-bool-retry', 'C05', 'R13', SSEV, _SSE_RETRY,
  "        if retry is not None and (isinstance(retry, bool) or not isinstance(retry, int)):\n            raise TypeError('retry must be an int')\n")
M('c05-sse-ctor-rejects-missing-event-name', 'C05', 'R13', SSEV, "        if event is not None and not isinstance(event, str):\n",
  "        if not event or not isinstance(event, str):\n")
M('c05-sse-ctor-rejects-multiline-comment', 'C05', 'R13', SSEV, "        if comment is not None and not isinstance(comment, str):\n            raise TypeError('comment must be a string')\n",
  "        if comment is not None and not isinstance(comment, str):\n            raise TypeError('comment must be a string')\n        if comment is not None and '\\n' in comment:\n            raise ValueError('comment must be a single line')\n")

# ------------------------------------------------ wave 10
# R6, WSGI _get_body decided per path over (file-like?, server file wrapper?) - also in the early-return spelling
# of the behaviour-preserving k1-c05-1
_GET_BODY_TAIL = """            if hasattr(stream, 'read'):
                if wsgi_file_wrapper is not None:
                    # TODO(kgriffs): Make block size configurable at the
                    # global level, pending experimentation to see how
                    # useful that would be. See also the discussion on
                    # this GitHub PR:
                    # https://github.com/falconry/falcon/pull/249#discussion_r11269730
                    iterable = wsgi_file_wrapper(stream, self._STREAM_BLOCK_SIZE)  # type: ignore[arg-type]
                else:
                    iterable = helpers.CloseableStreamIterator(
                        stream,  # type: ignore[arg-type]
                        self._STREAM_BLOCK_SIZE,
                    )
            else:
                iterable = stream

            return iterable, None
"""
M('c05-wsgi-early-return-filelike-unwrapped', 'C05', 'R6', A, _GET_BODY_TAIL,
  """            if hasattr(stream, 'read'):
                return stream, None
            block_size = self._STREAM_BLOCK_SIZE
            if wsgi_file_wrapper is not None:
                return wsgi_file_wrapper(stream, block_size), None
            return helpers.CloseableStreamIterator(stream, block_size), None
""")
M('c05-wsgi-filelike-unwrapped-without-server-wrapper', 'C05', 'R6', A, _GET_BODY_TAIL,
  """            if hasattr(stream, 'read') and wsgi_file_wrapper is not None:
                iterable = wsgi_file_wrapper(stream, self._STREAM_BLOCK_SIZE)
            else:
                iterable = stream

            return iterable, None
""")
M('c05-wsgi-early-return-wrapper-called-when-absent', 'C05', 'R6', A, _GET_BODY_TAIL,
  """            if not hasattr(stream, 'read'):
                return stream, None
            block_size = self._STREAM_BLOCK_SIZE
            if wsgi_file_wrapper is None:
                return wsgi_file_wrapper(stream, block_size), None
            return helpers.CloseableStreamIterator(stream, block_size), None
""")
M('c05-wsgi-early-return-plain-iterator', 'C05', 'R6', A, _GET_BODY_TAIL,
  """            if not hasattr(stream, 'read'):
                return stream, None
            block_size = self._STREAM_BLOCK_SIZE
            if wsgi_file_wrapper is not None:
                return wsgi_file_wrapper(stream, block_size), None
            return iter(lambda: stream.read(block_size), b''), None
""")
# R14 (= C04 R1, s6-c05-2): the body rendered again in the except arm of the rendering window: a second failure
# leaves __call__ before start_response
M('c05-wsgi-render-again-unprotected', 'C05', 'R14', A,
  """            req_succeeded = False

        resp_status: str = code_to_http_status(resp.status)
""", """            req_succeeded = False

            body, length = self._get_body(resp, env.get('wsgi.file_wrapper'))

        resp_status: str = code_to_http_status(resp.status)
""", also=('C03', 'C04', 'C06'))

# ---- second preserving wave (k2-*): "refactoring + break" - the behaviour-preserving shape the rules now look through
# (helper extracted, list of pieces, constant tuple, local alias, additive keyword-only parameter) PLUS the original mistake
M2('c05-k2-close-helper-closes-nothing', 'C05', 'R6', [
    {'file': 'falcon/asgi/app.py',
     'old': "                    if hasattr(stream, 'close'):\n                        await stream.close()\n",
     'new': '                    await _close_response_stream(stream)\n', 'count': 2},
    {'file': 'falcon/asgi/app.py',
     'old': 'class App(falcon.app.App):\n',
     'new': "async def _close_response_stream(stream: Any) -> None:\n    if hasattr(stream, 'close'):\n        pass\n\n\nclass App(falcon.app.App):\n"},
])
M2('c05-k2-close-helper-closes-twice', 'C05', 'R6', [
    {'file': 'falcon/asgi/app.py',
     'old': "                    if hasattr(stream, 'close'):\n                        await stream.close()\n",
     'new': '                    await _close_response_stream(stream)\n', 'count': 2},
    {'file': 'falcon/asgi/app.py',
     'old': 'class App(falcon.app.App):\n',
     'new': "async def _close_response_stream(stream: Any) -> None:\n    if hasattr(stream, 'close'):\n        await stream.close()\n        await stream.close()\n\n\nclass App(falcon.app.App):\n"},
])
M2('c05-k2-close-helper-suspends-before-closing', 'C05', 'R6', [
    {'file': 'falcon/asgi/app.py',
     'old': "                    if hasattr(stream, 'close'):\n                        await stream.close()\n",
     'new': '                    await _close_response_stream(stream)\n', 'count': 2},
    {'file': 'falcon/asgi/app.py',
     'old': 'class App(falcon.app.App):\n',
     'new': "async def _close_response_stream(stream: Any) -> None:\n    await asyncio.sleep(0)\n    if hasattr(stream, 'close'):\n        await stream.close()\n\n\nclass App(falcon.app.App):\n"},
])
M2('c05-k2-close-helper-coroutine-not-awaited', 'C05', 'R6', [
    {'file': 'falcon/asgi/app.py',
     'old': "                    if hasattr(stream, 'close'):\n                        await stream.close()\n",
     'new': '                    _close_response_stream(stream)\n', 'count': 2},
    {'file': 'falcon/asgi/app.py',
     'old': 'class App(falcon.app.App):\n',
     'new': "async def _close_response_stream(stream: Any) -> None:\n    if hasattr(stream, 'close'):\n        await stream.close()\n\n\nclass App(falcon.app.App):\n"},
])
M2('c05-k2-close-helper-called-from-else-not-finally', 'C05', 'R6', [
    {'file': 'falcon/asgi/app.py',
     'old': "                finally:\n                    # NOTE(vytas): This could be DRYed with the above identical\n                    #   twoliner in a one large block, but OTOH we would be\n                    #   unable to reuse the current try.. except.\n                    if hasattr(stream, 'close'):\n                        await stream.close()\n",
     'new': '                else:\n                    await _close_response_stream(stream)\n'},
    {'file': 'falcon/asgi/app.py',
     'old': "                    if hasattr(stream, 'close'):\n                        await stream.close()\n",
     'new': '                    await _close_response_stream(stream)\n'},
    {'file': 'falcon/asgi/app.py',
     'old': 'class App(falcon.app.App):\n',
     'new': "async def _close_response_stream(stream: Any) -> None:\n    if hasattr(stream, 'close'):\n        await stream.close()\n\n\nclass App(falcon.app.App):\n"},
])
M2('c05-k2-close-getattr-idiom-inverted-test', 'C05', 'R6', [
    {'file': 'falcon/asgi/app.py',
     'old': "                    if hasattr(stream, 'close'):\n                        await stream.close()\n",
     'new': "                    closer = getattr(stream, 'close', None)\n                    if closer is None:\n                        await closer()\n", 'count': 2},
])
M2('c05-k2-sse-pieces-no-final-newline', 'C05', 'R7', [
    {'file': 'falcon/asgi/structures.py',
     'old': "        if self.comment is not None:\n            block = f': {self.comment}\\n'\n        else:\n            block = ''\n\n        if self.event is not None:\n            block += f'event: {self.event}\\n'\n\n        if self.event_id is not None:\n            # NOTE(kgriffs): f-strings are a tiny bit faster than str().\n            block += f'id: {self.event_id}\\n'\n\n        if self.retry is not None:\n            block += f'retry: {self.retry}\\n'\n\n        if self.data is not None:\n            # NOTE(kgriffs): While this decode() may seem unnecessary, it\n            #   does provide a check to ensure it is valid UTF-8. I'm also\n            #   assuming for the moment that most people will not use this\n            #   attribute, but rather the text and json ones instead. If that\n            #   is true, it makes sense to construct the entire string\n            #   first, then encode it all in one go at the end.\n            block += f'data: {self.data.decode()}\\n'\n        elif self.text is not None:\n            block += f'data: {self.text}\\n'\n        elif self.json is not None:\n            if handler is None:\n                handler = _DEFAULT_JSON_HANDLER\n            serialized = handler.serialize(self.json, MEDIA_JSON)\n            block += 'data: '\n            return block.encode() + serialized + b'\\n\\n'\n\n        if not block:\n            return b': ping\\n\\n'\n\n        return (block + '\\n').encode()\n",
     'new': "        parts: list[str] = []\n\n        if self.comment is not None:\n            parts.append(f': {self.comment}\\n')\n\n        if self.event is not None:\n            parts.append(f'event: {self.event}\\n')\n\n        if self.event_id is not None:\n            # NOTE(kgriffs): f-strings are a tiny bit faster than str().\n            parts.append(f'id: {self.event_id}\\n')\n\n        if self.retry is not None:\n            parts.append(f'retry: {self.retry}\\n')\n\n        if self.data is not None:\n            # NOTE(kgriffs): While this decode() may seem unnecessary, it\n            #   does provide a check to ensure it is valid UTF-8. I'm also\n            #   assuming for the moment that most people will not use this\n            #   attribute, but rather the text and json ones instead. If that\n            #   is true, it makes sense to construct the entire string\n            #   first, then encode it all in one go at the end.\n            parts.append(f'data: {self.data.decode()}\\n')\n        elif self.text is not None:\n            parts.append(f'data: {self.text}\\n')\n        elif self.json is not None:\n            if handler is None:\n                handler = _DEFAULT_JSON_HANDLER\n            serialized = handler.serialize(self.json, MEDIA_JSON)\n            parts.append('data: ')\n            return ''.join(parts).encode() + serialized + b'\\n\\n'\n\n        if not parts:\n            return b': ping\\n\\n'\n\n        return ''.join(parts).encode()\n"},
])
M2('c05-k2-sse-pieces-retry-without-newline', 'C05', 'R7', [
    {'file': 'falcon/asgi/structures.py',
     'old': "        if self.comment is not None:\n            block = f': {self.comment}\\n'\n        else:\n            block = ''\n\n        if self.event is not None:\n            block += f'event: {self.event}\\n'\n\n        if self.event_id is not None:\n            # NOTE(kgriffs): f-strings are a tiny bit faster than str().\n            block += f'id: {self.event_id}\\n'\n\n        if self.retry is not None:\n            block += f'retry: {self.retry}\\n'\n\n        if self.data is not None:\n            # NOTE(kgriffs): While this decode() may seem unnecessary, it\n            #   does provide a check to ensure it is valid UTF-8. I'm also\n            #   assuming for the moment that most people will not use this\n            #   attribute, but rather the text and json ones instead. If that\n            #   is true, it makes sense to construct the entire string\n            #   first, then encode it all in one go at the end.\n            block += f'data: {self.data.decode()}\\n'\n        elif self.text is not None:\n            block += f'data: {self.text}\\n'\n        elif self.json is not None:\n            if handler is None:\n                handler = _DEFAULT_JSON_HANDLER\n            serialized = handler.serialize(self.json, MEDIA_JSON)\n            block += 'data: '\n            return block.encode() + serialized + b'\\n\\n'\n\n        if not block:\n            return b': ping\\n\\n'\n\n        return (block + '\\n').encode()\n",
     'new': "        parts: list[str] = []\n\n        if self.comment is not None:\n            parts.append(f': {self.comment}\\n')\n\n        if self.event is not None:\n            parts.append(f'event: {self.event}\\n')\n\n        if self.event_id is not None:\n            # NOTE(kgriffs): f-strings are a tiny bit faster than str().\n            parts.append(f'id: {self.event_id}\\n')\n\n        if self.retry is not None:\n            parts.append(f'retry: {self.retry}')\n\n        if self.data is not None:\n            # NOTE(kgriffs): While this decode() may seem unnecessary, it\n            #   does provide a check to ensure it is valid UTF-8. I'm also\n            #   assuming for the moment that most people will not use this\n            #   attribute, but rather the text and json ones instead. If that\n            #   is true, it makes sense to construct the entire string\n            #   first, then encode it all in one go at the end.\n            parts.append(f'data: {self.data.decode()}\\n')\n        elif self.text is not None:\n            parts.append(f'data: {self.text}\\n')\n        elif self.json is not None:\n            if handler is None:\n                handler = _DEFAULT_JSON_HANDLER\n            serialized = handler.serialize(self.json, MEDIA_JSON)\n            parts.append('data: ')\n            return ''.join(parts).encode() + serialized + b'\\n\\n'\n\n        if not parts:\n            return b': ping\\n\\n'\n\n        parts.append('\\n')\n        return ''.join(parts).encode()\n"},
])
M2('c05-k2-sse-pieces-text-by-truthiness', 'C05', 'R7', [
    {'file': 'falcon/asgi/structures.py',
     'old': "        if self.comment is not None:\n            block = f': {self.comment}\\n'\n        else:\n            block = ''\n\n        if self.event is not None:\n            block += f'event: {self.event}\\n'\n\n        if self.event_id is not None:\n            # NOTE(kgriffs): f-strings are a tiny bit faster than str().\n            block += f'id: {self.event_id}\\n'\n\n        if self.retry is not None:\n            block += f'retry: {self.retry}\\n'\n\n        if self.data is not None:\n            # NOTE(kgriffs): While this decode() may seem unnecessary, it\n            #   does provide a check to ensure it is valid UTF-8. I'm also\n            #   assuming for the moment that most people will not use this\n            #   attribute, but rather the text and json ones instead. If that\n            #   is true, it makes sense to construct the entire string\n            #   first, then encode it all in one go at the end.\n            block += f'data: {self.data.decode()}\\n'\n        elif self.text is not None:\n            block += f'data: {self.text}\\n'\n        elif self.json is not None:\n            if handler is None:\n                handler = _DEFAULT_JSON_HANDLER\n            serialized = handler.serialize(self.json, MEDIA_JSON)\n            block += 'data: '\n            return block.encode() + serialized + b'\\n\\n'\n\n        if not block:\n            return b': ping\\n\\n'\n\n        return (block + '\\n').encode()\n",
     'new': "        parts: list[str] = []\n\n        if self.comment is not None:\n            parts.append(f': {self.comment}\\n')\n\n        if self.event is not None:\n            parts.append(f'event: {self.event}\\n')\n\n        if self.event_id is not None:\n            # NOTE(kgriffs): f-strings are a tiny bit faster than str().\n            parts.append(f'id: {self.event_id}\\n')\n\n        if self.retry is not None:\n            parts.append(f'retry: {self.retry}\\n')\n\n        if self.data is not None:\n            # NOTE(kgriffs): While this decode() may seem unnecessary, it\n            #   does provide a check to ensure it is valid UTF-8. I'm also\n            #   assuming for the moment that most people will not use this\n            #   attribute, but rather the text and json ones instead. If that\n            #   is true, it makes sense to construct the entire string\n            #   first, then encode it all in one go at the end.\n            parts.append(f'data: {self.data.decode()}\\n')\n        elif self.text:\n            parts.append(f'data: {self.text}\\n')\n        elif self.json is not None:\n            if handler is None:\n                handler = _DEFAULT_JSON_HANDLER\n            serialized = handler.serialize(self.json, MEDIA_JSON)\n            parts.append('data: ')\n            return ''.join(parts).encode() + serialized + b'\\n\\n'\n\n        if not parts:\n            return b': ping\\n\\n'\n\n        parts.append('\\n')\n        return ''.join(parts).encode()\n"},
])
M2('c05-k2-sse-pieces-text-arm-not-exclusive', 'C05', 'R7', [
    {'file': 'falcon/asgi/structures.py',
     'old': "        if self.comment is not None:\n            block = f': {self.comment}\\n'\n        else:\n            block = ''\n\n        if self.event is not None:\n            block += f'event: {self.event}\\n'\n\n        if self.event_id is not None:\n            # NOTE(kgriffs): f-strings are a tiny bit faster than str().\n            block += f'id: {self.event_id}\\n'\n\n        if self.retry is not None:\n            block += f'retry: {self.retry}\\n'\n\n        if self.data is not None:\n            # NOTE(kgriffs): While this decode() may seem unnecessary, it\n            #   does provide a check to ensure it is valid UTF-8. I'm also\n            #   assuming for the moment that most people will not use this\n            #   attribute, but rather the text and json ones instead. If that\n            #   is true, it makes sense to construct the entire string\n            #   first, then encode it all in one go at the end.\n            block += f'data: {self.data.decode()}\\n'\n        elif self.text is not None:\n            block += f'data: {self.text}\\n'\n        elif self.json is not None:\n            if handler is None:\n                handler = _DEFAULT_JSON_HANDLER\n            serialized = handler.serialize(self.json, MEDIA_JSON)\n            block += 'data: '\n            return block.encode() + serialized + b'\\n\\n'\n\n        if not block:\n            return b': ping\\n\\n'\n\n        return (block + '\\n').encode()\n",
     'new': "        parts: list[str] = []\n\n        if self.comment is not None:\n            parts.append(f': {self.comment}\\n')\n\n        if self.event is not None:\n            parts.append(f'event: {self.event}\\n')\n\n        if self.event_id is not None:\n            # NOTE(kgriffs): f-strings are a tiny bit faster than str().\n            parts.append(f'id: {self.event_id}\\n')\n\n        if self.retry is not None:\n            parts.append(f'retry: {self.retry}\\n')\n\n        if self.data is not None:\n            # NOTE(kgriffs): While this decode() may seem unnecessary, it\n            #   does provide a check to ensure it is valid UTF-8. I'm also\n            #   assuming for the moment that most people will not use this\n            #   attribute, but rather the text and json ones instead. If that\n            #   is true, it makes sense to construct the entire string\n            #   first, then encode it all in one go at the end.\n            parts.append(f'data: {self.data.decode()}\\n')\n        if self.text is not None:\n            parts.append(f'data: {self.text}\\n')\n        elif self.json is not None:\n            if handler is None:\n                handler = _DEFAULT_JSON_HANDLER\n            serialized = handler.serialize(self.json, MEDIA_JSON)\n            parts.append('data: ')\n            return ''.join(parts).encode() + serialized + b'\\n\\n'\n\n        if not parts:\n            return b': ping\\n\\n'\n\n        parts.append('\\n')\n        return ''.join(parts).encode()\n"},
])
M2('c05-k2-sse-pieces-ping-single-newline', 'C05', 'R7', [
    {'file': 'falcon/asgi/structures.py',
     'old': "        if self.comment is not None:\n            block = f': {self.comment}\\n'\n        else:\n            block = ''\n\n        if self.event is not None:\n            block += f'event: {self.event}\\n'\n\n        if self.event_id is not None:\n            # NOTE(kgriffs): f-strings are a tiny bit faster than str().\n            block += f'id: {self.event_id}\\n'\n\n        if self.retry is not None:\n            block += f'retry: {self.retry}\\n'\n\n        if self.data is not None:\n            # NOTE(kgriffs): While this decode() may seem unnecessary, it\n            #   does provide a check to ensure it is valid UTF-8. I'm also\n            #   assuming for the moment that most people will not use this\n            #   attribute, but rather the text and json ones instead. If that\n            #   is true, it makes sense to construct the entire string\n            #   first, then encode it all in one go at the end.\n            block += f'data: {self.data.decode()}\\n'\n        elif self.text is not None:\n            block += f'data: {self.text}\\n'\n        elif self.json is not None:\n            if handler is None:\n                handler = _DEFAULT_JSON_HANDLER\n            serialized = handler.serialize(self.json, MEDIA_JSON)\n            block += 'data: '\n            return block.encode() + serialized + b'\\n\\n'\n\n        if not block:\n            return b': ping\\n\\n'\n\n        return (block + '\\n').encode()\n",
     'new': "        parts: list[str] = []\n\n        if self.comment is not None:\n            parts.append(f': {self.comment}\\n')\n\n        if self.event is not None:\n            parts.append(f'event: {self.event}\\n')\n\n        if self.event_id is not None:\n            # NOTE(kgriffs): f-strings are a tiny bit faster than str().\n            parts.append(f'id: {self.event_id}\\n')\n\n        if self.retry is not None:\n            parts.append(f'retry: {self.retry}\\n')\n\n        if self.data is not None:\n            # NOTE(kgriffs): While this decode() may seem unnecessary, it\n            #   does provide a check to ensure it is valid UTF-8. I'm also\n            #   assuming for the moment that most people will not use this\n            #   attribute, but rather the text and json ones instead. If that\n            #   is true, it makes sense to construct the entire string\n            #   first, then encode it all in one go at the end.\n            parts.append(f'data: {self.data.decode()}\\n')\n        elif self.text is not None:\n            parts.append(f'data: {self.text}\\n')\n        elif self.json is not None:\n            if handler is None:\n                handler = _DEFAULT_JSON_HANDLER\n            serialized = handler.serialize(self.json, MEDIA_JSON)\n            parts.append('data: ')\n            return ''.join(parts).encode() + serialized + b'\\n\\n'\n\n        if not parts:\n            return b': ping\\n'\n\n        parts.append('\\n')\n        return ''.join(parts).encode()\n"},
])
M2('c05-k2-append-header-delimiter-value-not-stringified', 'C05', 'R12', [
    {'file': 'falcon/response.py',
     'old': '    def append_header(self, name: str, value: str) -> None:\n',
     'new': "    def append_header(self, name: str, value: str, *, delimiter: str = ', ') -> None:\n"},
    {'file': 'falcon/response.py',
     'old': "                value = self._headers[name] + ', ' + value\n",
     'new': '                value = self._headers[name] + delimiter + value\n'},
    {'file': 'falcon/response.py',
     'old': '        # to US-ASCII.\n        value = str(value)\n',
     'new': '        # to US-ASCII.\n', 'count': 2, 'occurrence': 1},
], also=('C15',))
M2('c05-k2-append-header-delimiter-passed-by-a-caller', 'C05', 'R12', [
    {'file': 'falcon/response.py',
     'old': '    def append_header(self, name: str, value: str) -> None:\n',
     'new': "    def append_header(self, name: str, value: str, *, delimiter: str = ', ') -> None:\n"},
    {'file': 'falcon/response.py',
     'old': "                value = self._headers[name] + ', ' + value\n",
     'new': '                value = self._headers[name] + delimiter + value\n'},
    {'file': 'falcon/app_helpers.py',
     'old': "    resp.append_header('Vary', 'Accept')\n",
     'new': "    resp.append_header('Vary', 'Accept', delimiter=req.get_header('X-Delimiter'))\n"},
], also=('C04', 'C15'))
M2('c05-k2-asgi-headers-alias-store-conditional', 'C05', 'R5', [
    {'file': 'falcon/asgi/app.py',
     'old': "            resp._headers['content-length'] = str(len(data))\n\n            await send(",
     'new': "            hdrs = resp._headers\n            if 'content-length' not in hdrs:\n                hdrs['content-length'] = str(len(data))\n\n            await send("},
])
M2('c05-k2-asgi-size-local-of-the-text', 'C05', 'R5', [
    {'file': 'falcon/asgi/app.py',
     'old': "            resp._headers['content-length'] = str(len(data))\n\n            await send(",
     'new': "            size = len(resp.text or '')\n            resp._headers['content-length'] = str(size)\n\n            await send("},
])
M2('c05-k2-asgi-body-alias-rebound-before-send', 'C05', 'R5', [
    {'file': 'falcon/asgi/app.py',
     'old': "            resp._headers['content-length'] = str(len(data))\n\n            await send(",
     'new': "            payload = data\n            resp._headers['content-length'] = str(len(payload))\n            payload = payload.strip()\n\n            await send("},
    {'file': 'falcon/asgi/app.py',
     'old': "                    'type': 'http.response.body',\n                    'body': data,",
     'new': "                    'type': 'http.response.body',\n                    'body': payload,"},
], also=('C06',))
M2('c05-k2-wsgi-headers-alias-store-conditional', 'C05', 'R5', [
    {'file': 'falcon/app.py',
     'old': "            if length is not None:\n                resp._headers['content-length'] = str(length)\n\n        headers",
     'new': "            hdrs = resp._headers\n            if length is not None and 'content-length' not in hdrs:\n                hdrs['content-length'] = str(length)\n\n        headers"},
])
M2('c05-k2-get-body-size-local-of-another-object', 'C05', 'R5', [
    {'file': 'falcon/app.py',
     'old': '        if data is not None:\n            return [data], len(data)\n',
     'new': "        if data is not None:\n            size = len(resp.text or b'')\n            return [data], size\n"},
])
M2('c05-k2-wsgi-status-through-alias-of-str', 'C05', 'R2', [
    {'file': 'falcon/app.py',
     'old': '        resp_status: str = code_to_http_status(resp.status)\n',
     'new': '        normalise = str\n        resp_status: str = normalise(resp.status)\n'},
], also=('C06',))
M2('c05-k2-body-event-helper-final-inside-the-loop', 'C05', 'R1', [
    {'file': 'falcon/asgi/app.py',
     'old': "                        await send(\n                            {\n                                'type': EventType.HTTP_RESPONSE_BODY,\n                                'body': data,\n                                'more_body': True,\n                            }\n                        )\n",
     'new': '                        await send(_body_event(data))\n'},
    {'file': 'falcon/asgi/app.py',
     'old': 'class App(falcon.app.App):\n',
     'new': "def _body_event(data, more=False):\n    return {'type': 'http.response.body', 'body': data, 'more_body': more}\n\n\nclass App(falcon.app.App):\n"},
])
M2('c05-k2-closeable-next-closes-through-a-local', 'C05', 'R6', [
    {'file': 'falcon/app_helpers.py',
     'old': "        if data == b'':\n            raise StopIteration\n        else:\n            return data\n",
     'new': "        if data == b'':\n            stream = self._stream\n            stream.close()\n            raise StopIteration\n        else:\n            return data\n"},
])
M2('c05-k2-render-body-media-local-tested-first', 'C05', 'R3', [
    {'file': 'falcon/response.py',
     'old': '            data = self._data\n\n            if data is None and self._media is not None:\n',
     'new': '            data = self._data\n            media = self._media\n\n            if media is not None:\n'},
], also=('C12',))
M2('c05-k2-typeless-local-bound-to-the-bodiless-set', 'C05', 'R4', [
    {'file': 'falcon/app.py',
     'old': '            if resp_status in _TYPELESS_STATUS_CODES:\n                default_media_type = None\n',
     'new': '            typeless = _BODILESS_STATUS_CODES\n            if resp_status in typeless:\n                default_media_type = None\n'},
], also=('C06',))
M2('c05-k2-content-type-key-constant-misspelt', 'C05', 'R4', [
    {'file': 'falcon/response.py',
     'old': "            headers['content-type'] = media_type\n",
     'new': '            headers[_CT] = media_type\n'},
    {'file': 'falcon/response.py',
     'old': 'class Response:\n',
     'new': "_CT = 'content_type'\n\n\nclass Response:\n"},
])
M2('c05-k2-status-line-local-renders-raw-argument', 'C05', 'R7', [
    {'file': 'falcon/util/misc.py',
     'old': "        return '{} {}'.format(code, _DEFAULT_HTTP_REASON)\n",
     'new': "        line = '{} {}'.format(status, _DEFAULT_HTTP_REASON)\n        return line\n"},
])
M('c05-k2-send-alias-eof-twice', 'C05', 'R1', G,
  "\n        await send(_EVT_RESP_EOF)\n", "\n        emit = send\n        await emit(_EVT_RESP_EOF)\n        await emit(_EVT_RESP_EOF)\n")
M('c05-k2-start-response-alias-skipped-for-empty-body', 'C05', 'R2', A,
  "        start_response(resp_status, headers)\n        return body\n",
  "        begin = start_response\n        if body:\n            begin(resp_status, headers)\n        return body\n", also=('C06',))
M2('c05-k2-returned-body-alias-taken-before-the-head-branch', 'C05', 'R4', [
    {'file': A, 'old': "        if req.method == 'HEAD' or resp_status in _BODILESS_STATUS_CODES:\n            body = []\n",
     'new': "        result = body\n        if req.method == 'HEAD' or resp_status in _BODILESS_STATUS_CODES:\n            body = []\n"},
    {'file': A, 'old': "        start_response(resp_status, headers)\n        return body\n", 'new': "        start_response(resp_status, headers)\n        return result\n"}],
   also=('C06',))
M2('c05-k2-sse-emitter-check-helper-only-warns', 'C05', 'R10', [
    {'file': G, 'old': _REJECT, 'new': "            _require_async_iterable(sse_emitter)\n"},
    {'file': G, 'old': "class App(falcon.app.App):\n",
     'new': "def _require_async_iterable(sse_emitter):\n    if isasyncgenfunction(sse_emitter):\n        falcon._logger.warning('Response.sse must be an async iterable')\n\n\nclass App(falcon.app.App):\n"}])
M('c05-k2-sse-ctor-type-test-local-also-tests-the-value', 'C05', 'R13', SSEV, _SSE_RETRY,
  "        retry_ok = retry is None or (isinstance(retry, int) and retry > 0)\n        if not retry_ok:\n            raise TypeError('retry must be an int')\n")
# k3: the media rendering extracted into a same-class helper (k2-c12-2 `_render_media`, k1-c12-1 `_serialize_media`) is read
# through the helper by R3 / R11 -- refactoring + break
_RB_RENDER = """                if self._media_rendered is _UNSET:
                    if not self.content_type:
                        self.content_type = self.options.default_media_type

                    handler, _, _ = self.options.media_handlers._resolve(
                        self.content_type, self.options.default_media_type
                    )

                    self._media_rendered = handler.serialize(
                        self._media, self.content_type
                    )

                data = self._media_rendered
"""
_RB_REPR = "    def __repr__(self) -> str:\n        return f'<{self.__class__.__name__}: {self.status}>'\n"
_RB_HELPER_HEAD = """    def _render_media(self):
        if not self.content_type:
            self.content_type = self.options.default_media_type

        handler, _, _ = self.options.media_handlers._resolve(
            self.content_type, self.options.default_media_type
        )

"""
M2('c05-k3-render-media-helper-under-the-guard-never-stores', 'C05', 'R11', [
    {'file': RSP, 'old': _RB_RENDER,
     'new': "                if self._media_rendered is _UNSET:\n                    self._render_media()\n\n                data = self._media_rendered\n"},
    {'file': RSP, 'old': _RB_REPR,
     'new': _RB_HELPER_HEAD + "        return handler.serialize(self._media, self.content_type)\n\n" + _RB_REPR}],
   also=('C12',))
M2('c05-k3-render-media-helper-guards-and-stores-on-one-arm-only', 'C05', 'R11', [
    {'file': RSP, 'old': _RB_RENDER, 'new': "                data = self._render_media()\n"},
    {'file': RSP, 'old': _RB_REPR,
     'new': "    def _render_media(self):\n        if self._media_rendered is _UNSET:\n            handler, _, _ = self.options.media_handlers._resolve(\n"
            "                self.content_type, self.options.default_media_type\n            )\n            if self.content_type:\n"
            "                self._media_rendered = handler.serialize(self._media, self.content_type)\n\n        return self._media_rendered\n\n" + _RB_REPR}],
   also=('C12',))
M2('c05-k3-render-media-helper-called-without-the-data-test', 'C05', 'R3', [
    {'file': RSP, 'old': "            if data is None and self._media is not None:\n", 'new': "            if self._media is not None:\n"},
    {'file': RSP, 'old': _RB_RENDER, 'new': "                data = self._render_media()\n"},
    {'file': RSP, 'old': _RB_REPR,
     'new': "    def _render_media(self):\n        if self._media_rendered is _UNSET:\n            if not self.content_type:\n"
            "                self.content_type = self.options.default_media_type\n\n"
            "            handler, _, _ = self.options.media_handlers._resolve(\n"
            "                self.content_type, self.options.default_media_type\n            )\n\n"
            + "            self._media_rendered = handler.serialize(self._media, self.content_type)\n\n        return self._media_rendered\n\n" + _RB_REPR}],
   also=('C12',))

# ------------------------------------------------ wave 11
# R6, WSGI _get_body (s11-c05-1): the object returned to the server for a stream without read() is the stream itself
# or a package wrapper whose close() forwards; a callable of the frozen close-dropping table / a comprehension is not
_PLAIN_STREAM = "            else:\n                iterable = stream\n\n            return iterable, None\n"
_HELPERS_CLS = 'class CloseableStreamIterator:\n'


def _plain(new):
    return _PLAIN_STREAM.replace('iterable = stream\n', new)


M('c05-w11-wsgi-plain-stream-returned-as-iter', 'C05', 'R6', A, _PLAIN_STREAM,
  _plain('iterable = iter(stream)  # type: ignore[arg-type]\n'))
M('c05-w11-wsgi-plain-stream-early-return-of-iter', 'C05', 'R6', A, _PLAIN_STREAM,
  "            else:\n                return iter(stream), None\n\n            return iterable, None\n")
M('c05-w11-wsgi-plain-stream-generator-expression', 'C05', 'R6', A, _PLAIN_STREAM,
  _plain('iterable = (chunk for chunk in stream if chunk)\n'))
M('c05-w11-wsgi-plain-stream-materialised-list', 'C05', 'R6', A, _PLAIN_STREAM,
  _plain('iterable = list(stream)\n'))
M('c05-w11-wsgi-plain-stream-filtered', 'C05', 'R6', A, _PLAIN_STREAM,
  _plain('chunks = filter(None, stream)\n                iterable = chunks\n'))
M2('c05-w11-wsgi-plain-stream-chained', 'C05', 'R6', [
    {'file': A, 'old': 'from functools import wraps\n', 'new': 'from functools import wraps\nimport itertools\n'},
    {'file': A, 'old': _PLAIN_STREAM, 'new': _plain("iterable = itertools.chain((b'',), stream)\n")},
])
_WRAPPER_HEAD = ("class _StreamBody:\n    def __init__(self, stream):\n        self._stream = stream\n\n"
                 "    def __iter__(self):\n        return iter(self._stream)\n\n")
M2('c05-w11-wsgi-plain-stream-package-wrapper-without-close', 'C05', 'R6', [
    {'file': 'falcon/app_helpers.py', 'old': _HELPERS_CLS, 'new': _WRAPPER_HEAD + '\n' + _HELPERS_CLS},
    {'file': A, 'old': _PLAIN_STREAM, 'new': _plain('iterable = helpers._StreamBody(stream)\n')},
])
M2('c05-w11-wsgi-plain-stream-package-wrapper-close-on-one-arm', 'C05', 'R6', [
    {'file': 'falcon/app_helpers.py', 'old': _HELPERS_CLS,
     'new': _WRAPPER_HEAD + "    def close(self):\n        if self._stream:\n            self._stream.close()\n\n\n" + _HELPERS_CLS},
    {'file': A, 'old': _PLAIN_STREAM, 'new': _plain('iterable = helpers._StreamBody(stream)\n')},
])
