"""Mutation operators for C06 (WSGI / ASGI / test-client equivalence)."""

from .mutants import M, M2

# --------------------------------------------------------------------- R1
# delete one ASGI override (factory-built header property)
M('c06-asgi-drop-referer-override', 'C06', 'R1', 'falcon/asgi/request.py',
  "    referer: Optional[str] = asgi_helpers._header_property('Referer')\n", "")
# delete one ASGI override (renaming the def removes the override)
M('c06-asgi-drop-remote-addr-override', 'C06', 'R1', 'falcon/asgi/request.py',
  "    def remote_addr(self) -> str:", "    def remote_addr_asgi(self) -> str:", also=('C09',))  # req.remote_addr now raises AttributeError: also a C09 R1 break
M('c06-asgi-drop-if-none-match-override', 'C06', 'R1', 'falcon/asgi/request.py',
  "    def if_none_match(self) -> Optional[List[Union[ETag, Literal['*']]]]:",
  "    def if_none_match_asgi(self) -> Optional[List[Union[ETag, Literal['*']]]]:", also=('C09',))
# a "perf" shortcut in the shared base method that only works on WSGI
M2('c06-base-cookie-values-reads-environ', 'C06', 'R1', [
    {'file': 'falcon/request.py', 'old': "            header_value = self.get_header('Cookie')\n",
     'new': "            header_value = self.env.get('HTTP_COOKIE')\n", 'count': 2, 'occurrence': 1}], also=('C09',))
M('c06-base-repr-uses-wsgi-errors', 'C06', 'R1', 'falcon/request.py',
  "        return '<%s: %s %r>' % (self.__class__.__name__, self.method, self.url)",
  "        return '<%s: %s %r %r>' % (self.__class__.__name__, self.method, self.url, self._wsgierrors)")
M2('c06-asgi-app-wsgi-header-emitter', 'C06', 'R1', [
    {'file': 'falcon/asgi/app.py', 'old': "'headers': resp._asgi_headers(default_media_type),",
     'new': "'headers': resp._wsgi_headers(default_media_type),", 'count': 3, 'occurrence': 2}], also=('C05',))

# --------------------------------------------------------------------- R2
# swap two elifs in ONE access_route
M('c06-asgi-access-route-elif-swap', 'C06', 'R2', 'falcon/asgi/request.py',
  """            elif b'x-forwarded-for' in headers:
                addresses = headers[b'x-forwarded-for'].decode('latin1').split(',')
                self._cached_access_route = [ip.strip() for ip in addresses]
            elif b'x-real-ip' in headers:
                self._cached_access_route = [headers[b'x-real-ip'].decode('latin1')]
""", """            elif b'x-real-ip' in headers:
                self._cached_access_route = [headers[b'x-real-ip'].decode('latin1')]
            elif b'x-forwarded-for' in headers:
                addresses = headers[b'x-forwarded-for'].decode('latin1').split(',')
                self._cached_access_route = [ip.strip() for ip in addresses]
""")
M('c06-wsgi-access-route-elif-swap', 'C06', 'R2', 'falcon/request.py',
  """            elif 'HTTP_X_FORWARDED_FOR' in self.env:
                addresses = self.env['HTTP_X_FORWARDED_FOR'].split(',')
                self._cached_access_route = [ip.strip() for ip in addresses]
            elif 'HTTP_X_REAL_IP' in self.env:
                self._cached_access_route = [self.env['HTTP_X_REAL_IP']]
""", """            elif 'HTTP_X_REAL_IP' in self.env:
                self._cached_access_route = [self.env['HTTP_X_REAL_IP']]
            elif 'HTTP_X_FORWARDED_FOR' in self.env:
                addresses = self.env['HTTP_X_FORWARDED_FOR'].split(',')
                self._cached_access_route = [ip.strip() for ip in addresses]
""")
# raise a different error class in one content_length
M('c06-asgi-content-length-other-error', 'C06', 'R2', 'falcon/asgi/request.py',
  """        if value_as_int < 0:
            msg = 'The value of the header must be a positive number.'
            raise errors.HTTPInvalidHeader(msg, 'Content-Length')
""", """        if value_as_int < 0:
            msg = 'The value of the header must be a positive number.'
            raise errors.HTTPBadRequest(description=msg)
""")
M('c06-wsgi-content-length-other-header-name', 'C06', 'R2', 'falcon/request.py',
  """            msg = 'The value of the header must be a number.'
            raise errors.HTTPInvalidHeader(msg, 'Content-Length')
""", """            msg = 'The value of the header must be a number.'
            raise errors.HTTPInvalidHeader(msg, 'Content-Type')
""")
# one sibling can leak an exception the other cannot
M('c06-asgi-accept-strict-decode', 'C06', 'R2', 'falcon/asgi/request.py',
  "return self._asgi_headers[b'accept'].decode('latin1') or '*/*'", "return self._asgi_headers[b'accept'].decode() or '*/*'",
  also=('C09', 'C11'))  # req.accept raising UnicodeDecodeError also breaks C09 R1 and content negotiation (C11 R5)
M('c06-wsgi-forwarded-host-unguarded', 'C06', 'R2', 'falcon/request.py',
  """            try:
                host = self.env['HTTP_X_FORWARDED_HOST']
            except KeyError:
                host = self.netloc
""", """            host = self.env['HTTP_X_FORWARDED_HOST']
""", also=('C09',))
M('c06-asgi-forwarded-scheme-other-header', 'C06', 'R2', 'falcon/asgi/request.py',
  "self._asgi_headers[b'x-forwarded-proto'].decode('latin1').lower()", "self._asgi_headers[b'x-forwarded-scheme'].decode('latin1').lower()")
M('c06-asgi-referer-header-typo', 'C06', 'R2', 'falcon/asgi/request.py',
  "asgi_helpers._header_property('Referer')", "asgi_helpers._header_property('Referrer')")
M('c06-wsgi-forwarded-host-prefers-x-header', 'C06', 'R2', 'falcon/request.py',
  """        if 'HTTP_FORWARDED' in self.env:
            forwarded = self.forwarded
            if forwarded:
                # Use first hop, fall back on self
                host = forwarded[0].host or self.netloc
            else:
                host = self.netloc
        else:
""", """        if 'HTTP_X_FORWARDED_HOST' in self.env:
            host = self.env['HTTP_X_FORWARDED_HOST']
        elif 'HTTP_FORWARDED' in self.env:
            forwarded = self.forwarded
            if forwarded:
                # Use first hop, fall back on self
                host = forwarded[0].host or self.netloc
            else:
                host = self.netloc
        else:
""")

# R2(d) fall-back results of plain header accessors on {missing, blank, non-blank}
_ASGI_ACCEPT = """    @property
    def accept(self) -> str:
        # NOTE(kgriffs): Per RFC, a missing accept header is
        # equivalent to '*/*'
        try:
            return self._asgi_headers[b'accept'].decode('latin1') or '*/*'
        except KeyError:
            return '*/*'

"""
_WSGI_ACCEPT = """    @property
    def accept(self) -> str:
        \"\"\"Value of the Accept header, or ``'*/*'`` if the header is missing.\"\"\"
        # NOTE(kgriffs): Per RFC, a missing accept header is
        # equivalent to '*/*'
        try:
            return self.env['HTTP_ACCEPT'] or '*/*'
        except KeyError:
            return '*/*'

"""
# the factory gains default= applied to the MISSING header only; accept is rebuilt with it: blank Accept -> None on one stack (s4-c06-1)
M2('c06-asgi-accept-factory-default-missing-only', 'C06', 'R2', [
    {'file': 'falcon/asgi/_request_helpers.py', 'old': "def _header_property(header_name: str) -> Any:",
     'new': "def _header_property(header_name: str, default: Optional[str] = None) -> Any:"},
    {'file': 'falcon/asgi/_request_helpers.py', 'old': "        except KeyError:\n            return None\n", 'new': "        except KeyError:\n            return default\n"},
    {'file': 'falcon/asgi/request.py', 'old': _ASGI_ACCEPT, 'new': ""},
    {'file': 'falcon/asgi/request.py', 'old': "    auth: Optional[str] = asgi_helpers._header_property('Authorization')\n",
     'new': "    accept: str = asgi_helpers._header_property('Accept', default='*/*')\n    auth: Optional[str] = asgi_helpers._header_property('Authorization')\n"}])
M2('c06-wsgi-accept-factory-default-missing-only', 'C06', 'R2', [
    {'file': 'falcon/request_helpers.py', 'old': "def _header_property(wsgi_name: str) -> Any:",
     'new': "def _header_property(wsgi_name: str, default: Optional[str] = None) -> Any:"},
    {'file': 'falcon/request_helpers.py', 'old': "        except KeyError:\n            return None\n", 'new': "        except KeyError:\n            return default\n"},
    {'file': 'falcon/request.py', 'old': _WSGI_ACCEPT, 'new': ""},
    {'file': 'falcon/request.py', 'old': "    auth: Optional[str] = helpers._header_property('HTTP_AUTHORIZATION')\n",
     'new': "    accept: str = helpers._header_property('HTTP_ACCEPT', default='*/*')\n    auth: Optional[str] = helpers._header_property('HTTP_AUTHORIZATION')\n"}],
   also=('C04',))  # a blank Accept now answers None: also C04 R8 (what the error serializer negotiates with)
# hand-written on both stacks: one sibling maps a blank Accept to None
M('c06-asgi-accept-blank-gives-none', 'C06', 'R2', 'falcon/asgi/request.py',
  "return self._asgi_headers[b'accept'].decode('latin1') or '*/*'", "return self._asgi_headers[b'accept'].decode('latin1') or None",
  also=('C04',))  # also C04 R8 (req.accept is never None)
# factory-built on both stacks: one factory stops normalising a blank header to None
M('c06-asgi-header-property-keeps-blank', 'C06', 'R2', 'falcon/asgi/_request_helpers.py',
  "return self._asgi_headers[header_bytes].decode('latin1') or None", "return self._asgi_headers[header_bytes].decode('latin1')")

# --------------------------------------------------------------------- R3
M('c06-asgi-strip-slash-root', 'C06', 'R3', 'falcon/asgi/request.py',
  """            self.options.strip_url_path_trailing_slash
            and len(path) != 1
            and path.endswith('/')
""", """            self.options.strip_url_path_trailing_slash
            and path.endswith('/')
""")
M('c06-wsgi-strip-slash-ignores-option', 'C06', 'R3', 'falcon/request.py',
  """        if (
            self.options.strip_url_path_trailing_slash
            and len(path) != 1
            and path.endswith('/')
        ):
""", """        if (
            len(path) != 1
            and path.endswith('/')
        ):
""")
M2('c06-asgi-content-type-other-header', 'C06', 'R3', [
    {'file': 'falcon/asgi/request.py', 'old': "self.content_type = req_headers[b'content-type'].decode('latin1')",
     'new': "self.content_type = req_headers[b'accept'].decode('latin1')", 'count': 2}])
M('c06-wsgi-keep-blank-hardwired', 'C06', 'R3', 'falcon/request.py',
  """                self._params = parse_query_string(
                    self.query_string,
                    keep_blank=self.options.keep_blank_qs_values,
""", """                self._params = parse_query_string(
                    self.query_string,
                    keep_blank=True,
""", also=('C08',))

# --------------------------------------------------------------------- R5
M('c06-create-environ-no-server-port', 'C06', 'R5', 'falcon/testing/helpers.py',
  "        'SERVER_PORT': port_str,\n", "")
M('c06-create-environ-errors-conditional', 'C06', 'R5', 'falcon/testing/helpers.py',
  """        'wsgi.errors': wsgierrors or sys.stderr,
""", """        **({'wsgi.errors': wsgierrors} if wsgierrors else {}),
""")
M('c06-create-scope-no-method', 'C06', 'R5', 'falcon/testing/helpers.py',
  "        'method': method.upper(),\n", "")
M('c06-environ-header-mangling', 'C06', 'R5', 'falcon/testing/helpers.py',
  "            name_wsgi = name.upper().replace('-', '_')", "            name_wsgi = name.upper()")
M('c06-scope-header-mangling', 'C06', 'R5', 'falcon/testing/helpers.py',
  "            n = name.lower().encode('latin1')", "            n = name.encode('latin1')")
M('c06-environ-content-header-set', 'C06', 'R5', 'falcon/testing/helpers.py',
  "            if name_wsgi not in ('CONTENT_TYPE', 'CONTENT_LENGTH'):", "            if name_wsgi not in ('CONTENT_TYPE',):")

M('c06-asgi-access-route-peer-membership', 'C06', 'R6', 'falcon/asgi/request.py',
  "                if self._cached_access_route[-1] != client:", "                if client not in self._cached_access_route:")
M('c06-asgi-strip-all-trailing-slashes', 'C06', 'R3', 'falcon/asgi/request.py',
  "            self.path = path[:-1]", "            self.path = path.rstrip('/')")

M('c06-asgi-inline-render-skips-content-type-store', 'C06', 'R7', 'falcon/asgi/app.py',
  """                            if not resp.content_type:
                                resp.content_type = opt.default_media_type

""", """                            if not resp.content_type:
                                pass

""", also=('C05', 'C12'))
M2('c06-asgi-params-class-default', 'C06', 'R8', [
    {'file': 'falcon/asgi/request.py', 'old': """        else:
            self._params = {}
""", 'new': """        else:
            pass
"""},
    {'file': 'falcon/asgi/request.py', 'old': "    _media: UnsetOr[Any] = _UNSET\n", 'new': "    _media: UnsetOr[Any] = _UNSET\n    _params: Dict[str, Any] = {}\n"}], also=('C19',))

M('c06-create-scope-unquote-plus-default', 'C06', 'R9', 'falcon/testing/helpers.py',
  "    path = uri.decode(path, unquote_plus=False)", "    path = uri.decode(path)", count=2, occurrence=None)

# --------------------------------------------------------------------- R13
# constructor pipelines raw input -> self.path / self.query_string: a (guard, transformation) pair on one stack only
_ASGI_RAW_PATH = "        path = scope['path'] or '/'\n"
# s5-c06-1: "some servers include root_path in path" - ASGI alone drops a leading root_path
M('c06-asgi-path-strips-root-path', 'C06', 'R13', 'falcon/asgi/request.py', _ASGI_RAW_PATH,
  _ASGI_RAW_PATH + """
        root_path = scope.get('root_path')
        if root_path and path.startswith(root_path + '/'):
            path = path[len(root_path) :]
""")
# the mirror image: WSGI alone drops a leading SCRIPT_NAME
M('c06-wsgi-path-strips-script-name', 'C06', 'R13', 'falcon/request.py',
  "            path = path.encode('iso-8859-1').decode('utf-8', 'replace')\n",
  """            path = path.encode('iso-8859-1').decode('utf-8', 'replace')

        script_name = env.get('SCRIPT_NAME', '')
        if script_name and path.startswith(script_name + '/'):
            path = path[len(script_name) :]
""")
# an unconditional one-sided normalisation
M('c06-asgi-path-collapses-double-slashes', 'C06', 'R13', 'falcon/asgi/request.py', _ASGI_RAW_PATH,
  "        path = (scope['path'] or '/').replace('//', '/')\n")
# the same transformation under a guard that differs by an atom which does not mention the path
M('c06-asgi-strip-slash-not-for-websocket', 'C06', 'R13', 'falcon/asgi/request.py',
  """            self.options.strip_url_path_trailing_slash
            and len(path) != 1
            and path.endswith('/')
""", """            self.options.strip_url_path_trailing_slash
            and not self.is_websocket
            and len(path) != 1
            and path.endswith('/')
""")
# the sibling value derived from the other raw input
M('c06-asgi-query-string-drops-question-mark', 'C06', 'R13', 'falcon/asgi/request.py',
  "        query_string = scope['query_string'].decode()\n", "        query_string = scope['query_string'].decode().lstrip('?')\n")

# --------------------------------------------------------------------- R14
# one entry per request header whatever its value (sample evaluation of the four mapping accessors)
_WSGI_HEADERS_LOOP = """                if name.startswith('HTTP_'):
                    # NOTE(kgriffs): Don't take the time to fix the case
                    # since headers are supposed to be case-insensitive
                    # anyway.
                    headers[name[5:].replace('_', '-')] = value

                elif name in WSGI_CONTENT_HEADERS:
                    headers[name.replace('_', '-')] = value
"""
# the seeded over-correction: the blank-placeholder filter, meant for CONTENT_*, placed after the shared name handling
M('c06-wsgi-headers-skip-every-blank-value', 'C06', 'R14', 'falcon/request.py', _WSGI_HEADERS_LOOP,
  """                if name.startswith('HTTP_'):
                    name = name[5:]

                elif name not in WSGI_CONTENT_HEADERS:
                    continue

                if value:
                    headers[name.replace('_', '-')] = value
""")
M('c06-wsgi-headers-continue-on-blank-value', 'C06', 'R14', 'falcon/request.py', _WSGI_HEADERS_LOOP,
  """                if not value.strip():
                    continue

""" + _WSGI_HEADERS_LOOP)
# the same filter on the ASGI side (comprehension form)
M('c06-asgi-headers-filter-blank-values', 'C06', 'R14', 'falcon/asgi/request.py',
  """                for name, value in self._asgi_headers.items()
            }""", """                for name, value in self._asgi_headers.items()
                if value
            }""")
# ... and in the mapping derived from it
M('c06-wsgi-headers-lower-filter-blank-values', 'C06', 'R14', 'falcon/request.py',
  "                key.lower(): value for key, value in self.headers.items()\n",
  "                key.lower(): value for key, value in self.headers.items() if value\n")
# a non-header environ key leaks into the mapping (prefix test without the underscore: HTTPS=on, HTTP=...)
M('c06-wsgi-headers-prefix-without-underscore', 'C06', 'R14', 'falcon/request.py',
  """                if name.startswith('HTTP_'):
                    # NOTE(kgriffs): Don't take the time to fix the case""",
  """                if name.startswith('HTTP'):
                    # NOTE(kgriffs): Don't take the time to fix the case""")

# --------------------------------------------------------------------- R15
# scope['client'] / scope['server'] may be forward-only iterables: one memoised consumption site per request
M('c06-asgi-remote-addr-unpacks-scope-client', 'C06', 'R15', 'falcon/asgi/request.py',
  """        route = self.access_route
        return route[-1]
""", """        try:
            client, __ = self.scope['client']
        except KeyError:
            client = '127.0.0.1'

        return client
""")
M('c06-asgi-port-unpacks-scope-server', 'C06', 'R15', 'falcon/asgi/request.py',
  """        except KeyError:
            __, port = self._asgi_server

        return port
""", """        except KeyError:
            __, port = self.scope['server']

        return port
""", also=('C09',))  # scope['server'] is optional: the unguarded read is also a KeyError escape (C09 R1)
# the memoised site loses its guard: the field is consumed on every access
M('c06-asgi-server-consumed-on-every-access', 'C06', 'R15', 'falcon/asgi/request.py',
  "        if not self._asgi_server_cached:\n", "        if not self._asgi_server_cached or self.is_websocket:\n")

# --------------------------------------------------------------------- R16
# header emitters: each stored (name, value) leaves both stacks unchanged apart from the tabled ASGI byte encoding
M('c06-asgi-latin1-helper-strips-value', 'C06', 'R16', 'falcon/util/misc.py',
  "        result.append((key.encode('latin1'), value.encode('latin1')))\n",
  "        result.append((key.encode('latin1'), value.strip().encode('latin1')))\n")
M('c06-asgi-latin1-helper-collapses-line-folds', 'C06', 'R16', 'falcon/util/misc.py',
  "        result.append((key.encode('latin1'), value.encode('latin1')))\n",
  "        value = value.replace('\\r\\n', ' ')\n        result.append((key.encode('latin1'), value.encode('latin1')))\n")
M('c06-wsgi-emitter-strips-value', 'C06', 'R16', 'falcon/response.py',
  "        items = list(headers.items())\n", "        items = [(name, value.strip()) for name, value in headers.items()]\n")
M('c06-asgi-emitter-inline-utf8', 'C06', 'R16', 'falcon/asgi/response.py',
  "            items = _encode_items_to_latin1(headers)\n",
  "            items = [(name.encode('latin1'), value.encode('utf-8')) for name, value in headers.items()]\n")
M('c06-asgi-extra-headers-lowercased-value', 'C06', 'R16', 'falcon/asgi/response.py',
  "                (n.encode('ascii'), v.encode('ascii')) for n, v in self._extra_headers\n",
  "                (n.encode('ascii'), v.lower().encode('ascii')) for n, v in self._extra_headers\n",
  also=('C15',))  # C15 R3 (three stores, two emitters) compares the extra-header / cookie items of the emitters itself
M('c06-asgi-cookie-text-stripped-of-trailing-semicolon', 'C06', 'R16', 'falcon/asgi/response.py',
  "                (b'set-cookie', c.OutputString().encode('ascii'))\n",
  "                (b'set-cookie', c.OutputString().rstrip('; ').encode('ascii'))\n", also=('C15',))
M('c06-asgi-latin1-helper-conditional-title-case-name', 'C06', 'R16', 'falcon/util/misc.py',
  "        result.append((key.encode('latin1'), value.encode('latin1')))\n",
  "        if '-' in key:\n            key = key.title()\n        result.append((key.encode('latin1'), value.encode('latin1')))\n")

# ------------------------------------------------------------------ auto-mutation sweep (sa-am*)
_TC = 'falcon/testing/client.py'
_TH = 'falcon/testing/helpers.py'
# R17 (sa-am00757 / sa-am01705): both constructors bind the same public per-request attributes
M('c06-asgi-ctor-drops-uri-template', 'C06', 'R17', 'falcon/asgi/request.py', "        self.uri_template = None\n", "")
M('c06-wsgi-ctor-drops-uri-template', 'C06', 'R17', 'falcon/request.py', "        self.uri_template = None\n", "")
M('c06-asgi-ctor-drops-context', 'C06', 'R17', 'falcon/asgi/request.py', "        self.context = self.context_type()\n", "")
M('c06-wsgi-ctor-binds-uri-template-conditionally', 'C06', 'R17', 'falcon/request.py',
  "        self.uri_template = None\n", "        if self.method != 'OPTIONS':\n            self.uri_template = None\n")
# R18 (sa-am02677): shared driver parameters have the same defaults
M2('c06-asgi-simulate-params-csv-default-flipped', 'C06', 'R18', [{'file': _TC, 'old': "    params_csv: bool = False,\n", 'new': "    params_csv: bool = True,\n", 'count': 2, 'occurrence': 1}])
M2('c06-wsgi-simulate-params-csv-default-flipped', 'C06', 'R18', [{'file': _TC, 'old': "    params_csv: bool = False,\n", 'new': "    params_csv: bool = True,\n", 'count': 2, 'occurrence': 0}])
M2('c06-asgi-simulate-http-version-default', 'C06', 'R18', [{'file': _TC, 'old': "    http_version: str = '1.1',\n", 'new': "    http_version: str = '1.0',\n", 'count': 2, 'occurrence': 1}])
M2('c06-create-scope-http-version-default', 'C06', 'R18', [{'file': _TH, 'old': "    http_version: str = '1.1',\n", 'new': "    http_version: str = '2',\n", 'count': 3, 'occurrence': 0}])
# R19 (sa-am02730 / sa-am02792): shared driver parameters go through the same conversions
M2('c06-create-scope-http-version-not-normalised', 'C06', 'R19', [{'file': _TH, 'old': "    http_version = _fixup_http_version(http_version)\n", 'new': "", 'count': 2, 'occurrence': 0}])
M2('c06-create-environ-http-version-not-normalised', 'C06', 'R19', [{'file': _TH, 'old': "    http_version = _fixup_http_version(http_version)\n", 'new': "", 'count': 2, 'occurrence': 1}])
M('c06-create-scope-port-not-converted', 'C06', 'R19', _TH, "        port = int(port)\n", "        pass\n")
M('c06-create-environ-port-not-converted', 'C06', 'R19', _TH, "        port_str = str(int(port))\n", "        port_str = str(port)\n")

# ------------------------------------------------------------------ wave 9
# R20 (s9-c06-2): the Host header drops the port exactly when it is the default port of the scheme
_WSGI_HOST = ("        if scheme == 'https':\n            if port_str != '443':\n                host_header += ':' + port_str\n"
              "        else:\n            if port_str != '80':\n                host_header += ':' + port_str\n")
_ASGI_HOST = ("        if scheme == 'https':\n            if port != 443:\n                host_header += ':' + str(port)\n"
              "        else:\n            if port != 80:\n                host_header += ':' + str(port)\n")
M('c06-create-environ-host-port-elided-for-80-and-443', 'C06', 'R20', _TH, _WSGI_HOST,
  "        if port_str not in ('80', '443'):\n            host_header += ':' + port_str\n")
M('c06-create-scope-host-port-elided-for-80-and-443', 'C06', 'R20', _TH, _ASGI_HOST,
  "        if port not in (80, 443):\n            host_header += ':' + str(port)\n")
M('c06-create-environ-host-port-defaults-swapped', 'C06', 'R20', _TH, _WSGI_HOST,
  "        if port_str != ('80' if scheme == 'https' else '443'):\n            host_header += ':' + port_str\n")
M('c06-create-scope-host-port-always-kept-for-https', 'C06', 'R20', _TH, _ASGI_HOST,
  "        if scheme == 'https' or port != 80:\n            host_header += ':' + str(port)\n")
M('c06-create-environ-host-port-never-sent', 'C06', 'R20', _TH, _WSGI_HOST, "")
# R21 (s9-c06-3): the one-shot conductor serves the request between lifespan startup and shutdown
_CONDUCT_START = ("        await _wait_for_startup(lifespan_event_collector.events)\n\n"
                  "        task_req = asyncio.create_task(\n            app(http_scope, req_event_emitter, resp_event_collector)\n        )\n")
M('c06-conductor-request-task-before-startup-wait', 'C06', 'R21', _TC, _CONDUCT_START,
  "        task_req = asyncio.create_task(\n            app(http_scope, req_event_emitter, resp_event_collector)\n        )\n\n"
  "        await _wait_for_startup(lifespan_event_collector.events)\n")
M('c06-conductor-startup-wait-only-for-streamed-results', 'C06', 'R21', _TC, _CONDUCT_START,
  "        if _stream_result:\n            await _wait_for_startup(lifespan_event_collector.events)\n\n"
  "        task_req = asyncio.create_task(\n            app(http_scope, req_event_emitter, resp_event_collector)\n        )\n")
M('c06-conductor-shutdown-released-before-request-awaited', 'C06', 'R21', _TC,
  "        req_event_emitter.disconnect()\n        await task_req\n\n        # NOTE(kgriffs): Notify lifespan_event_emitter that it is OK\n"
  "        #   to proceed.\n        async with shutting_down:\n            shutting_down.notify()\n\n",
  "        req_event_emitter.disconnect()\n\n        # NOTE(kgriffs): Notify lifespan_event_emitter that it is OK\n"
  "        #   to proceed.\n        async with shutting_down:\n            shutting_down.notify()\n\n        await task_req\n")
M('c06-asgi-conductor-enter-does-not-wait-for-startup', 'C06', 'R21', _TC,
  "        await _wait_for_startup(self._lifespan_event_collector.events)\n\n        return self\n", "        return self\n")

# ------------------------------------------------------------------ wave 10
_AA = 'falcon/asgi/app.py'
_SEND_BLOCK = ("                                    'body': data or b'',\n                                    'more_body': True,\n"
               "                                }\n                            )\n")
# R22 (s10-c06-1): the file-like resp.stream loop ends only on an EMPTY read
M('c06-asgi-stream-loop-stops-after-short-block', 'C06', 'R22', _AA, _SEND_BLOCK,
  _SEND_BLOCK + "\n                            if data and len(data) < self._STREAM_BLOCK_SIZE:\n                                break\n")
M('c06-asgi-stream-loop-stops-unless-block-is-full', 'C06', 'R22', _AA, _SEND_BLOCK,
  _SEND_BLOCK + "                            if len(data or b'') != self._STREAM_BLOCK_SIZE:\n                                break\n")
M('c06-asgi-stream-loop-short-block-is-eof', 'C06', 'R22', _AA,
  "                        if data == b'':\n                            break\n",
  "                        if len(data) < self._STREAM_BLOCK_SIZE:\n                            if data:\n"
  "                                await send({'type': EventType.HTTP_RESPONSE_BODY, 'body': data, 'more_body': True})\n"
  "                            break\n")
M('c06-wsgi-stream-iterator-stops-after-short-block', 'C06', 'R22', 'falcon/app_helpers.py',
  "        if data == b'':\n            raise StopIteration\n        else:\n            return data\n",
  "        if data == b'' or len(data) < self._block_size:\n            raise StopIteration\n        else:\n            return data\n")
# R23 = C12 R1 (s10-c06-2): the media access of the two request classes is event-language-equal
_ASGI_MEDIA_ERR = "        except Exception as err:\n            self._media_error = err\n            raise\n        finally:\n            if handler.exhaust_stream:\n                await self.stream.exhaust()\n"
M('c06-asgi-get-media-remembers-only-http-errors', 'C06', 'R23', 'falcon/asgi/request.py', _ASGI_MEDIA_ERR,
  _ASGI_MEDIA_ERR.replace('except Exception as err', 'except errors.HTTPError as err'), also=('C12',))
M('c06-asgi-get-media-does-not-remember-generic-errors', 'C06', 'R23', 'falcon/asgi/request.py', _ASGI_MEDIA_ERR,
  _ASGI_MEDIA_ERR.replace("        except Exception as err:\n            self._media_error = err\n            raise\n", ''), also=('C12',))
# R20 (s10-c06-3): port given as a numeric string: normalised before it is compared with the default-port constants
M2('c06-create-scope-port-converted-only-for-the-server-pair', 'C06', 'R20', [
    {'file': _TH, 'old': "            port = 443\n    else:\n        port = int(port)\n", 'new': "            port = 443\n"},
    {'file': _TH, 'old': "        scope['server'] = iter([host, port])\n", 'new': "        scope['server'] = iter([host, int(port)])\n"}])
M('c06-create-environ-port-string-not-normalised', 'C06', 'R20', _TH,
  "        port_str = str(int(port))\n", "        int(port)\n        port_str = str(port)\n")

# ------------------------------------------------------------------ preserving wave 3: refactoring + break
_QS_TRY = ("        try:\n            self.query_string = env['QUERY_STRING']\n        except KeyError:\n            self.query_string = ''\n"
           "            self._params: Dict[str, Union[str, List[str]]] = {}\n        else:\n            if self.query_string:\n"
           "                self._params = parse_query_string(\n                    self.query_string,\n"
           "                    keep_blank=self.options.keep_blank_qs_values,\n                    csv=self.options.auto_parse_qs_csv,\n"
           "                )\n\n            else:\n                self._params = {}\n")


def _qs_precheck(read):
    return ("        self.query_string = " + read + "\n        if self.query_string:\n"
            "            self._params: Dict[str, Union[str, List[str]]] = parse_query_string(\n                self.query_string,\n"
            "                keep_blank=self.options.keep_blank_qs_values,\n                csv=self.options.auto_parse_qs_csv,\n"
            "            )\n        else:\n            self._params = {}\n")


# k3-c06-1 (try/except KeyError -> membership pre-check in a conditional expression) with the pre-check on the wrong key:
# the subscript is no longer guarded, KeyError escapes the WSGI constructor only
M('c06-wsgi-query-string-precheck-tests-another-key', 'C06', 'R2', 'falcon/request.py', _QS_TRY,
  _qs_precheck("env['QUERY_STRING'] if 'REQUEST_METHOD' in env else ''"), also=('C04',))
# ... with the arms of the conditional expression swapped (`not in` kept the body arm): the read runs exactly when the key is missing
M('c06-wsgi-query-string-precheck-arms-swapped', 'C06', 'R2', 'falcon/request.py', _QS_TRY,
  _qs_precheck("env['QUERY_STRING'] if 'QUERY_STRING' not in env else ''"), also=('C04',))
# ... with a fall-back that is not the blank string: a request without QUERY_STRING has a non-empty req.query_string on WSGI
M('c06-wsgi-query-string-precheck-falls-back-to-question-mark', 'C06', 'R13', 'falcon/request.py', _QS_TRY,
  _qs_precheck("env['QUERY_STRING'] if 'QUERY_STRING' in env else '?'"))
# k3-c06-2 (root-path normalisation extracted into _normalize_root_path) with create_environ no longer normalising
_NORM_HELPER = ("def _normalize_root_path(root_path: str) -> str:\n    if root_path and not root_path.startswith('/'):\n"
                "        return '/' + root_path\n\n    return root_path\n\n\n")
_SCOPE_ROOT = ("        if root_path and not root_path.startswith('/'):\n            scope['root_path'] = '/' + root_path\n"
               "        else:\n            scope['root_path'] = root_path\n")
_ENV_ROOT = ("    root_path = root_path or app or ''\n\n    # NOTE(kgriffs): Judging by the algorithm given in PEP-3333 for\n"
             "    # reconstructing the URL, SCRIPT_NAME is expected to contain a\n    # preceding slash character.\n"
             "    if root_path and not root_path.startswith('/'):\n        root_path = '/' + root_path\n")
M2('c06-root-path-helper-applied-by-create-scope-only', 'C06', 'R19', [
    {'file': _TH, 'old': _SCOPE_ROOT, 'new': "        scope['root_path'] = _normalize_root_path(root_path)\n"},
    {'file': _TH, 'old': _ENV_ROOT, 'new': "    root_path = root_path or app or ''\n"},
    {'file': _TH, 'old': "def _make_cookie_values(cookies: CookieArg) -> str:\n", 'new': _NORM_HELPER + "def _make_cookie_values(cookies: CookieArg) -> str:\n"}])
M2('c06-root-path-helper-applied-by-create-environ-only', 'C06', 'R19', [
    {'file': _TH, 'old': _SCOPE_ROOT, 'new': "        scope['root_path'] = root_path\n"},
    {'file': _TH, 'old': _ENV_ROOT, 'new': "    root_path = _normalize_root_path(root_path or app or '')\n"},
    {'file': _TH, 'old': "def _make_cookie_values(cookies: CookieArg) -> str:\n", 'new': _NORM_HELPER + "def _make_cookie_values(cookies: CookieArg) -> str:\n"}])
# pre-emptive hardening (same wave): each refactoring is silent on its own; with the mistake it must fire
# the missing-key fall-back written `env.get(K) or <constant>` with a constant that is not the blank string
M('c06-wsgi-query-string-get-or-question-mark', 'C06', 'R13', 'falcon/request.py', _QS_TRY,
  _qs_precheck("env.get('QUERY_STRING') or '?'"))
# `.get` with a non-blank default
M('c06-wsgi-query-string-get-default-not-blank', 'C06', 'R13', 'falcon/request.py', _QS_TRY,
  _qs_precheck("env.get('QUERY_STRING', 'x=1')"))
# the trailing-slash guard named by a local (`strip = ...`) that only the conditional expression reads, one conjunct lost on ASGI
M('c06-asgi-strip-guard-local-loses-root-exception', 'C06', None, 'falcon/asgi/request.py',
  "        if (\n            self.options.strip_url_path_trailing_slash\n            and len(path) != 1\n            and path.endswith('/')\n        ):\n"
  "            self.path = path[:-1]\n        else:\n            self.path = path\n",
  "        strip = self.options.strip_url_path_trailing_slash and path.endswith('/')\n        self.path = path[:-1] if strip else path\n")
# R22: the ASGI read loop steered by a control flag that is cleared on a SHORT read
_ASGI_READ_LOOP = ("                    while True:\n                        data = await stream.read(self._STREAM_BLOCK_SIZE)\n"
                   "                        if data == b'':\n                            break\n                        else:\n")
M('c06-asgi-stream-flag-loop-cleared-on-short-block', 'C06', 'R22', _AA, _ASGI_READ_LOOP,
  "                    more = True\n                    while more:\n                        data = await stream.read(self._STREAM_BLOCK_SIZE)\n"
  "                        if data == b'':\n                            break\n                        else:\n"
  "                            if len(data) < self._STREAM_BLOCK_SIZE:\n                                more = False\n")
# R22: the bound method hoisted out of the loop, which then stops after a short block
M('c06-asgi-stream-hoisted-read-stops-after-short-block', 'C06', 'R22', _AA, _ASGI_READ_LOOP,
  "                    read = stream.read\n                    while True:\n                        data = await read(self._STREAM_BLOCK_SIZE)\n"
  "                        if data == b'' or len(data) < self._STREAM_BLOCK_SIZE:\n                            break\n                        else:\n")
# the `or '/'` default of the path written as a statement, with another constant on WSGI only
M('c06-wsgi-path-default-statement-other-constant', 'C06', 'R13', 'falcon/request.py',
  "        path: str = env['PATH_INFO'] or '/'\n", "        path: str = env['PATH_INFO']\n        if not path:\n            path = '/index'\n")
# ... and applied under the wrong polarity (a non-empty path is replaced)
M('c06-wsgi-path-default-statement-wrong-polarity', 'C06', 'R13', 'falcon/request.py',
  "        path: str = env['PATH_INFO'] or '/'\n", "        path: str = env['PATH_INFO']\n        if path:\n            path = '/'\n")
# the latin-1 re-decoding of the tunnelled path extracted into a module-level helper (silent on its own) -- with a codec that is
# not total: a path byte >= 0x80 raises UnicodeEncodeError out of the WSGI constructor only
M2('c06-wsgi-decode-path-helper-ascii-codec', 'C06', 'R2', [
    {'file': 'falcon/request.py', 'old': "            path = path.encode('iso-8859-1').decode('utf-8', 'replace')\n",
     'new': "            path = helpers._decode_path(path)\n"},
    {'file': 'falcon/request_helpers.py', 'old': "def _header_property(wsgi_name: str) -> Any:",
     'new': "def _decode_path(path: str) -> str:\n    return path.encode('ascii').decode('utf-8', 'replace')\n\n\ndef _header_property(wsgi_name: str) -> Any:"}], also=('C04', 'C16'))
# ... or the helper is also handed a client-controlled header value by another caller
M2('c06-wsgi-decode-path-helper-also-fed-a-header', 'C06', 'R2', [
    {'file': 'falcon/request.py', 'old': "            path = path.encode('iso-8859-1').decode('utf-8', 'replace')\n",
     'new': "            path = helpers._decode_path(path)\n        self._ua = helpers._decode_path(env.get('HTTP_USER_AGENT', ''))\n"},
    {'file': 'falcon/request_helpers.py', 'old': "def _header_property(wsgi_name: str) -> Any:",
     'new': "def _decode_path(path: str) -> str:\n    return path.encode('iso-8859-1').decode('utf-8', 'replace')\n\n\ndef _header_property(wsgi_name: str) -> Any:"}], also=('C04', 'C16', 'C19'))
# k2-c12-2 (the whole `_media_rendered is _UNSET` block of Response.render_body moved into self._render_media()) -- and the helper
# no longer writes the default media type to content_type
_RB_BLOCK = ("                # NOTE(kgriffs): We use a special _UNSET singleton since\n                #   None is ambiguous (the media handler might return None).\n"
             "                if self._media_rendered is _UNSET:\n                    if not self.content_type:\n                        self.content_type = self.options.default_media_type\n\n"
             "                    handler, _, _ = self.options.media_handlers._resolve(\n                        self.content_type, self.options.default_media_type\n                    )\n\n"
             "                    self._media_rendered = handler.serialize(\n                        self._media, self.content_type\n                    )\n\n"
             "                data = self._media_rendered\n")
M2('c06-render-media-helper-drops-content-type-store', 'C06', 'R7', [
    {'file': 'falcon/response.py', 'old': _RB_BLOCK, 'new': "                data = self._render_media()\n"},
    {'file': 'falcon/response.py', 'old': "    def __repr__(self) -> str:\n        return f'<{self.__class__.__name__}: {self.status}>'\n",
     'new': "    def _render_media(self) -> bytes:\n        if self._media_rendered is _UNSET:\n            media_type = self.content_type or self.options.default_media_type\n"
            "            handler, _, _ = self.options.media_handlers._resolve(media_type, self.options.default_media_type)\n"
            "            self._media_rendered = handler.serialize(self._media, media_type)\n\n        return self._media_rendered\n\n"
            "    def __repr__(self) -> str:\n        return f'<{self.__class__.__name__}: {self.status}>'\n"}], also=('C05', 'C12', 'C11'))
# ------------------------------------------------------------------ wave 11
# R22 (s11-c06-1): the WSGI iterator remembers "end of stream" in a flag that a SHORT read sets; the next call ends the iteration
_AH = 'falcon/app_helpers.py'
_ITER_INIT = "        self._stream = stream\n        self._block_size = block_size\n"
_ITER_NEXT = ("        data = self._stream.read(self._block_size)\n\n        if data == b'':\n            raise StopIteration\n"
              "        else:\n            return data\n")
M2('c06-wsgi-stream-iterator-drained-flag-set-by-short-block', 'C06', 'R22', [
    {'file': _AH, 'old': _ITER_INIT, 'new': _ITER_INIT + "        self._drained = False\n"},
    {'file': _AH, 'old': _ITER_NEXT,
     'new': "        if self._drained:\n            raise StopIteration\n\n        data = self._stream.read(self._block_size)\n\n"
            "        if len(data) < self._block_size:\n            self._drained = True\n\n            if data == b'':\n                raise StopIteration\n\n"
            "        return data\n"}])
# ... the flag assigned from the comparison
M2('c06-wsgi-stream-iterator-drained-flag-is-short-comparison', 'C06', 'R22', [
    {'file': _AH, 'old': _ITER_INIT, 'new': _ITER_INIT + "        self._drained = False\n"},
    {'file': _AH, 'old': _ITER_NEXT,
     'new': "        if self._drained:\n            raise StopIteration\n\n        data = self._stream.read(self._block_size)\n"
            "        self._drained = len(data) < self._block_size\n\n        if data == b'':\n            raise StopIteration\n        else:\n            return data\n"}])
# ... the opposite polarity: "more to come" only after a FULL block
M2('c06-wsgi-stream-iterator-more-flag-only-after-full-block', 'C06', 'R22', [
    {'file': _AH, 'old': _ITER_INIT, 'new': _ITER_INIT + "        self._more = True\n"},
    {'file': _AH, 'old': _ITER_NEXT,
     'new': "        if not self._more:\n            raise StopIteration\n\n        data = self._stream.read(self._block_size)\n"
            "        self._more = len(data) == self._block_size\n\n        if not data:\n            raise StopIteration\n\n        return data\n"}])
# ... a local named after the comparison ends the iteration
M('c06-wsgi-stream-iterator-local-short-flag', 'C06', 'R22', _AH, _ITER_NEXT,
  "        data = self._stream.read(self._block_size)\n        short_block = len(data) < self._block_size\n\n"
  "        if short_block:\n            raise StopIteration\n\n        return data\n")
# ... the ASGI loop remembers a short block in a local and leaves at the top of the next round
M('c06-asgi-stream-loop-local-last-flag-from-short-block', 'C06', 'R22', _AA, _ASGI_READ_LOOP,
  "                    last = False\n                    while True:\n                        if last:\n                            break\n"
  "                        data = await stream.read(self._STREAM_BLOCK_SIZE)\n                        last = len(data) < self._STREAM_BLOCK_SIZE\n"
  "                        if data == b'':\n                            break\n                        else:\n")


# R24 (finding F26): a generated header of the ASGI test scope is added only when the caller did not pass that header
_TH = 'falcon/testing/helpers.py'
M('c06-create-scope-generated-host-unconditional', 'C06', 'R24', _TH,
  "    if http_version != '1.0' and b'host' not in supplied:\n", "    if http_version != '1.0':\n")
M('c06-create-scope-generated-cookie-unconditional', 'C06', 'R24', _TH,
  "    if cookies is not None and b'cookie' not in supplied:\n", "    if cookies is not None:\n")
M('c06-create-scope-generated-content-length-unconditional', 'C06', 'R24', _TH,
  "    if content_length is not None and b'content-length' not in supplied:\n", "    if content_length is not None:\n")
M('c06-create-scope-generated-host-guarded-by-wrong-name', 'C06', 'R24', _TH,
  "    if http_version != '1.0' and b'host' not in supplied:\n", "    if http_version != '1.0' and b'user-agent' not in supplied:\n")
M('c06-create-environ-caller-headers-before-generated-cookie', 'C06', 'R24', _TH,
  "    if cookies is not None and method != 'OPTIONS':\n        env['HTTP_COOKIE'] = _make_cookie_values(cookies)\n\n    _add_headers_to_environ(env, headers)\n",
  "    _add_headers_to_environ(env, headers)\n\n    if cookies is not None and method != 'OPTIONS':\n        env['HTTP_COOKIE'] = _make_cookie_values(cookies)\n")
# R6 (k4-c06-2 + break): the WSGI route tail reads the cached list and the peer through once-bound locals (silent on its own) --
# and appends the peer on a membership test instead of comparing it with the last hop
M('c06-wsgi-access-route-tail-through-locals-peer-membership', 'C06', 'R6', 'falcon/request.py',
  "            if self._cached_access_route:\n                if self._cached_access_route[-1] != self.remote_addr:\n"
  "                    self._cached_access_route.append(self.remote_addr)\n            else:\n                self._cached_access_route = [self.remote_addr]\n",
  "            remote_addr = self.remote_addr\n            cached_route = self._cached_access_route\n\n"
  "            if cached_route:\n                if remote_addr not in cached_route:\n                    cached_route.append(remote_addr)\n"
  "            else:\n                self._cached_access_route = [remote_addr]\n", also=('C09',))
