"""Mutation operators for C07 (request body streams)."""

from .mutants import M, M2

W = 'falcon/stream.py'
A = 'falcon/asgi/stream.py'

# ------------------------------------------------------------------ R1 (WSGI single gate)
M('c07-wsgi-iter-raw-stream', 'C07', 'R1', W,
  """    def __iter__(self) -> BoundedStream:
        return self
""", """    def __iter__(self) -> BoundedStream:
        return iter(self.stream)
""")
M('c07-wsgi-read-unsized-shortcut', 'C07', 'R1', W,
  """        return self._read(size, self.stream.read)
""", """        if size is None and not self._bytes_remaining:
            return self.stream.read()
        return self._read(size, self.stream.read)
""")

# ------------------------------------------------------------------ R2 (clamp covers the domain)
M('c07-wsgi-drop-upper-clamp', 'C07', 'R2', W,
  "if size is None or size == -1 or size > self._bytes_remaining:", "if size is None or size == -1:")
M('c07-wsgi-clamp-off-by-one', 'C07', 'R2', W,
  "if size is None or size == -1 or size > self._bytes_remaining:", "if size is None or size == -1 or size > self._bytes_remaining + 1:")
M('c07-wsgi-none-not-coerced', 'C07', 'R2', W,
  "if size is None or size == -1 or size > self._bytes_remaining:", "if size is not None and (size == -1 or size > self._bytes_remaining):")
M('c07-wsgi-deduct-before-clamp', 'C07', 'R2', W,
  """        if size is None or size == -1 or size > self._bytes_remaining:
            size = self._bytes_remaining

        self._bytes_remaining -= size
        return target(size)
""", """        if size is None or size == -1:
            size = self._bytes_remaining

        self._bytes_remaining -= size
        if size > self._bytes_remaining:
            size = self._bytes_remaining
        return target(size)
""")
M('c07-wsgi-clamp-budget-not-size', 'C07', 'R2', W,
  """        if size is None or size == -1 or size > self._bytes_remaining:
            size = self._bytes_remaining

        self._bytes_remaining -= size
""", """        if size is None or size == -1:
            size = self._bytes_remaining

        self._bytes_remaining -= size
        if self._bytes_remaining < 0:
            self._bytes_remaining = 0
""")
M('c07-wsgi-exhaust-bypasses-clamp', 'C07', 'R2', W,
  "chunk = self.read(chunk_size)", "chunk = self.stream.read(chunk_size)")

# ------------------------------------------------------------------ R3 (accounting)
M('c07-wsgi-no-deduction', 'C07', 'R3', W,
  """        self._bytes_remaining -= size
        return target(size)
""", """        return target(size)
""")
# (only a break while the helper deducts the *requested* size: the second, identity edit makes the
#  operator lapse -- "skipped" -- once the helper accounts by len(result))
M2('c07-wsgi-read-via-read1', 'C07', 'R3', [
    {'file': W, 'old': "return self._read(size, self.stream.read)", 'new': "return self._read(size, self.stream.read1)"},
    {'file': W, 'old': "        self._bytes_remaining -= size\n        return target(size)\n",
     'new': "        self._bytes_remaining -= size\n        return target(size)\n"}])

# ------------------------------------------------------------------ R4 (ASGI conservation)
_READALL_CLAMP = """                if next_chunk_len <= self._bytes_remaining:
                    chunks.append(next_chunk)
                    self._bytes_remaining -= next_chunk_len
                else:
                    # NOTE(kgriffs): Do not read more data than we are
                    #   expecting. This *should* never happen if the
                    #   server enforces the content-length header, but
                    #   it is better to be safe than sorry.
                    chunks.append(next_chunk[: self._bytes_remaining])
                    self._bytes_remaining = 0
"""
M('c07-asgi-readall-drop-clamp', 'C07', 'R4', A, _READALL_CLAMP,
  """                chunks.append(next_chunk)
                self._bytes_remaining -= next_chunk_len
""")
M('c07-asgi-readall-clamp-wrong-way', 'C07', 'R4', A,
  "                    chunks.append(next_chunk[: self._bytes_remaining])\n                    self._bytes_remaining = 0\n\n            # NOTE(kgriffs): This also handles the case of receiving\n            #   the event: {'type': 'http.disconnect'}\n            if not ('more_body' in event and event['more_body']):\n                self._bytes_remaining = 0\n\n        data",
  "                    chunks.append(next_chunk[self._bytes_remaining :])\n                    self._bytes_remaining = 0\n\n            # NOTE(kgriffs): This also handles the case of receiving\n            #   the event: {'type': 'http.disconnect'}\n            if not ('more_body' in event and event['more_body']):\n                self._bytes_remaining = 0\n\n        data")
M('c07-asgi-iter-drop-truncate', 'C07', 'R4', A,
  """                        next_chunk = next_chunk[: self._bytes_remaining]
                        self._pos += self._bytes_remaining
""", """                        self._pos += self._bytes_remaining
""")
M('c07-asgi-iter-pos-counts-whole-chunk', 'C07', 'R4', A,
  """                        next_chunk = next_chunk[: self._bytes_remaining]
                        self._pos += self._bytes_remaining
""", """                        next_chunk = next_chunk[: self._bytes_remaining]
                        self._pos += next_chunk_len
""")
M('c07-asgi-read-pos-plus-size', 'C07', 'R4', A,
  """            self._buffer = self._buffer[size:]

        self._pos += len(data)
""", """            self._buffer = self._buffer[size:]

        self._pos += size
""")
M('c07-asgi-read-budget-goes-negative', 'C07', 'R4', A,
  """                    self._bytes_remaining = 0
                    num_bytes_available += self._bytes_remaining
""", """                    self._bytes_remaining -= next_chunk_len
                    num_bytes_available += len(chunks[-1])
""")
M('c07-asgi-read-counter-not-updated', 'C07', 'R4', A,
  """                    self._bytes_remaining -= next_chunk_len
                    num_bytes_available += next_chunk_len
""", """                    self._bytes_remaining -= next_chunk_len
""")
M('c07-asgi-iter-budget-not-deducted', 'C07', 'R4', A,
  """                        self._bytes_remaining -= next_chunk_len
                        self._pos += next_chunk_len
""", """                        self._pos += next_chunk_len
""")
M('c07-asgi-exhaust-pos-not-advanced', 'C07', 'R4', A,
  """                self._bytes_remaining -= num_bytes
                self._pos += num_bytes
""", """                self._bytes_remaining -= num_bytes
""")
M('c07-asgi-exhaust-loops-on-negative-budget', 'C07', None, A,
  """        self._buffer = b''

        while self._bytes_remaining > 0:
""", """        self._buffer = b''

        while self._bytes_remaining != 0:
""")

# ------------------------------------------------------------------ R5 (termination)
_RESET = "            if not ('more_body' in event and event['more_body']):\n                self._bytes_remaining = 0\n"
# (M() drops `occurrence`; M2 edits keep it)
M2('c07-asgi-readall-no-more-body-reset', 'C07', 'R5', [{'file': A, 'old': _RESET, 'new': "", 'count': 3, 'occurrence': 0}])
M2('c07-asgi-read-no-more-body-reset', 'C07', 'R5', [{'file': A, 'old': _RESET, 'new': "", 'count': 3, 'occurrence': 1}])
M2('c07-asgi-iter-missing-more-body-means-more', 'C07', 'R5', [{
    'file': A, 'old': _RESET, 'count': 3, 'occurrence': 2,
    'new': "            if 'more_body' in event and not event['more_body']:\n                self._bytes_remaining = 0\n"}])
M('c07-asgi-exhaust-disconnect-ignored', 'C07', 'R5', A,
  """            if event['type'] == 'http.disconnect':
                self._bytes_remaining = 0
            else:
""", """            if event['type'] == 'http.disconnect':
                pass
            else:
""")
M('c07-asgi-exhaust-body-unprotected', 'C07', 'R5', A,
  """                try:
                    num_bytes = len(event['body'])
                except KeyError:
                    # NOTE(kgriffs): The ASGI spec states that 'body' is optional.
                    num_bytes = 0
""", """                num_bytes = len(event['body'])
""")
M('c07-asgi-read-loop-ignores-budget', 'C07', 'R5', A,
  "while self._bytes_remaining > 0 and num_bytes_available < size:", "while num_bytes_available < size:")
M('c07-asgi-ctor-no-clamp', 'C07', 'R5', A,
  "self._buffer = first_chunk[:content_length]", "self._buffer = first_chunk")
M('c07-asgi-ctor-missing-more-body-means-more', 'C07', 'R5', A,
  "if not ('more_body' in first_event and first_event['more_body']):", "if 'more_body' in first_event and not first_event['more_body']:")

# ------------------------------------------------------------------ R6 (lazy wrapping)
M('c07-wsgi-wrapper-not-memoised', 'C07', 'R6', 'falcon/request.py',
  """        if self._bounded_stream is None:
            self._bounded_stream = self._get_wrapped_wsgi_input()

        return self._bounded_stream
""", """        if self._bounded_stream is None:
            return self._get_wrapped_wsgi_input()

        return self._bounded_stream
""")
M('c07-wsgi-invalid-length-propagates', 'C07', 'R6', 'falcon/request.py',
  """            # but it had an invalid value. Assume no content.
            content_length = 0
""", """            # but it had an invalid value. Assume no content.
            raise
""")
M('c07-wsgi-missing-length-is-none', 'C07', 'R6', 'falcon/request.py',
  """            content_length = self.content_length or 0

        # NOTE(kgriffs): This branch is indeed covered""", """            content_length = self.content_length

        # NOTE(kgriffs): This branch is indeed covered""")
M('c07-asgi-stream-ignores-content-length', 'C07', 'R6', 'falcon/asgi/request.py',
  "                content_length=self.content_length,\n            )\n\n        return self._stream", "                content_length=None,\n            )\n\n        return self._stream")
M('c07-asgi-stream-rebuilt-every-time', 'C07', 'R6', 'falcon/asgi/request.py',
  "        if not self._stream:\n            self._stream = BoundedStream(", "        if True:\n            self._stream = BoundedStream(")

# ------------------------------------------------------------------ operators for the repaired shape of the WSGI helper
# (`result = target(size); self._bytes_remaining -= len(result)`, guard `size < 0`); they lapse ("skipped") on a tree
# that still has the original text, just as the R2/R3 operators above lapse once the repair is in.
M('c07-wsgi-fixed-drop-upper-clamp', 'C07', 'R2', W,
  "if size is None or size < 0 or size > self._bytes_remaining:", "if size is None or size < 0:")
M('c07-wsgi-fixed-only-minus-one-coerced', 'C07', 'R2', W,
  "if size is None or size < 0 or size > self._bytes_remaining:", "if size is None or size == -1 or size > self._bytes_remaining:")
M('c07-wsgi-fixed-deduct-requested-size', 'C07', 'R3', W,
  "        self._bytes_remaining -= len(result)\n        return result\n", "        self._bytes_remaining -= size\n        return result\n")
M('c07-wsgi-fixed-no-deduction', 'C07', 'R3', W,
  "        self._bytes_remaining -= len(result)\n        return result\n", "        return result\n")
M('c07-wsgi-fixed-readlines-through-helper', 'C07', 'R3', W,
  """        lines: List[bytes] = []
        total = 0
        while total < hint:
            line = self.readline()
            if not line:
                break

            lines.append(line)
            total += len(line)

        return lines
""", """        return self._read(hint, self.stream.readlines)
""")
M('c07-wsgi-fixed-next-reads-raw-line', 'C07', 'R1', W,
  "        line = self.readline()\n        if not line:\n            raise StopIteration\n",
  "        line = self.stream.readline()\n        if not line:\n            raise StopIteration\n")
M('c07-asgi-fixed-ctor-pos-counts-buffer', 'C07', 'R4', A,
  "        self._pos = 0\n", "        self._pos = len(self._buffer)\n")
M('c07-asgi-fixed-read-counter-after-zeroing', 'C07', 'R4', A,
  "                    num_bytes_available += self._bytes_remaining\n                    self._bytes_remaining = 0\n",
  "                    self._bytes_remaining = 0\n                    num_bytes_available += self._bytes_remaining\n")

# ------------------------------------------------------------------ wave 4: the clamp behind a helper method (R2 looks through it)
_CLAMP_IN_READ = "        if size is None or size < 0 or size > self._bytes_remaining:\n            size = self._bytes_remaining\n"
_CLAMP_IN_READLINES = "        if hint is None or hint < 0 or hint > self._bytes_remaining:\n            hint = self._bytes_remaining\n"
_BEFORE_READABLE = "    def readable(self) -> bool:\n"


def _clamp_helper(cond):
    return ("    def _clamp(self, size: Optional[int]) -> int:\n        if %s:\n            return self._bytes_remaining\n\n"
            "        return size\n\n" % cond) + _BEFORE_READABLE


# (s4-c07-1) the shared helper adopts the readlines() hint convention `size <= 0` -> no limit; read(0) returns the rest of the body
M2('c07-wsgi-clamp-helper-hint-convention', 'C07', 'R2', [
    {'file': W, 'old': _CLAMP_IN_READ, 'new': "        size = self._clamp(size)\n"},
    {'file': W, 'old': _CLAMP_IN_READLINES, 'new': "        hint = self._clamp(hint)\n"},
    {'file': W, 'old': _BEFORE_READABLE, 'new': _clamp_helper("size is None or size <= 0 or size > self._bytes_remaining")}])
# the classic falsy-zero slip in the helper
M2('c07-wsgi-clamp-helper-falsy-size', 'C07', 'R2', [
    {'file': W, 'old': _CLAMP_IN_READ, 'new': "        size = self._clamp(size)\n"},
    {'file': W, 'old': _BEFORE_READABLE, 'new': _clamp_helper("not size or size < 0 or size > self._bytes_remaining")}])
# the helper only normalises None / negatives; the upper bound got lost in the move
M2('c07-wsgi-clamp-helper-no-upper-bound', 'C07', 'R2', [
    {'file': W, 'old': _CLAMP_IN_READ, 'new': "        size = self._clamp(size)\n"},
    {'file': W, 'old': _BEFORE_READABLE, 'new': _clamp_helper("size is None or size < 0")}])
# two levels: the predicate lives in a second helper and treats 0 as "unbounded"
M2('c07-wsgi-clamp-two-helpers-zero-unbounded', 'C07', 'R2', [
    {'file': W, 'old': _CLAMP_IN_READ, 'new': "        size = self._clamp(size)\n"},
    {'file': W, 'old': _BEFORE_READABLE,
     'new': "    def _unbounded(self, n: Optional[int]) -> bool:\n        return n is None or n <= 0\n\n"
            "    def _clamp(self, size: Optional[int]) -> int:\n        if self._unbounded(size):\n            return self._bytes_remaining\n\n"
            "        return min(size, self._bytes_remaining)\n\n" + _BEFORE_READABLE}])
# the same slip without any helper
M('c07-wsgi-zero-size-means-everything', 'C07', 'R2', W,
  "if size is None or size < 0 or size > self._bytes_remaining:", "if size is None or size <= 0 or size > self._bytes_remaining:")

# ------------------------------------------------------------------ wave 4: decisions about consumption rest on bytes obtained (R3)
_EXHAUST_LOOP = "        while True:\n            chunk = self.read(chunk_size)\n            if not chunk:\n                break\n"
# (s4-c07-2) exhaust() counts down the sizes it asked for
M('c07-wsgi-exhaust-countdown-of-requested-sizes', 'C07', 'R3', W, _EXHAUST_LOOP,
  "        pending = self._bytes_remaining\n        while pending > 0:\n            size = min(chunk_size, pending)\n"
  "            if not self.read(size):\n                break\n\n            pending -= size\n")
M('c07-wsgi-exhaust-countdown-ignores-result', 'C07', 'R3', W, _EXHAUST_LOOP,
  "        pending = self._bytes_remaining\n        while pending > 0:\n            self.read(chunk_size)\n            pending -= chunk_size\n")
# the number of reads is fixed up front from a snapshot of the budget
M('c07-wsgi-exhaust-range-of-budget-snapshot', 'C07', 'R3', W, _EXHAUST_LOOP,
  "        for _ in range(0, self._bytes_remaining, chunk_size):\n            self.read(chunk_size)\n")
# a short read is taken for the end of the body
M('c07-wsgi-exhaust-stops-on-short-read', 'C07', 'R3', W, _EXHAUST_LOOP,
  "        while True:\n            chunk = self.read(chunk_size)\n            if len(chunk) < chunk_size:\n                break\n")
# one read of "everything that is left"
M('c07-wsgi-exhaust-single-read', 'C07', 'R3', W, _EXHAUST_LOOP, "        self.read(self._bytes_remaining)\n")

# ------------------------------------------------------------------ wave 5: who may force the budget to 0 (R3)
_READ_BODY = "        return self._read(size, self.stream.read)\n"
_DEDUCT = "        self._bytes_remaining -= len(result)\n        return result\n"
# (s5-c07-1) "report EOF for truncated requests": read(0) returns b'' as well and flips the stream to EOF with the body unread
M('c07-wsgi-read-eof-on-empty-result', 'C07', 'R3', W, _READ_BODY,
  "        data = self._read(size, self.stream.read)\n\n        if not data:\n            self._bytes_remaining = 0\n\n        return data\n")
M('c07-wsgi-read-eof-unconditional', 'C07', 'R3', W, _READ_BODY,
  "        data = self._read(size, self.stream.read)\n        self._bytes_remaining = 0\n        return data\n")
M('c07-wsgi-readline-eof-on-empty-line', 'C07', 'R3', W, "        return self._read(limit, self.stream.readline)\n",
  "        line = self._read(limit, self.stream.readline)\n        if len(line) == 0:\n            self._bytes_remaining = 0\n        return line\n")
# (s3-c07-3) the same reset inside the clamping helper
M('c07-wsgi-gate-eof-on-empty-result', 'C07', 'R3', W, _DEDUCT,
  "        self._bytes_remaining -= len(result)\n\n        if not result:\n            self._bytes_remaining = 0\n\n        return result\n")
# the reset behind a helper method (looked through at the call site)
M('c07-wsgi-read-eof-helper-on-empty-result', 'C07', 'R3', W, _READ_BODY,
  "        data = self._read(size, self.stream.read)\n        if not data:\n            self._mark_eof()\n        return data\n\n"
  "    def _mark_eof(self) -> None:\n        self._bytes_remaining = 0\n")
# a write to the budget that is no read at all
M('c07-wsgi-discard-marks-eof', 'C07', 'R3', W, _BEFORE_READABLE,
  "    def discard(self) -> None:\n        self._bytes_remaining = 0\n\n" + _BEFORE_READABLE)
# exhaust(0): read(0) returns b'', the loop ends, the reset reports EOF with the body unread
M('c07-wsgi-exhaust-marks-eof-after-loop', 'C07', 'R3', W, _EXHAUST_LOOP, _EXHAUST_LOOP + "\n        self._bytes_remaining = 0\n")

# ------------------------------------------------------------------ wave 5: whatever drains the ASGI stream leaves nothing behind (R4)
_EXHAUST_PROLOGUE = "        self._pos += len(self._buffer)\n        self._buffer = b''\n\n        while"
_READALL_EOF = "        if self.eof:\n            return b''\n\n        if self._buffer:\n            next_chunk = self._buffer\n            self._buffer = b''\n            chunks"
# (s5-c07-2) "nothing left to receive" is not "nothing left": buffered data is neither discarded nor counted
M('c07-asgi-exhaust-early-return-on-zero-budget', 'C07', 'R4', A, _EXHAUST_PROLOGUE,
  "        if self._bytes_remaining == 0:\n            return\n\n" + _EXHAUST_PROLOGUE)
M('c07-asgi-exhaust-early-return-on-empty-buffer', 'C07', 'R4', A, _EXHAUST_PROLOGUE,
  "        if not self._buffer:\n            return\n\n" + _EXHAUST_PROLOGUE)
M('c07-asgi-readall-early-return-on-zero-budget', 'C07', 'R4', A, _READALL_EOF,
  _READALL_EOF.replace("if self.eof:", "if self._bytes_remaining == 0:"))
M('c07-asgi-iter-early-return-on-zero-budget', 'C07', 'R4', A,
  "        if self.eof:\n            return\n\n        if self._iteration_started", "        if not self._bytes_remaining:\n            return\n\n        if self._iteration_started")
M('c07-asgi-exhaust-keeps-buffer', 'C07', 'R4', A, _EXHAUST_PROLOGUE, "        while")
M('c07-asgi-exhaust-drops-buffer-without-position', 'C07', 'R4', A, _EXHAUST_PROLOGUE, "        self._buffer = b''\n\n        while")

# ------------------------------------------------------------------ F21: an over-long event does not push the position past Content-Length (R4)
_EXHAUST_CLAMP = ("                # NOTE: Do not count more data than we are expecting; an\n"
                  "                #   over-long chunk is truncated the same way as in read().\n"
                  "                if num_bytes > self._bytes_remaining:\n"
                  "                    num_bytes = self._bytes_remaining\n\n")
_EXHAUST_UPDATES = "                self._bytes_remaining -= num_bytes\n                self._pos += num_bytes\n"
# (F21, revert of the fix) the whole event is counted: tell() ends up past Content-Length after exhaust()
M('c07-asgi-exhaust-drop-clamp', 'C07', 'R4', A, _EXHAUST_CLAMP, "")
# only the budget is clamped, the position still counts the whole event
M('c07-asgi-exhaust-clamp-budget-not-position', 'C07', 'R4', A, _EXHAUST_CLAMP + _EXHAUST_UPDATES,
  "                self._bytes_remaining -= min(num_bytes, self._bytes_remaining)\n                self._pos += num_bytes\n")
# the clamp comes after the position has been advanced
M('c07-asgi-exhaust-clamp-after-position', 'C07', 'R4', A, _EXHAUST_CLAMP + _EXHAUST_UPDATES,
  "                self._pos += num_bytes\n\n                if num_bytes > self._bytes_remaining:\n                    num_bytes = self._bytes_remaining\n\n"
  "                self._bytes_remaining -= num_bytes\n")
# the clamp is off by one (an event one byte too long is counted in full)
M('c07-asgi-exhaust-clamp-off-by-one', 'C07', 'R4', A,
  "                if num_bytes > self._bytes_remaining:\n                    num_bytes = self._bytes_remaining\n",
  "                if num_bytes > self._bytes_remaining + 1:\n                    num_bytes = self._bytes_remaining\n")
# the same defect in the body iterator: data and budget are clamped, the position counts the whole event
M('c07-asgi-iter-clamp-budget-not-position', 'C07', 'R4', A,
  """                    if next_chunk_len <= self._bytes_remaining:
                        self._bytes_remaining -= next_chunk_len
                        self._pos += next_chunk_len
                    else:
                        # NOTE(kgriffs): We received more data than expected,
                        #   so truncate to the expected length.
                        next_chunk = next_chunk[: self._bytes_remaining]
                        self._pos += self._bytes_remaining
                        self._bytes_remaining = 0
""", """                    next_chunk = next_chunk[: self._bytes_remaining]
                    self._bytes_remaining -= len(next_chunk)
                    self._pos += next_chunk_len
""")
# ... and in readall(): the position is tallied from the lengths of the events received, not from what is returned
M2('c07-asgi-readall-pos-tallies-received', 'C07', 'R4', [
    {'file': A, 'old': "            chunks = []\n\n        while self._bytes_remaining > 0:\n            event = await self._receive()\n\n"
                       "            # PERF(kgriffs): Use try..except because we normally expect the\n            #   'body' key to be present.\n"
                       "            try:\n                next_chunk = event['body']\n            except KeyError:\n                pass\n            else:\n"
                       "                next_chunk_len = len(next_chunk)\n\n                if next_chunk_len <= self._bytes_remaining:\n"
                       "                    chunks.append(next_chunk)\n                    self._bytes_remaining -= next_chunk_len\n                else:\n"
                       "                    # NOTE(kgriffs): Do not read more data than we are\n                    #   expecting. This *should* never happen if the\n",
     'new': "            chunks = []\n\n        while self._bytes_remaining > 0:\n            event = await self._receive()\n\n"
            "            # PERF(kgriffs): Use try..except because we normally expect the\n            #   'body' key to be present.\n"
            "            try:\n                next_chunk = event['body']\n            except KeyError:\n                pass\n            else:\n"
            "                next_chunk_len = len(next_chunk)\n                self._pos += next_chunk_len\n\n                if next_chunk_len <= self._bytes_remaining:\n"
            "                    chunks.append(next_chunk)\n                    self._bytes_remaining -= next_chunk_len\n                else:\n"
            "                    # NOTE(kgriffs): Do not read more data than we are\n                    #   expecting. This *should* never happen if the\n"},
    {'file': A, 'old': "            next_chunk = self._buffer\n            self._buffer = b''\n            chunks = [next_chunk]\n",
     'new': "            next_chunk = self._buffer\n            self._buffer = b''\n            self._pos += len(next_chunk)\n            chunks = [next_chunk]\n"},
    {'file': A, 'old': "        data = chunks[0] if len(chunks) == 1 else b''.join(chunks)\n        self._pos += len(data)\n\n        return data\n",
     'new': "        data = chunks[0] if len(chunks) == 1 else b''.join(chunks)\n\n        return data\n"}])
# the accounting moves into a helper method (looked through) and loses the clamp on the way
M2('c07-asgi-exhaust-helper-without-clamp', 'C07', 'R4', [
    {'file': A, 'old': _EXHAUST_CLAMP + _EXHAUST_UPDATES, 'new': "                self._consume(num_bytes)\n"},
    {'file': A, 'old': "    async def exhaust(self) -> None:\n",
     'new': "    def _consume(self, n: int) -> None:\n        self._bytes_remaining -= n\n        self._pos += n\n\n    async def exhaust(self) -> None:\n"}])

# ------------------------------------------------------------------ wave 7
# R6 (s7-c07-1): the budget handed to the WSGI wrapper is the declared Content-Length on EVERY path; a constant only
# stands in for an invalid header (stored in / surviving only through the HTTPInvalidHeader handler)
_R = 'falcon/request.py'
_WRAP_RET = "        return BoundedStream(self.env['wsgi.input'], content_length)\n"
M('c07-wsgi-zero-budget-for-auto-parsed-forms', 'C07', 'R6', _R, _WRAP_RET,
  """        if (
            self.options._auto_parse_form_urlencoded
            and self.content_type is not None
            and 'application/x-www-form-urlencoded' in self.content_type
        ):
            content_length = 0

""" + _WRAP_RET)
M('c07-wsgi-zero-budget-for-bodyless-methods', 'C07', 'R6', _R, _WRAP_RET,
  "        if self.method in ('GET', 'HEAD', 'OPTIONS'):\n            content_length = 0\n" + _WRAP_RET)
M('c07-wsgi-conditional-budget-expression', 'C07', 'R6', _R, _WRAP_RET,
  "        return BoundedStream(self.env['wsgi.input'], 0 if self.method == 'GET' else content_length)\n")

# R4 (s7-c07-2): the position / budget accounting of a chunk is complete BEFORE the chunk is yielded
_ITER_ACCT = """                    if next_chunk_len <= self._bytes_remaining:
                        self._bytes_remaining -= next_chunk_len
                        self._pos += next_chunk_len
                    else:
                        # NOTE(kgriffs): We received more data than expected,
                        #   so truncate to the expected length.
                        next_chunk = next_chunk[: self._bytes_remaining]
                        self._pos += self._bytes_remaining
                        self._bytes_remaining = 0

                    yield next_chunk
"""
M('c07-asgi-iter-position-after-yield', 'C07', 'R4', A, _ITER_ACCT,
  """                    if len(next_chunk) > self._bytes_remaining:
                        # NOTE(kgriffs): We received more data than expected,
                        #   so truncate to the expected length.
                        next_chunk = next_chunk[: self._bytes_remaining]

                    next_chunk_len = len(next_chunk)
                    self._bytes_remaining -= next_chunk_len

                    yield next_chunk
                    self._pos += next_chunk_len
""")
M('c07-asgi-iter-budget-after-yield', 'C07', 'R4', A, _ITER_ACCT,
  """                    if next_chunk_len > self._bytes_remaining:
                        next_chunk = next_chunk[: self._bytes_remaining]
                        next_chunk_len = len(next_chunk)

                    self._pos += next_chunk_len
                    yield next_chunk
                    self._bytes_remaining -= next_chunk_len
""")
M('c07-asgi-iter-buffer-position-after-yield', 'C07', 'R4', A,
  "            self._pos += len(next_chunk)\n            yield next_chunk\n",
  "            yield next_chunk\n            self._pos += len(next_chunk)\n")

# R3 (s7-c07-3): no loss -- a read result is handed on (or provably empty) on every normal path
_RL_LOOP = """        while total < hint:
            line = self.readline()
            if not line:
                break

"""
M('c07-wsgi-readlines-sentinel-iter-drops-line', 'C07', 'R3', W, _RL_LOOP,
  """        for line in iter(self.readline, b''):
            if total >= hint:
                break

""")
M('c07-wsgi-readlines-drops-overshooting-line', 'C07', 'R3', W,
  "            lines.append(line)\n            total += len(line)\n",
  "            if total + len(line) > hint and lines:\n                break\n            lines.append(line)\n            total += len(line)\n")
M('c07-wsgi-next-skips-blank-lines', 'C07', 'R3', W,
  """        line = self.readline()
        if not line:
            raise StopIteration

        return line
""", """        line = self.readline()
        if line in (b'\\n', b'\\r\\n'):
            line = self.readline()
        if not line:
            raise StopIteration

        return line
""")
M('c07-wsgi-readlines-peeks-and-discards', 'C07', 'R3', W,
  "        lines: List[bytes] = []\n        total = 0\n",
  "        lines: List[bytes] = []\n        total = 0\n        self.readline(0 if hint else 1)\n")

# ------------------------------------------------------------------ wave 8
# R6 (s8-c07-1): the value that becomes the stream budget is fed by the CGI meta-variable CONTENT_LENGTH only (the length
# the server framed the body with), never by a key of the client's header namespace HTTP_*
_CL_MISSING = """        try:
            value = self.env['CONTENT_LENGTH']
        except KeyError:
            return None
"""
M('c07-wsgi-content-length-falls-back-to-http-key', 'C07', 'R6', _R, _CL_MISSING,
  """        try:
            value = self.env['CONTENT_LENGTH']
        except KeyError:
            value = self.env.get('HTTP_CONTENT_LENGTH')
""")
M('c07-wsgi-content-length-or-http-key', 'C07', 'R6', _R, _CL_MISSING,
  """        value = self.env.get('CONTENT_LENGTH') or self.env.get('HTTP_CONTENT_LENGTH')
""")
M('c07-wsgi-content-length-through-get-header', 'C07', 'R6', _R, _CL_MISSING,
  """        value = self.get_header('Content-Length')
""", also=('C04',))  # get_header() of a missing header returns None where the constructor expects KeyError: escape set (C04 R6)
M('c07-asgi-content-length-falls-back-to-x-header', 'C07', 'R6', 'falcon/asgi/request.py',
  """        try:
            value = self._asgi_headers[b'content-length']
        except KeyError:
            return None
""", """        try:
            value = self._asgi_headers[b'content-length']
        except KeyError:
            value = self._asgi_headers.get(b'x-content-length', b'')
""", also=('C06',))

# ------------------------------------------------------------------ auto-mutation sweep (sa-am*)
_EXH_HEAD = "        self._buffer = b''\n\n        while self._bytes_remaining > 0:\n"
# R5 loop-boundary (sa-am01001 / sa-am01055): the guard of a receive loop has its boundary exactly at budget > 0
M('c07-asgi-exhaust-guard-never-true', 'C07', 'R5', A, _EXH_HEAD, _EXH_HEAD.replace('> 0', '< 0'))
M('c07-asgi-exhaust-guard-leaves-last-byte', 'C07', 'R5', A, _EXH_HEAD, _EXH_HEAD.replace('> 0', '> 1'))
M('c07-asgi-exhaust-guard-ge-two', 'C07', 'R5', A, _EXH_HEAD, _EXH_HEAD.replace('> 0', '>= 2'))
M('c07-asgi-read-guard-leaves-last-byte', 'C07', 'R5', A,
  "        while self._bytes_remaining > 0 and num_bytes_available < size:", "        while self._bytes_remaining > 1 and num_bytes_available < size:")
M2('c07-asgi-readall-guard-leaves-last-byte', 'C07', 'R5', [{
    'file': A, 'old': "            chunks = []\n\n        while self._bytes_remaining > 0:\n",
    'new': "            chunks = []\n\n        while 1 < self._bytes_remaining:\n", 'count': 1, 'occurrence': 0}])
# R4 event classification (sa-am01056): an event's body is left unread only for a disconnect / an event without 'body'
M('c07-asgi-exhaust-every-request-event-is-a-disconnect', 'C07', 'R4', A,
  "            if event['type'] == 'http.disconnect':\n                self._bytes_remaining = 0\n",
  "            if event['type'] != 'http.disconnect':\n                self._bytes_remaining = 0\n")
M('c07-asgi-exhaust-drops-events-without-more-body-unread', 'C07', 'R4', A,
  "            if event['type'] == 'http.disconnect':\n                self._bytes_remaining = 0\n",
  "            if event['type'] == 'http.disconnect' or not event.get('more_body'):\n                self._bytes_remaining = 0\n")
# R5 indexing (sa-am01104 / sa-am01120): chunks[0] needs a proof that the list is not empty
M('c07-asgi-readall-indexes-empty-chunk-list', 'C07', 'R5', A,
  "        data = chunks[0] if len(chunks) == 1 else b''.join(chunks)", "        data = chunks[0] if len(chunks) == 0 else b''.join(chunks)")
M('c07-asgi-read-indexes-empty-chunk-list', 'C07', 'R5', A,
  "        self._buffer = chunks[0] if len(chunks) == 1 else b''.join(chunks)", "        self._buffer = chunks[0] if len(chunks) == 0 else b''.join(chunks)")
M('c07-asgi-readall-indexes-short-chunk-list', 'C07', 'R5', A,
  "        data = chunks[0] if len(chunks) == 1 else b''.join(chunks)", "        data = chunks[0] if len(chunks) < 2 else b''.join(chunks)")
M('c07-asgi-read-indexes-unguarded', 'C07', 'R5', A,
  "        self._buffer = chunks[0] if len(chunks) == 1 else b''.join(chunks)", "        self._buffer = b''.join(chunks) if len(chunks) > 1 else chunks[0]")
# R6 zero fallback (sa-am02024): the budget standing in for an invalid / a missing Content-Length is 0
M('c07-wsgi-invalid-content-length-one-byte-allowance', 'C07', 'R6', _R,
  "            # but it had an invalid value. Assume no content.\n            content_length = 0\n",
  "            # but it had an invalid value. Assume no content.\n            content_length = 1\n")
M('c07-wsgi-missing-content-length-one-byte-allowance', 'C07', 'R6', _R,
  "            content_length = self.content_length or 0\n", "            content_length = self.content_length or 1\n")

# ------------------------------------------------------------------ wave 9
_AR = 'falcon/asgi/request.py'
_ALIAS = "        \"\"\"Alias to :attr:`~.stream`.\"\"\"\n        return self.stream\n"
# R6 (s9-c07-1): every construction of the ASGI wrapper in the request class passes the declared length
M('c07-asgi-alias-builds-unbounded-stream-for-transfer-encoding', 'C07', 'R6', _AR, _ALIAS,
  "        \"\"\"Alias to :attr:`~.stream`.\"\"\"\n        if not self._stream and b'transfer-encoding' in self._asgi_headers:\n"
  "            self._stream = BoundedStream(self._receive, first_event=self._first_event)\n\n        return self.stream\n")
M('c07-asgi-alias-builds-stream-with-content-length-none', 'C07', 'R6', _AR, _ALIAS,
  "        \"\"\"Alias to :attr:`~.stream`.\"\"\"\n        if self._stream is None and self.method == 'PATCH':\n"
  "            self._stream = BoundedStream(self._receive, first_event=self._first_event, content_length=None)\n\n        return self.stream\n")
M('c07-asgi-alias-builds-stream-without-first-event', 'C07', 'R6', _AR, _ALIAS,
  "        \"\"\"Alias to :attr:`~.stream`.\"\"\"\n        if self._stream is None:\n"
  "            self._stream = BoundedStream(self._receive, content_length=self.content_length)\n\n        return self.stream\n")
# R3 no loss (s9-c07-2): a read result must not leave the method only inside a lazily consumed object
_ITER_SELF = "    def __iter__(self) -> BoundedStream:\n        return self\n"
M('c07-wsgi-iter-drains-body-into-list-iterator', 'C07', 'R3', W, _ITER_SELF,
  "    def __iter__(self):\n        return iter(self.readlines())\n")
M('c07-wsgi-iter-drains-body-into-generator-expression', 'C07', 'R3', W, _ITER_SELF,
  "    def __iter__(self):\n        return (line for line in self.readlines())\n")
M('c07-wsgi-iter-drains-body-then-iterates-local', 'C07', 'R3', W, _ITER_SELF,
  "    def __iter__(self):\n        lines = self.readlines()\n        return iter(lines)\n")
M('c07-wsgi-iter-generator-yields-from-bulk-read', 'C07', 'R3', W, _ITER_SELF,
  "    def __iter__(self):\n        yield from self.readlines()\n")
# R1 (s9-c07-3): a direct sized call on the raw stream asks for a size that derives from the live budget
_NEXT_LINE = "        line = self.readline()\n        if not line:\n            raise StopIteration\n\n        return line\n"
M('c07-wsgi-next-direct-readline-limited-by-stream-len', 'C07', 'R1', W, _NEXT_LINE,
  "        if self.eof:\n            raise StopIteration\n\n        line = self.stream.readline(self.stream_len)\n        if not line:\n"
  "            raise StopIteration\n\n        self._bytes_remaining -= len(line)\n        return line\n")
M('c07-wsgi-next-direct-readline-limited-by-constant', 'C07', 'R1', W, _NEXT_LINE,
  "        if self.eof:\n            raise StopIteration\n\n        line = self.stream.readline(8192)\n        if not line:\n"
  "            raise StopIteration\n\n        self._bytes_remaining -= len(line)\n        return line\n")
M('c07-wsgi-next-direct-readline-limit-through-local', 'C07', 'R1', W, _NEXT_LINE,
  "        limit = max(self.stream_len, 1)\n        line = self.stream.readline(limit)\n        if not line:\n"
  "            raise StopIteration\n\n        self._bytes_remaining -= len(line)\n        return line\n")

# ------------------------------------------------------------------ wave 10
# R4 'buffer at yield' (s10-c07-1): a chunk served from the receive buffer has left the buffer when it is yielded
_BUFFERED = ("            next_chunk = self._buffer\n            self._buffer = b''\n\n"
             "            self._pos += len(next_chunk)\n            yield next_chunk\n")
M('c07-asgi-iter-yields-buffer-and-clears-it-after-the-yield', 'C07', 'R4', 'falcon/asgi/stream.py', _BUFFERED,
  "            self._pos += len(self._buffer)\n            yield self._buffer\n            self._buffer = b''\n")
M('c07-asgi-iter-clears-buffer-after-yielding-the-local', 'C07', 'R4', 'falcon/asgi/stream.py', _BUFFERED,
  "            next_chunk = self._buffer\n\n            self._pos += len(next_chunk)\n            yield next_chunk\n            self._buffer = b''\n")
M('c07-asgi-iter-yields-copy-of-buffer-and-clears-it-after-the-yield', 'C07', 'R4', 'falcon/asgi/stream.py', _BUFFERED,
  "            self._pos += len(self._buffer)\n            yield self._buffer[:]\n            self._buffer = b''\n")

# ------------------------------------------------------------------ preserving wave 3: refactoring + break
# k3-c07-4 (bound methods hoisted out of the loops: `read = self.read`, `readline = self.readline`, `append = lines.append`)
# together with a real mistake: the hoisted local is read like the method it is
M('c07-wsgi-exhaust-hoisted-read-stops-on-short-read', 'C07', 'R3', W, _EXHAUST_LOOP,
  "        read = self.read\n        while True:\n            chunk = read(chunk_size)\n            if len(chunk) < chunk_size:\n                break\n")
M('c07-wsgi-exhaust-hoisted-read-countdown-ignores-result', 'C07', 'R3', W, _EXHAUST_LOOP,
  "        read = self.read\n        pending = self._bytes_remaining\n        while pending > 0:\n            read(chunk_size)\n            pending -= chunk_size\n")
M('c07-wsgi-readlines-hoisted-append-drops-overshooting-line', 'C07', 'R3', W,
  "        lines: List[bytes] = []\n        total = 0\n        while total < hint:\n            line = self.readline()\n            if not line:\n                break\n\n"
  "            lines.append(line)\n            total += len(line)\n",
  "        readline = self.readline\n        lines: List[bytes] = []\n        append = lines.append\n        total = 0\n        while total < hint:\n"
  "            line = readline()\n            if not line:\n                break\n\n"
  "            if total + len(line) > hint and lines:\n                break\n            append(line)\n            total += len(line)\n")
# the raw read hoisted into a local and called directly, bypassing the clamp
M('c07-wsgi-read-hoisted-raw-read-called-directly', 'C07', None, W, _READ_BODY,
  "        raw_read = self.stream.read\n        return raw_read(size)\n")
# pre-emptive hardening (same wave): each refactoring below is read silently on its own; with the mistake it must fire
# a pure control flag instead of `break` -- and the flag is set on a short read
M('c07-wsgi-exhaust-flag-loop-stops-on-short-read', 'C07', 'R3', W, _EXHAUST_LOOP,
  "        done = False\n        while not done:\n            chunk = self.read(chunk_size)\n            if len(chunk) < chunk_size:\n                done = True\n")
# walrus loop that ends on a short read
M('c07-wsgi-exhaust-walrus-loop-stops-on-short-read', 'C07', 'R3', W, _EXHAUST_LOOP,
  "        while len(chunk := self.read(chunk_size)) == chunk_size:\n            pass\n")
# ASGI: `append = chunks.append` hoisted out of the receive loop of readall(), oversize branch appends the whole chunk
M2('c07-asgi-readall-hoisted-append-drops-truncation', 'C07', 'R4', [
    {'file': A, 'old': "            chunks = []\n\n        while self._bytes_remaining > 0:\n            event = await self._receive()\n\n            # PERF(kgriffs): Use try..except because we normally expect the\n",
     'new': "            chunks = []\n\n        append = chunks.append\n        while self._bytes_remaining > 0:\n            event = await self._receive()\n\n            # PERF(kgriffs): Use try..except because we normally expect the\n",
},
    {'file': A, 'old': "                    chunks.append(next_chunk[: self._bytes_remaining])\n                    self._bytes_remaining = 0\n\n            # NOTE(kgriffs): This also handles the case of receiving\n",
     'new': "                    append(next_chunk)\n                    self._bytes_remaining = 0\n\n            # NOTE(kgriffs): This also handles the case of receiving\n"}])
# ASGI: the more_body test moved into a module-level helper that forgets the truthiness of the value
M2('c07-asgi-more-body-helper-tests-presence-only', 'C07', 'R5', [
    {'file': A, 'old': "            if not ('more_body' in event and event['more_body']):\n                self._bytes_remaining = 0\n\n        data = chunks[0] if len(chunks) == 1 else b''.join(chunks)\n        self._pos += len(data)\n\n        return data\n\n    async def read(",
     'new': "            if not _has_more_body(event):\n                self._bytes_remaining = 0\n\n        data = chunks[0] if len(chunks) == 1 else b''.join(chunks)\n        self._pos += len(data)\n\n        return data\n\n    async def read("},
    {'file': A, 'old': "class BoundedStream:", 'new': "def _has_more_body(event):\n    return 'more_body' in event\n\n\nclass BoundedStream:"}])
# ASGI: exhaust() reads the body through event.get('body', b'') and forgets the clamp
M('c07-asgi-exhaust-body-get-without-clamp', 'C07', 'R4', A,
  "                try:\n                    num_bytes = len(event['body'])\n                except KeyError:\n"
  "                    # NOTE(kgriffs): The ASGI spec states that 'body' is optional.\n                    num_bytes = 0\n\n"
  "                # NOTE: Do not count more data than we are expecting; an\n                #   over-long chunk is truncated the same way as in read().\n"
  "                if num_bytes > self._bytes_remaining:\n                    num_bytes = self._bytes_remaining\n",
  "                num_bytes = len(event.get('body', b''))\n")
# ASGI read(): the size test moved into the loop body as `if ...: break`, and the F3 slip (counter grows by the zeroed budget)
M2('c07-asgi-read-break-form-counter-after-zeroing', 'C07', 'R4', [
    {'file': A, 'old': "        while self._bytes_remaining > 0 and num_bytes_available < size:\n",
     'new': "        while self._bytes_remaining > 0:\n            if num_bytes_available >= size:\n                break\n"},
    {'file': A, 'old': "                    num_bytes_available += self._bytes_remaining\n                    self._bytes_remaining = 0\n",
     'new': "                    self._bytes_remaining = 0\n                    num_bytes_available += self._bytes_remaining\n"}])
# R6: the memo travels through a local (`stream = self._bounded_stream ... return stream`) and the store is forgotten
M('c07-wsgi-bounded-stream-local-memo-not-stored', 'C07', 'R6', 'falcon/request.py',
  "        if self._bounded_stream is None:\n            self._bounded_stream = self._get_wrapped_wsgi_input()\n\n        return self._bounded_stream\n",
  "        stream = self._bounded_stream\n        if stream is None:\n            stream = self._get_wrapped_wsgi_input()\n\n        return stream\n")
# the disconnect test written against 'http.request' -- with the wrong operator (every ordinary event ends the body)
M('c07-asgi-exhaust-request-type-test-wrong-operator', 'C07', 'R4', A,
  "            if event['type'] == 'http.disconnect':\n                self._bytes_remaining = 0\n            else:\n                try:\n                    num_bytes = len(event['body'])\n",
  "            if event['type'] == 'http.request':\n                self._bytes_remaining = 0\n            else:\n                try:\n                    num_bytes = len(event['body'])\n")
