"""Mutation operators for C08 (query strings and typed getters)."""

from .mutants import M, M2

# --------------------------------------------------------------------- R1
# decode before the comma split (new-key branch): %2C now splits
M('c08-decode-before-csv-split', 'C08', 'R1', 'falcon/util/uri.py',
  """        else:
            if csv and ',' in v:
""", """        else:
            if is_encoded:
                v = decode(v)
            if csv and ',' in v:
""")
# same, in the repeated-key branch and only under the csv flag (subtle)
M('c08-decode-before-csv-split-repeated', 'C08', 'R1', 'falcon/util/uri.py',
  """            old_value = params[k]

            if csv and ',' in v:
""", """            old_value = params[k]
            if csv:
                v = decode(v)

            if csv and ',' in v:
""")
M('c08-rpartition', 'C08', 'R1', 'falcon/util/uri.py',
  "k, _, v = field.partition('=')", "k, _, v = field.rpartition('=')")
M('c08-split-fields-on-semicolon', 'C08', 'R1', 'falcon/util/uri.py',
  "for field in query_string.split('&'):", "for field in query_string.split(';'):")
M('c08-csv-split-unconditional', 'C08', 'R1', 'falcon/util/uri.py',
  """        else:
            if csv and ',' in v:
""", """        else:
            if ',' in v:
""")
M('c08-csv-pieces-not-decoded', 'C08', 'R1', 'falcon/util/uri.py',
  "params[k] = [decode(element) for element in values]", "params[k] = [element for element in values]")
M('c08-csv-blank-pieces-swapped', 'C08', 'R1', 'falcon/util/uri.py',
  """                if not keep_blank:
                    # NOTE(kgriffs): Normalize the result in the case that
                    # some elements are empty strings, such that the result
                    # will be the same for 'foo=1,,3' as 'foo=1&foo=&foo=3'.
                    params[k] = [decode(element) for element in values if element]
""", """                if keep_blank:
                    # NOTE(kgriffs): Normalize the result in the case that
                    # some elements are empty strings, such that the result
                    # will be the same for 'foo=1,,3' as 'foo=1&foo=&foo=3'.
                    params[k] = [decode(element) for element in values if element]
""")
M('c08-blank-field-polarity', 'C08', 'R1', 'falcon/util/uri.py',
  "if not v and (not keep_blank or not k):", "if not v and (keep_blank or not k):")
M('c08-blank-field-ignores-option', 'C08', 'R1', 'falcon/util/uri.py',
  "if not v and (not keep_blank or not k):", "if not v:")

# --------------------------------------------------------------------- R2
M('c08-decode-wrong-handler', 'C08', 'R2', 'falcon/util/uri.py',
  """                reencoded_uri += _HEX_TO_BYTE[token_partial] + token[2:]
            except KeyError:
""", """                reencoded_uri += _HEX_TO_BYTE[token_partial] + token[2:]
            except IndexError:
""", also=('C10',))  # decode() is also C10's subject (R4: decoding is total)
M('c08-decode-strict-utf8', 'C08', 'R2', 'falcon/util/uri.py',
  """        # Convert back to str
        return reencoded_uri.decode('utf-8', 'replace')
""", """        # Convert back to str
        return reencoded_uri.decode('utf-8')
""", also=('C04', 'C10'))  # also breaks C04 R6 (the request constructor now raises before the first try) and C10 R4
M('c08-join-tokens-no-try', 'C08', 'R2', 'falcon/util/uri.py',
  """        try:
            decoded_uri += _HEX_TO_BYTE[token_partial] + token[2:]
        except KeyError:
            # malformed percentage like "x=%" or "y=%+"
            decoded_uri += b'%' + token
""", """        decoded_uri += _HEX_TO_BYTE[token_partial] + token[2:]
""", also=('C10',))
M('c08-decode-reencode-ascii', 'C08', 'R2', 'falcon/util/uri.py',
  "reencoded_uri = decoded_uri.encode()", "reencoded_uri = decoded_uri.encode('ascii')", also=('C04', 'C10'))  # same

# --------------------------------------------------------------------- R3
M2('c08-int-first-occurrence', 'C08', 'R3', [{'file': 'falcon/request.py', 'old': "                val_str = val_str[-1]",
                                                'new': "                val_str = val_str[0]", 'count': 4, 'occurrence': 0}])
M('c08-get-param-first-occurrence', 'C08', 'R3', 'falcon/request.py',
  "                param = param[-1]", "                param = param[0]")
M2('c08-int-min-inclusive', 'C08', 'R3', [{'file': 'falcon/request.py', 'old': "if min_value is not None and val < min_value:",
                                             'new': "if min_value is not None and val <= min_value:", 'count': 2, 'occurrence': 0}])
M2('c08-float-max-inclusive', 'C08', 'R3', [{'file': 'falcon/request.py', 'old': "if max_value is not None and max_value < val:",
                                               'new': "if max_value is not None and max_value <= val:", 'count': 2, 'occurrence': 1}])
M('c08-uuid-catches-typeerror', 'C08', 'R3', 'falcon/request.py',
  """                val = UUID(val_str)
            except ValueError:
""", """                val = UUID(val_str)
            except TypeError:
""")
M('c08-datetime-catches-typeerror', 'C08', 'R3', 'falcon/request.py',
  """            date_time = strptime(param_value, format_string)
        except ValueError:
""", """            date_time = strptime(param_value, format_string)
        except TypeError:
""")
M('c08-int-store-before-convert', 'C08', 'R3', 'falcon/request.py',
  """            try:
                val = int(val_str)
            except ValueError:
                msg = 'The value must be an integer.'
                raise errors.HTTPInvalidParam(msg, name)
""", """            if store is not None:
                store[name] = val_str

            try:
                val = int(val_str)
            except ValueError:
                msg = 'The value must be an integer.'
                raise errors.HTTPInvalidParam(msg, name)
""")
M('c08-float-store-before-bounds', 'C08', 'R3', 'falcon/request.py',
  """                msg = 'The value must be a float.'
                raise errors.HTTPInvalidParam(msg, name)

""", """                msg = 'The value must be a float.'
                raise errors.HTTPInvalidParam(msg, name)

            if store is not None:
                store[name] = val

""")
M('c08-uuid-store-unconverted', 'C08', 'R3', 'falcon/request.py',
  """                msg = 'The value must be a UUID string.'
                raise errors.HTTPInvalidParam(msg, name)

            if store is not None:
                store[name] = val
""", """                msg = 'The value must be a UUID string.'
                raise errors.HTTPInvalidParam(msg, name)

            if store is not None:
                store[name] = val_str
""")
M('c08-bool-store-truthiness', 'C08', 'R3', 'falcon/request.py',
  """                raise errors.HTTPInvalidParam(msg, name)

            if store is not None:
                store[name] = val

            return val

        if not required:
            return default

        raise errors.HTTPMissingParam(name)

    @overload
    def get_param_as_list(""", """                raise errors.HTTPInvalidParam(msg, name)

            if store:
                store[name] = val

            return val

        if not required:
            return default

        raise errors.HTTPMissingParam(name)

    @overload
    def get_param_as_list(""")
M('c08-date-passes-store-to-delegate', 'C08', 'R3', 'falcon/request.py',
  "date_time = self.get_param_as_datetime(name, format_string, required)",
  "date_time = self.get_param_as_datetime(name, format_string, required, store)")
M('c08-json-ignores-required', 'C08', 'R3', 'falcon/request.py',
  """        param_value = self.get_param(name, required=required)

        if param_value is None:
            return default

        handler, _, _ =""", """        param_value = self.get_param(name)

        if param_value is None:
            return default

        handler, _, _ =""")
M('c08-list-default-when-required', 'C08', 'R3', 'falcon/request.py',
  """            return items_ret

        if not required:
            return default
""", """            return items_ret

        if required:
            return default
""")
M('c08-list-swallows-bad-item', 'C08', 'R3', 'falcon/request.py',
  """                except ValueError:
                    msg = 'The value is not formatted correctly.'
                    raise errors.HTTPInvalidParam(msg, name)
""", """                except ValueError:
                    return default
""")

# --------------------------------------------------------------------- R4
M('c08-to-query-str-raw-key', 'C08', 'R4', 'falcon/util/misc.py',
  "        query_str += encode_value(k) + '=' + v + '&'", "        query_str += k + '=' + v + '&'")
M('c08-to-query-str-raw-value', 'C08', 'R4', 'falcon/util/misc.py',
  """        else:
            v = encode_value(str(v))
""", """        else:
            v = str(v)
""")
M('c08-to-query-str-raw-list-item', 'C08', 'R4', 'falcon/util/misc.py',
  "list_value = encode_value(str(list_value))", "list_value = str(list_value)")
M('c08-to-query-str-csv-items-raw', 'C08', 'R4', 'falcon/util/misc.py',
  "v = ','.join(map(encode_value, map(str, v)))", "v = ','.join(map(str, v))")
M('c08-to-query-str-flag-inverted', 'C08', 'R4', 'falcon/util/misc.py',
  "            if comma_delimited_lists:", "            if not comma_delimited_lists:")
M('c08-to-query-str-semicolon', 'C08', 'R4', 'falcon/util/misc.py',
  "        query_str += encode_value(k) + '=' + v + '&'", "        query_str += encode_value(k) + '=' + v + ';'")

# --------------------------------------------------------------------- R5
M('c08-asgi-options-swapped', 'C08', 'R5', 'falcon/asgi/request.py',
  """                keep_blank=self.options.keep_blank_qs_values,
                csv=self.options.auto_parse_qs_csv,
""", """                keep_blank=self.options.auto_parse_qs_csv,
                csv=self.options.keep_blank_qs_values,
""", also=('C06',))
M('c08-wsgi-csv-option-dropped', 'C08', 'R5', 'falcon/request.py',
  """                    keep_blank=self.options.keep_blank_qs_values,
                    csv=self.options.auto_parse_qs_csv,
                )

            else:
                self._params = {}
""", """                    keep_blank=self.options.keep_blank_qs_values,
                )

            else:
                self._params = {}
""", also=('C06',))

M('c08-asgi-query-latin1', 'C08', 'R9', 'falcon/asgi/request.py',
  "query_string = scope['query_string'].decode()", "query_string = scope['query_string'].decode('latin1')", also=('C04', 'C06'))
M('c08-parse-query-string-memoised', 'C08', 'R8', 'falcon/util/uri.py',
  "def parse_query_string(", "@functools.lru_cache(maxsize=512)\ndef parse_query_string(", also=('C19',))

# ---- wave 4 (F17)
M('c08-json-getter-passes-character-count', 'C08', 'R10', 'falcon/request.py',
  """                BytesIO(param_bytes), MEDIA_JSON, len(param_bytes)
""", """                BytesIO(param_bytes), MEDIA_JSON, len(param_value)
""")

# ---- wave 5: R11 a getter never tokenises a stored value again (s5-c08-1)
_LIST_SIG = """        default: Optional[List[_T]] = None,
    ) -> Optional[List[_T] | List[str]]:
"""
_LIST_WRAP = """            if not isinstance(items, list):
                items = [items]
"""
# the seed: delimiter=None resolves to ',' under the csv option, then every item is split
M2('c08-list-getter-default-delimiter-resplits', 'C08', 'R11', [
    {'file': 'falcon/request.py', 'old': _LIST_SIG, 'new': """        default: Optional[List[_T]] = None,
        delimiter: Optional[str] = None,
    ) -> Optional[List[_T] | List[str]]:
"""},
    {'file': 'falcon/request.py', 'old': _LIST_WRAP, 'new': _LIST_WRAP + """
            if delimiter is None and self.options.auto_parse_qs_csv:
                delimiter = ','

            if delimiter:
                items = [elem for item in items for elem in item.split(delimiter)]
"""}])
# variant: the new keyword simply defaults to ','
M2('c08-list-getter-delimiter-defaults-to-comma', 'C08', 'R11', [
    {'file': 'falcon/request.py', 'old': _LIST_SIG, 'new': """        default: Optional[List[_T]] = None,
        delimiter: str = ',',
    ) -> Optional[List[_T] | List[str]]:
"""},
    {'file': 'falcon/request.py', 'old': _LIST_WRAP, 'new': _LIST_WRAP + """            if delimiter:
                items = [elem for item in items for elem in item.split(delimiter)]
"""}])
# variant: the second split sits in a same-class helper
M2('c08-list-getter-resplits-in-helper', 'C08', 'R11', [
    {'file': 'falcon/request.py', 'old': _LIST_WRAP, 'new': _LIST_WRAP + """            items = self._split_csv_items(items)
"""},
    {'file': 'falcon/request.py', 'old': """    def get_param_as_datetime(
        self,
        name: str,
        format_string: str = '%Y-%m-%dT%H:%M:%S%z',
        required: bool = False,
        store: StoreArg = None,
        default: Optional[datetime] = None,
    ) -> Optional[datetime]:
""", 'new': """    def _split_csv_items(self, items: List[str]) -> List[str]:
        if not self.options.auto_parse_qs_csv:
            return items
        return [elem for item in items for elem in item.split(',')]

    def get_param_as_datetime(
        self,
        name: str,
        format_string: str = '%Y-%m-%dT%H:%M:%S%z',
        required: bool = False,
        store: StoreArg = None,
        default: Optional[datetime] = None,
    ) -> Optional[datetime]:
"""}])
# variant: a scalar getter keeps only what follows the last comma of the (decoded) value
M('c08-get-param-cuts-at-last-comma', 'C08', 'R11', 'falcon/request.py',
  """                param = param[-1]

            if store is not None:
                store[name] = param
""", """                param = param[-1]
            elif self.options.auto_parse_qs_csv:
                param = param.rpartition(',')[2]

            if store is not None:
                store[name] = param
""")

# ---- wave 7: R12 the JSON getter converts with the handler the collection's RESOLVER gives (s7-c08-1)
_JSON_RESOLVE = """        handler, _, _ = self.options.media_handlers._resolve(
            MEDIA_JSON, MEDIA_JSON, raise_not_found=False
        )
        if handler is None:
            handler = _DEFAULT_JSON_HANDLER
"""
# the seed: a plain dict lookup misses a handler registered under 'application/json; charset=UTF-8'
M('c08-json-getter-handler-by-dict-get', 'C08', 'R12', 'falcon/request.py', _JSON_RESOLVE,
  """        handler = self.options.media_handlers.get(MEDIA_JSON)
        if handler is None:
            handler = _DEFAULT_JSON_HANDLER
""")
# variant: membership test + subscript
M('c08-json-getter-handler-by-membership', 'C08', 'R12', 'falcon/request.py', _JSON_RESOLVE,
  """        if MEDIA_JSON in self.options.media_handlers:
            handler = self.options.media_handlers[MEDIA_JSON]
        else:
            handler = _DEFAULT_JSON_HANDLER
""")
# variant: the lookup goes to the UserDict's backing dict, through a local alias
M('c08-json-getter-handler-from-backing-dict', 'C08', 'R12', 'falcon/request.py', _JSON_RESOLVE,
  """        handlers = self.options.media_handlers
        handler = handlers.data.get(MEDIA_JSON) or _DEFAULT_JSON_HANDLER
""")
# variant: the stock handler is used whatever the resolver answered
M('c08-json-getter-always-stock-handler', 'C08', 'R12', 'falcon/request.py',
  """        if handler is None:
            handler = _DEFAULT_JSON_HANDLER

        try:
            # TODO(CaselIT)""", """        handler = _DEFAULT_JSON_HANDLER

        try:
            # TODO(CaselIT)""")
# variant: the resolver is asked for another media type
M('c08-json-getter-resolves-other-type', 'C08', 'R12', 'falcon/request.py',
  """            MEDIA_JSON, MEDIA_JSON, raise_not_found=False
        )
        if handler is None:
            handler = _DEFAULT_JSON_HANDLER
""", """            'text/json', 'text/json', raise_not_found=False
        )
        if handler is None:
            handler = _DEFAULT_JSON_HANDLER
""")
# variant: a removed JSON handler is no longer tolerated (415 instead of the stock reading)
M('c08-json-getter-resolver-raises-when-missing', 'C08', 'R12', 'falcon/request.py',
  """            MEDIA_JSON, MEDIA_JSON, raise_not_found=False
        )
        if handler is None:
            handler = _DEFAULT_JSON_HANDLER
""", """            MEDIA_JSON, MEDIA_JSON
        )
        if handler is None:
            handler = _DEFAULT_JSON_HANDLER
""")

# ---- wave 7: R13 (= C06 R8) the parameter mapping is per request (s7-c08-2)
M2('c08-asgi-params-mutable-class-default', 'C08', 'R13', [
    {'file': 'falcon/asgi/request.py', 'old': """        else:
            self._params = {}

""", 'new': """
"""},
    {'file': 'falcon/asgi/request.py', 'old': "    _media: UnsetOr[Any] = _UNSET\n", 'new': "    _media: UnsetOr[Any] = _UNSET\n    _params: Dict[str, Any] = {}\n"}],
   also=('C06', 'C19'))
# variant: the class default is spelled dict() and the empty-query branch is a bare pass
M2('c08-asgi-params-class-default-dict-call', 'C08', 'R13', [
    {'file': 'falcon/asgi/request.py', 'old': """        else:
            self._params = {}

""", 'new': """        else:
            pass

"""},
    {'file': 'falcon/asgi/request.py', 'old': "    _stream: Optional[BoundedStream] = None\n", 'new': "    _stream: Optional[BoundedStream] = None\n    _params: Dict[str, Any] = dict()\n"}],
   also=('C06', 'C19'))

# ---- wave 8 (first contact): R3 a delegating getter stores ITS OWN converted value; the store is not handed to the delegate (s8-c08-3)
M('c08-date-getter-hands-store-to-delegate', 'C08', 'R3', 'falcon/request.py',
  """        date_time = self.get_param_as_datetime(name, format_string, required)
        if date_time:
            date = date_time.date()
        else:
            return default

        if store is not None:
            store[name] = date

        return date
""", """        date_time = self.get_param_as_datetime(
            name, format_string, required=required, store=store
        )
        if date_time is None:
            return default

        return date_time.date()
""")

# R15 the "nothing to decode" shortcut excludes both '%' and '+' (sa-am03464, sa-am03493)
URI = 'falcon/util/uri.py'
ENC = "    is_encoded = '+' in query_string or '%' in query_string\n"
M('c08-shortcut-forgets-plus', 'C08', 'R15', URI, ENC, "    is_encoded = '%' in query_string\n")
M('c08-shortcut-plus-test-negated', 'C08', 'R15', URI, ENC, "    is_encoded = '+' not in query_string or '%' in query_string\n")
M('c08-shortcut-forgets-percent', 'C08', 'R15', URI, ENC, "    is_encoded = '+' in query_string\n")
M('c08-shortcut-needs-both', 'C08', 'R15', URI, ENC, "    is_encoded = '+' in query_string and '%' in query_string\n")
M('c08-value-stored-raw-when-encoded', 'C08', 'R15', URI,
  "            elif is_encoded:\n                params[k] = decode(v)\n            else:\n                params[k] = v\n",
  "            elif not is_encoded:\n                params[k] = decode(v)\n            else:\n                params[k] = v\n")
M('c08-name-never-decoded', 'C08', 'R15', URI,
  "        if is_encoded:\n            k = decode(k)\n", "        if is_encoded and not k:\n            k = decode(k)\n")
# negative controls (exit 0): operands swapped; `plain = '+' not in qs and '%' not in qs` with `if not plain:`; the test inlined at
# each site; the test per field (`'+' in field or '%' in field`) or per value; the shortcut removed (always decode)

# ---------------------------------------------------------------- wave 9
REQ = 'falcon/request.py'
# R16 has_param decides by the key (s9-c08-1)
HAS = "        if name in self._params:\n            return True\n        else:\n            return False\n"
M('c08-has-param-by-truthiness', 'C08', 'R16', REQ, HAS, "        return bool(self._params.get(name))\n")
M('c08-has-param-truthy-branch', 'C08', 'R16', REQ, HAS, "        if self._params.get(name):\n            return True\n        return False\n")
M('c08-has-param-blank-is-absent', 'C08', 'R16', REQ, HAS, "        return name in self._params and self._params[name] != ''\n")
M('c08-has-param-negated', 'C08', 'R16', REQ, HAS, "        return name not in self._params\n")
# negative controls (exit 0): `return name in self._params`; `return self._params.get(name) is not None`; try: self._params[name]
# / except KeyError: return False / return True; `params = self._params; found = name in params; return bool(found)`

# R3(c) get_param: what is stored is the value that is returned -- same expression over the same bindings (s9-c08-2)
GP = ("            param = params[name]\n            if isinstance(param, list):\n                param = param[-1]\n\n"
      "            if store is not None:\n                store[name] = param\n\n            return param\n")
M('c08-get-param-stores-before-flattening-expr', 'C08', 'R3', REQ, GP,
  "            param = params[name]\n\n            if store is not None:\n                store[name] = param\n\n"
  "            return param[-1] if isinstance(param, list) else param\n")
M('c08-get-param-stores-before-flattening-stmt', 'C08', 'R3', REQ, GP,
  "            param = params[name]\n\n            if store is not None:\n                store[name] = param\n\n"
  "            if isinstance(param, list):\n                param = param[-1]\n\n            return param\n")
M('c08-get-param-first-occurrence-expr', 'C08', 'R3', REQ, GP,
  "            param = params[name]\n            value = param[0] if isinstance(param, list) else param\n\n"
  "            if store is not None:\n                store[name] = value\n\n            return value\n")
# negative controls (exit 0): `value = param[-1] if isinstance(param, list) else param` stored and returned;
# `param = param if not isinstance(param, list) else param[-1]`

# ---------------------------------------------------------------- wave 10 (behaviour-preserving shapes the rules now read: the break INSIDE them)
# R1 per-path reading of the comma split: pieces stored as they stand behind a guard that does not exclude what decode() rewrites
NEWKEY_KEEP = "                    params[k] = [decode(element) for element in values]\n"
M('c08-csv-pieces-raw-when-encoded', 'C08', 'R1', URI, NEWKEY_KEEP,
  "                    params[k] = values if is_encoded else [decode(element) for element in values]\n")
M('c08-csv-pieces-raw-unless-percent', 'C08', 'R1', URI, NEWKEY_KEEP,
  "                    params[k] = values if '%' not in v else [decode(element) for element in values]\n")
# the k1-c08-2 shape (filter first, decode under the flag) with the blank filter under the wrong polarity
M('c08-csv-filter-then-decode-wrong-polarity', 'C08', 'R1', URI,
  "                if not keep_blank:\n                    # NOTE(kgriffs): Normalize the result in the case that\n"
  "                    # some elements are empty strings, such that the result\n"
  "                    # will be the same for 'foo=1,,3' as 'foo=1&foo=&foo=3'.\n"
  "                    params[k] = [decode(element) for element in values if element]\n"
  "                else:\n                    params[k] = [decode(element) for element in values]\n",
  "                if keep_blank:\n                    values = [element for element in values if element]\n"
  "                if is_encoded:\n                    params[k] = [decode(element) for element in values]\n"
  "                else:\n                    params[k] = values\n")
# the k1-c08-1 shape (module-level helper handed the raw value): the helper forgets to decode the filtered pieces / gets the flag negated
_HELPER = ("def _split_csv_value(value, keep_blank):\n    values = value.split(',')\n\n    if not keep_blank:\n"
           "        return [%s for element in values if element]\n\n    return [decode(element) for element in values]\n\n\n")
_CALLSITE_OLD = ("                values = v.split(',')\n\n                if not keep_blank:\n"
                 "                    # NOTE(kgriffs): Normalize the result in the case that\n"
                 "                    # some elements are empty strings, such that the result\n"
                 "                    # will be the same for 'foo=1,,3' as 'foo=1&foo=&foo=3'.\n"
                 "                    params[k] = [decode(element) for element in values if element]\n"
                 "                else:\n                    params[k] = [decode(element) for element in values]\n")
M2('c08-csv-helper-forgets-decode', 'C08', 'R1', [
    {'file': URI, 'old': "def parse_query_string(\n", 'new': (_HELPER % 'element') + "def parse_query_string(\n"},
    {'file': URI, 'old': _CALLSITE_OLD, 'new': "                params[k] = _split_csv_value(v, keep_blank)\n"}])
M2('c08-csv-helper-flag-negated', 'C08', 'R1', [
    {'file': URI, 'old': "def parse_query_string(\n", 'new': (_HELPER % 'decode(element)') + "def parse_query_string(\n"},
    {'file': URI, 'old': _CALLSITE_OLD, 'new': "                params[k] = _split_csv_value(v, not keep_blank)\n"}])
# R15 through the helper: the raw value handed to a helper that stores it undecoded
M2('c08-raw-value-through-helper', 'C08', 'R15', [
    {'file': URI, 'old': "def parse_query_string(\n", 'new': "def _as_list(value):\n    return [value]\n\n\ndef parse_query_string(\n"},
    {'file': URI, 'old': "            elif is_encoded:\n                params[k] = decode(v)\n            else:\n                params[k] = v\n",
     'new': "            else:\n                params[k] = _as_list(v)[0]\n"}])
# R5 a local alias of the options object that is re-bound after it was stored into self.options
M2('c08-options-alias-rebound', 'C08', 'R5', [
    {'file': REQ, 'old': "        self.options = options if options is not None else RequestOptions()\n",
     'new': "        if options is None:\n            options = RequestOptions()\n        self.options = options\n        options = RequestOptions()\n"},
    {'file': REQ, 'old': "                    keep_blank=self.options.keep_blank_qs_values,\n                    csv=self.options.auto_parse_qs_csv,\n",
     'new': "                    keep_blank=options.keep_blank_qs_values,\n                    csv=options.auto_parse_qs_csv,\n"}], also=('C06',))
# negative controls (exit 0; preserving/k1-c08-1, k1-c08-2, k1-c06-2): the comma-split block extracted verbatim into
# `_split_csv_value(value, keep_blank)`; `values = [e for e in values if e]` then `if is_encoded: [decode(e) ...] else: values`;
# `if options is None: options = RequestOptions()` / `self.options = options` and `options.keep_blank_qs_values` at the call

# ---------------------------------------------------------------- second preserving wave (k2-*): refactoring + break
_REQ = 'falcon/request.py'
_MISC = 'falcon/util/misc.py'
_URI = 'falcon/util/uri.py'
# k2-c08-2 shape: the list case split of the getters lives in a module-level helper; the mistake sits in the helper
_LAST_VALUE = ("def _last_value(value):\n    if isinstance(value, list):\n        return value[%s]\n\n    return %s\n\n\nclass Request:\n")
_LV_EDITS = [
    {'file': _REQ, 'old': "            val_str = params[name]\n            if isinstance(val_str, list):\n                val_str = val_str[-1]\n",
     'new': "            val_str = _last_value(params[name])\n", 'count': 4},
    {'file': _REQ, 'old': "            param = params[name]\n            if isinstance(param, list):\n                param = param[-1]\n",
     'new': "            param = _last_value(params[name])\n"}]
M2('c08-last-value-helper-takes-first', 'C08', 'R3', [{'file': _REQ, 'old': "class Request:\n", 'new': _LAST_VALUE % ('0', 'value')}] + _LV_EDITS)
# the helper written as one expression, wrong end of the list
M2('c08-last-value-helper-expr-takes-first', 'C08', 'R3', [
    {'file': _REQ, 'old': "class Request:\n",
     'new': "def _last_value(value):\n    return value[0] if isinstance(value, list) else value\n\n\nclass Request:\n"}] + _LV_EDITS)

# k2-c08-3 shape: the pairs are collected in a list and joined once; the mistake sits in a piece / in the join
_QS_EDITS = [
    {'file': _MISC, 'old': "    query_str = '?' if prefix else ''\n", 'new': "    query_prefix = '?' if prefix else ''\n    pieces = []\n"},
    {'file': _MISC, 'old': "                    query_str += encode_value(k) + '=' + list_value + '&'\n",
     'new': "                    pieces.append(encode_value(k) + '=' + list_value + '&')\n"},
    {'file': _MISC, 'old': "    return query_str[:-1]\n", 'new': "    query_str = query_prefix + %s.join(pieces)\n    return query_str[:-1]\n"}]


def _qs(last_piece, sep="''"):
    return [dict(e, new=(e['new'] % sep) if '%s' in e['new'] else e['new']) for e in _QS_EDITS] + [
        {'file': _MISC, 'old': "        query_str += encode_value(k) + '=' + v + '&'\n", 'new': last_piece}]


M2('c08-qs-pieces-raw-key', 'C08', 'R4', _qs("        pieces.append(k + '=' + v + '&')\n"))
M2('c08-qs-pieces-semicolon', 'C08', 'R4', _qs("        pieces.append(encode_value(k) + '=' + v + ';')\n"))
# every piece carries its '&' AND the pieces are joined with '&': '?a=1&&b=2'
M2('c08-qs-pieces-joined-with-amp-twice', 'C08', 'R4', _qs("        pieces.append(encode_value(k) + '=' + v + '&')\n", sep="'&'"))
M2('c08-qs-pieces-raw-value', 'C08', 'R4', _qs("        pieces.append(encode_value(k) + '=' + v + '&')\n") + [
    {'file': _MISC, 'old': "        else:\n            v = encode_value(str(v))\n", 'new': "        else:\n            v = str(v)\n"}])

# k2-c08-4 shape: the field separator is a keyword-only parameter no caller passes; the mistake is its default / a caller passing another
_SEP = [{'file': _URI, 'old': "    query_string: str, keep_blank: bool = False, csv: bool = False\n",
         'new': "    query_string: str, keep_blank: bool = False, csv: bool = False, *, separator: str = %r\n"},
        {'file': _URI, 'old': "    for field in query_string.split('&'):\n", 'new': "    for field in query_string.split(separator):\n"}]
M2('c08-separator-default-semicolon', 'C08', 'R1', [dict(e, new=(e['new'] % ';') if '%r' in e['new'] else e['new']) for e in _SEP])

# ---------------------------------------------------------------- third preserving wave (k3-*): refactoring + break
# k3-c08-2 shape: fields collected in a list, early `return ''` on the empty list, prefix + '&'.join(fields); the mistake sits in a field / the join
_K3_QS = [
    {'file': _MISC, 'old': "    query_str = '?' if prefix else ''\n", 'new': "    fields = []\n"},
    {'file': _MISC, 'old': "                    query_str += encode_value(k) + '=' + list_value + '&'\n",
     'new': "                    fields.append(encode_value(k) + '=' + list_value)\n"},
    {'file': _MISC, 'old': "    return query_str[:-1]\n", 'new': "    if not fields:\n        return ''\n\n    return ('?' if prefix else '') + %s.join(fields)\n"}]


def _k3qs(last_field, sep="'&'"):
    return [dict(e, new=(e['new'] % sep) if '%s' in e['new'] else e['new']) for e in _K3_QS] + [
        {'file': _MISC, 'old': "        query_str += encode_value(k) + '=' + v + '&'\n", 'new': last_field}]


M2('c08-qs-fields-raw-key', 'C08', 'R4', _k3qs("        fields.append(k + '=' + v)\n"))
M2('c08-qs-fields-joined-with-semicolon', 'C08', 'R4', _k3qs("        fields.append(encode_value(k) + '=' + v)\n", sep="';'"))
M2('c08-qs-fields-joined-with-nothing', 'C08', 'R4', _k3qs("        fields.append(encode_value(k) + '=' + v)\n", sep="''"))
M2('c08-qs-fields-raw-value', 'C08', 'R4', _k3qs("        fields.append(encode_value(k) + '=' + v)\n") + [
    {'file': _MISC, 'old': "        else:\n            v = encode_value(str(v))\n", 'new': "        else:\n            v = str(v)\n"}])

# k3-c08-3 shape: the min / max range check of get_param_as_int / get_param_as_float in a module-level helper called as a statement;
# the mistake sits in the helper / in the arguments of one call
_BOUNDS_OLD = ("            if min_value is not None and val < min_value:\n                msg = 'The value must be at least ' + str(min_value)\n"
               "                raise errors.HTTPInvalidParam(msg, name)\n\n"
               "            if max_value is not None and max_value < val:\n                msg = 'The value may not exceed ' + str(max_value)\n"
               "                raise errors.HTTPInvalidParam(msg, name)\n")
_BOUNDS_HELPER = ("def _check_param_bounds(name, val, min_value, max_value):\n"
                  "    if min_value is not None and val %s min_value:\n        msg = 'The value must be at least ' + str(min_value)\n"
                  "        raise errors.HTTPInvalidParam(msg, name)\n\n"
                  "    if max_value is not None and max_value %s val:\n        msg = 'The value may not exceed ' + str(max_value)\n"
                  "        raise errors.HTTPInvalidParam(msg, name)\n\n\n# PERF: To avoid typos and improve storage space and speed over a dict.\nclass RequestOptions:\n")
_BOUNDS_ANCHOR = "# PERF: To avoid typos and improve storage space and speed over a dict.\nclass RequestOptions:\n"


def _bounds(lo, hi, call="            _check_param_bounds(name, val, min_value, max_value)\n"):
    return [{'file': _REQ, 'old': _BOUNDS_OLD, 'new': call, 'count': 2},
            {'file': _REQ, 'old': _BOUNDS_ANCHOR, 'new': _BOUNDS_HELPER % (lo, hi)}]


M2('c08-bounds-helper-min-inclusive', 'C08', 'R3', _bounds('<=', '<'))
M2('c08-bounds-helper-max-inclusive', 'C08', 'R3', _bounds('<', '<='))
M2('c08-bounds-helper-max-reversed', 'C08', 'R3', _bounds('<', '>'))
# the call hands the two bounds over crossed: min_value acts as the upper bound
M2('c08-bounds-helper-args-crossed', 'C08', 'R3', _bounds('<', '<', "            _check_param_bounds(name, val, max_value, min_value)\n"))

# ---- pre-emptive hardening (shapes read since the third wave): refactoring + break
# R4: a local alias of the encoder (`enc = encode_value`) -- bound to something that is not the value encoder
_ENC_ALIAS = [
    {'file': _MISC, 'old': "        query_str += encode_value(k) + '=' + v + '&'\n", 'new': "        query_str += enc(k) + '=' + v + '&'\n"},
    {'file': _MISC, 'old': "            v = encode_value(str(v))\n", 'new': "            v = enc(str(v))\n"}]
M2('c08-qs-encoder-alias-is-str', 'C08', 'R4', _ENC_ALIAS + [
    {'file': _MISC, 'old': "    query_str = '?' if prefix else ''\n", 'new': "    query_str = '?' if prefix else ''\n    enc = str\n"}])
# ... re-bound on a path (the alias is not a single binding any more: what it denotes is not read -> the values count as raw)
M2('c08-qs-encoder-alias-rebound', 'C08', 'R4', _ENC_ALIAS + [
    {'file': _MISC, 'old': "    query_str = '?' if prefix else ''\n",
     'new': "    query_str = '?' if prefix else ''\n    enc = encode_value\n    if not comma_delimited_lists:\n        enc = str\n"}])
# R4: the scalar rendering in a module-level helper whose last return forgets the encoder
_RENDER = ("def _render_scalar(value):\n    if value is True:\n        return 'true'\n    if value is False:\n        return 'false'\n    return %s\n\n\ndef to_query_str(\n")
_RENDER_CALL = {'file': _MISC,
                'old': "                    if list_value is True:\n                        list_value = 'true'\n                    elif list_value is False:\n"
                       "                        list_value = 'false'\n                    else:\n                        list_value = encode_value(str(list_value))\n",
                'new': "                    list_value = _render_scalar(list_value)\n"}
M2('c08-qs-render-helper-returns-raw', 'C08', 'R4', [{'file': _MISC, 'old': "def to_query_str(\n", 'new': _RENDER % 'str(value)'}, _RENDER_CALL])
# ... or falls off its end for ordinary values (None + '=' ...)
M2('c08-qs-render-helper-falls-off', 'C08', 'R4', [
    {'file': _MISC, 'old': "def to_query_str(\n",
     'new': "def _render_scalar(value):\n    if value is True:\n        return 'true'\n    if value is False:\n        return 'false'\n    encode_value(str(value))\n\n\ndef to_query_str(\n"},
    _RENDER_CALL])
# R4: the pair written as an f-string, the key field without the encoder
M('c08-qs-fstring-raw-key', 'C08', 'R4', _MISC, "        query_str += encode_value(k) + '=' + v + '&'\n", "        query_str += f'{k}={v}&'\n")
M('c08-qs-fstring-semicolon', 'C08', 'R4', _MISC, "        query_str += encode_value(k) + '=' + v + '&'\n", "        query_str += f'{encode_value(k)}={v};'\n")
# R15: decode-under-the-flag in a module-level helper / a conditional expression, the flag the wrong way round
_MAYBE = "def _maybe_decode(text, is_encoded):\n    if %s:\n        return decode(text)\n\n    return text\n\n\ndef parse_query_string(\n"
# (the value only: a re-binding of the NAME through a helper that does not decode it is exit 2 by design -- what k holds then is not read)
_MAYBE_CALLS = [
    {'file': _URI, 'old': "            elif is_encoded:\n                params[k] = decode(v)\n            else:\n                params[k] = v\n",
     'new': "            else:\n                params[k] = _maybe_decode(v, %s)\n"}]
M2('c08-maybe-decode-helper-flag-negated-inside', 'C08', 'R15',
   [{'file': _URI, 'old': "def parse_query_string(\n", 'new': _MAYBE % 'not is_encoded'}] + [dict(e, new=e['new'] % 'is_encoded') for e in _MAYBE_CALLS])
M2('c08-maybe-decode-helper-flag-negated-at-call', 'C08', 'R15',
   [{'file': _URI, 'old': "def parse_query_string(\n", 'new': _MAYBE % 'is_encoded'}] + [dict(e, new=e['new'] % 'not is_encoded') for e in _MAYBE_CALLS])
# the helper is handed a flag that only knows about '%'
M2('c08-maybe-decode-helper-flag-forgets-plus', 'C08', 'R15',
   [{'file': _URI, 'old': "def parse_query_string(\n", 'new': _MAYBE % 'is_encoded'}] + [dict(e, new=e['new'] % "'%' in query_string") for e in _MAYBE_CALLS])
M('c08-maybe-decode-ifexp-arms-swapped', 'C08', 'R15', _URI,
  "            elif is_encoded:\n                params[k] = decode(v)\n            else:\n                params[k] = v\n",
  "            else:\n                params[k] = v if is_encoded else decode(v)\n")
# R1: the field list bound to a local in front of the loop, split at the wrong character
M('c08-fields-local-split-semicolon', 'C08', 'R1', _URI, "    for field in query_string.split('&'):\n",
  "    fields = query_string.split(';')\n    for field in fields:\n")
# R3: the presence test of a getter written EAFP (try: params[name] / except KeyError); the mistake sits in the absent arm
_GP_TAIL = ("        if name in params:\n            # NOTE(warsaw): If the key appeared multiple times, it will be\n            # stored internally as a list.  We do not define which one\n"
            "            # actually gets returned, but let's pick the last one for grins.\n            param = params[name]\n            if isinstance(param, list):\n                param = param[-1]\n\n"
            "            if store is not None:\n                store[name] = param\n\n            return param\n\n        if not required:\n            return default\n\n        raise errors.HTTPMissingParam(name)\n")
_GP_EAFP = ("        try:\n            param = params[name]\n        except KeyError:\n%s\n"
            "        if isinstance(param, list):\n            param = param[%s]\n\n        if store is not None:\n            store[name] = param\n\n        return param\n")
M('c08-eafp-getter-required-ignored', 'C08', 'R3', _REQ, _GP_TAIL, _GP_EAFP % ("            return default\n", '-1'))
M('c08-eafp-getter-required-inverted', 'C08', 'R3', _REQ, _GP_TAIL,
  _GP_EAFP % ("            if required:\n                return default\n\n            raise errors.HTTPMissingParam(name)\n", '-1'))
M('c08-eafp-getter-first-occurrence', 'C08', 'R3', _REQ, _GP_TAIL,
  _GP_EAFP % ("            if not required:\n                return default\n\n            raise errors.HTTPMissingParam(name)\n", '0'))
# negative controls (exit 0, checked by hand with --root): each refactoring above without the mistake; see the fixer report
# R1: the field separator hoisted into a module-level constant with the wrong character
M2('c08-field-separator-constant-semicolon', 'C08', 'R1', [
    {'file': _URI, 'old': "def parse_query_string(\n", 'new': "_FIELD_SEP = ';'\n\n\ndef parse_query_string(\n"},
    {'file': _URI, 'old': "    for field in query_string.split('&'):\n", 'new': "    for field in query_string.split(_FIELD_SEP):\n"}])
# R3: the store hook as a guard clause (`if store is None: return v` / store / return); the test the wrong way round, or the write dropped on the way
_STORE_OLD = "            if store is not None:\n                store[name] = param\n\n            return param\n"
M('c08-store-guard-clause-inverted', 'C08', 'R3', _REQ, _STORE_OLD,
  "            if store is not None:\n                return param\n\n            store[name] = param\n            return param\n")
M('c08-store-guard-clause-early-return', 'C08', 'R3', _REQ, _STORE_OLD,
  "            if isinstance(param, str):\n                return param\n\n            if store is None:\n                return param\n\n            store[name] = param\n            return param\n")
# R4: `query_str = query_str + <pair>` for `query_str += <pair>` (refactor_fuzz variant augassign); the key field without the encoder
M('c08-qs-selfadd-raw-key', 'C08', 'R4', _MISC, "        query_str += encode_value(k) + '=' + v + '&'\n",
  "        query_str = query_str + (k + '=' + v + '&')\n")
M('c08-qs-selfadd-semicolon', 'C08', 'R4', _MISC, "        query_str += encode_value(k) + '=' + v + '&'\n",
  "        query_str = query_str + (encode_value(k) + '=' + v + ';')\n")
# R3 (d): the missing-parameter arm of a delegating getter decided by the truthiness of the delegate's result although a
# PRESENT parameter can give a falsy one (get_param: '' for `?x=`) -- seed s11-c08-1 and its twin in the datetime getter
_JSON_NONE = "        if param_value is None:\n            return default\n\n        handler, _, _ ="
_DT_NONE = "        if param_value is None:\n            return default\n\n        try:\n            date_time = strptime("
M('c08-json-blank-read-as-missing', 'C08', 'R3', _REQ, _JSON_NONE, _JSON_NONE.replace('param_value is None', 'not param_value'))
M('c08-datetime-blank-read-as-missing', 'C08', 'R3', _REQ, _DT_NONE, _DT_NONE.replace('param_value is None', 'not param_value'))
M('c08-json-truthy-else-default', 'C08', 'R3', _REQ, _JSON_NONE,
  "        if param_value:\n            pass\n        else:\n            return default\n\n        handler, _, _ =")
M('c08-json-none-or-blank-as-missing', 'C08', 'R3', _REQ, _JSON_NONE, _JSON_NONE.replace('param_value is None', "param_value in (None, '')"))
# R3 (f): a getter writes the request's parameter mapping -- seed s11-c08-2 and variants (separate statement, the scalar
# getter collapsing a repeated parameter, a mapping method on the attribute itself)
_WRAP = "            if not isinstance(items, list):\n                items = [items]\n"
M('c08-list-getter-memoises-wrapped-value', 'C08', 'R3', _REQ, _WRAP, _WRAP.replace('items = [items]', 'items = params[name] = [items]'))
M('c08-list-getter-writes-back-separately', 'C08', 'R3', _REQ, _WRAP, _WRAP + "                params[name] = items\n")
M('c08-list-getter-updates-params-attr', 'C08', 'R3', _REQ, _WRAP, _WRAP + "                self._params.update({name: items})\n")
M('c08-get-param-collapses-repeated', 'C08', 'R3', _REQ, "            if isinstance(param, list):\n                param = param[-1]\n\n            if store is not None:\n                store[name] = param\n",
  "            if isinstance(param, list):\n                param = params[name] = param[-1]\n\n            if store is not None:\n                store[name] = param\n")
M('c08-get-param-consumes-entry', 'C08', 'R3', _REQ, "            param = params[name]\n            if isinstance(param, list):\n                param = param[-1]\n\n            if store is not None:\n                store[name] = param\n",
  "            param = params[name]\n            del params[name]\n            if isinstance(param, list):\n                param = param[-1]\n\n            if store is not None:\n                store[name] = param\n")
# the same confusion in a direct getter: the presence test mixed with the truthiness of the stored value (`?id=` -> default)
_UUID_HEAD = ("                be converted to a ``UUID``.\n        \"\"\"\n\n        params = self._params\n\n        # PERF: Use if..in since it is a good all-around performer; we don't\n"
              "        #       know how likely params are to be specified by clients.\n        if name in params:\n")
M('c08-uuid-blank-read-as-missing', 'C08', 'R3', _REQ, _UUID_HEAD, _UUID_HEAD.replace('if name in params:', 'if params.get(name):'))
# R17: another store of a possibly empty list (F25 is the known one: fresh key, csv, keep_blank=False) -- the blank filter
# also under keep_blank=True (`?a=,` -> [] although blanks are to be kept); the repeated-key branch storing the new
# elements alone (`?a=1&a=,` -> {'a': []}, and the earlier occurrence is lost)
M('c08-csv-filter-under-keep-blank-too', 'C08', 'R17', _URI, "                    params[k] = [decode(element) for element in values]\n",
  "                    params[k] = [decode(element) for element in values if element]\n")
M('c08-repeated-key-stores-additional-alone', 'C08', 'R17', _URI,
  "                    additional_values.insert(0, old_value)\n                    params[k] = additional_values\n",
  "                    params[k] = additional_values\n")
