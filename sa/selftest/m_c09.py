"""Mutation operators for C09 (typed request-header accessors)."""

from .mutants import M, M2

# --------------------------------------------------------------------- R1
# change a caught class: int() of a client header now escapes as ValueError
M('c09-header-as-int-catches-typeerror', 'C09', 'R1', 'falcon/request.py',
  """            return int(http_int) if http_int is not None else None
        except ValueError:
""", """            return int(http_int) if http_int is not None else None
        except TypeError:
""")
# remove the try around the strptime-based conversion
M('c09-header-as-datetime-no-try', 'C09', 'R1', 'falcon/request.py',
  """        try:
            if http_date is not None:
                return util.http_date_to_dt(http_date, obs_date=obs_date)
            else:
                return None
        except ValueError:
            msg = 'It must be formatted according to RFC 7231, Section 7.1.1.1'
            raise errors.HTTPInvalidHeader(msg, header)
""", """        if http_date is not None:
            return util.http_date_to_dt(http_date, obs_date=obs_date)
        else:
            return None
""")
# the Range parser maps malformed offsets to a 500-class error
M('c09-range-catches-keyerror', 'C09', 'R1', 'falcon/request.py',
  """        except ValueError:
            href = 'https://tools.ietf.org/html/rfc7233'
""", """        except KeyError:
            href = 'https://tools.ietf.org/html/rfc7233'
""")
# ASGI content_length: only the empty value is tolerated, everything else leaks
M('c09-asgi-content-length-reraise', 'C09', 'R1', 'falcon/asgi/request.py',
  """            msg = 'The value of the header must be a number.'
            raise errors.HTTPInvalidHeader(msg, 'Content-Length')

        if value_as_int < 0:
""", """            raise

        if value_as_int < 0:
""", also=('C06',))
# a 5xx error class for a client mistake
M('c09-range-unit-500', 'C09', 'R1', 'falcon/request.py',
  """        if value and '=' in value:
            unit, sep, req_range = value.partition('=')
            return unit
        else:
            msg = "The value must be prefixed with a range unit, e.g. 'bytes='"
            raise errors.HTTPInvalidHeader(msg, 'Range')
""", """        if value and '=' in value:
            unit, sep, req_range = value.partition('=')
            return unit
        else:
            msg = "The value must be prefixed with a range unit, e.g. 'bytes='"
            raise errors.HTTPInternalServerError(description=msg)
""")
# strict decode of a client header (cookies on ASGI go through get_header)
M('c09-asgi-get-header-strict-decode', 'C09', 'R1', 'falcon/asgi/request.py',
  """            return self._asgi_headers[asgi_name].decode('latin1')
""", """            return self._asgi_headers[asgi_name].decode('ascii')
""", also=('C06',))
# a hand-rolled host:port split of a Forwarded hop: tuple-unpacking of a split
# raises ValueError for "for=1.2.3.4" (no colon)
M('c09-forwarded-hop-split-unpack', 'C09', 'R1', 'falcon/request.py',
  """                    if hop.src is not None:
                        host, __ = parse_host(hop.src)
                        self._cached_access_route.append(host)
            elif 'HTTP_X_FORWARDED_FOR' in self.env:
""", """                    if hop.src is not None:
                        host, __ = hop.src.rsplit(':', 1)
                        self._cached_access_route.append(host)
            elif 'HTTP_X_FORWARDED_FOR' in self.env:
""", also=('C06',))

# --------------------------------------------------------------------- R2
M('c09-cache-written-by-other-accessor', 'C09', 'R2', 'falcon/request.py',
  """        if self._cached_prefix is None:
            self._cached_prefix = self.scheme + '://' + self.netloc + self.root_path
""", """        if self._cached_prefix is None:
            self._cached_uri = None
            self._cached_prefix = self.scheme + '://' + self.netloc + self.root_path
""")
M('c09-cache-written-from-get-header', 'C09', 'R2', 'falcon/asgi/request.py',
  """        try:
            asgi_name = _name_cache[name]
        except KeyError:
""", """        self._cached_headers = None
        try:
            asgi_name = _name_cache[name]
        except KeyError:
""")
M('c09-uri-not-stored', 'C09', 'R2', 'falcon/request.py',
  """            value = self.scheme + '://' + self.netloc + self.relative_uri

            self._cached_uri = value

        return self._cached_uri
""", """            value = self.scheme + '://' + self.netloc + self.relative_uri

            return value

        return self._cached_uri
""")
M('c09-headers-lower-unguarded', 'C09', 'R2', 'falcon/request.py',
  """        if self._cached_headers_lower is None:
            self._cached_headers_lower = {
""", """        if self._cached_headers is None:
            self._cached_headers_lower = {
""")
M('c09-asgi-access-route-recomputed', 'C09', 'R2', 'falcon/asgi/request.py',
  """            if self._cached_access_route:
                if self._cached_access_route[-1] != client:
                    self._cached_access_route.append(client)
            else:
                self._cached_access_route = [client] if client else []

        return self._cached_access_route
""", """        if self._cached_access_route:
            if self._cached_access_route[-1] != client:
                self._cached_access_route.append(client)
        else:
            self._cached_access_route = [client] if client else []

        return self._cached_access_route
""")
M('c09-if-match-wrong-sentinel-branch', 'C09', 'R2', 'falcon/asgi/request.py',
  """        if self._cached_if_match is _UNSET:
            header_value = self._asgi_headers.get(b'if-match')
""", """        if self._cached_if_match is not _UNSET:
            header_value = self._asgi_headers.get(b'if-match')
""")

# --------------------------------------------------------------------- R3
M('c09-wsgi-get-header-no-upper', 'C09', 'R3', 'falcon/request.py',
  """        wsgi_name = name.upper().replace('-', '_')

        # Use try..except to optimize for the header existing in most cases
""", """        wsgi_name = name.replace('-', '_')

        # Use try..except to optimize for the header existing in most cases
""", also=('C06',))
M('c09-asgi-get-header-no-lower', 'C09', 'R3', 'falcon/asgi/request.py',
  "asgi_name = name.lower().encode('latin1')", "asgi_name = name.encode('latin1')", also=('C06',))
M('c09-asgi-get-header-upper', 'C09', 'R3', 'falcon/asgi/request.py',
  "asgi_name = name.lower().encode('latin1')", "asgi_name = name.upper().encode('latin1')", also=('C06',))
M('c09-asgi-name-cache-impure', 'C09', 'R3', 'falcon/asgi/request.py',
  """                _name_cache[name] = asgi_name
""", """                _name_cache[name] = asgi_name if required else name.encode('latin1')
""", also=('C19',))  # an impure process-wide memo is also C19 R3's subject

# --------------------------------------------------------------------- R4
M('c09-dt-to-http-format', 'C09', 'R4', 'falcon/util/misc.py',
  "return dt.strftime('%a, %d %b %Y %H:%M:%S GMT')", "return dt.strftime('%a, %d-%b-%Y %H:%M:%S GMT')")
M('c09-dt-to-http-weekday-long', 'C09', 'R4', 'falcon/util/misc.py',
  "return dt.strftime('%a, %d %b %Y %H:%M:%S GMT')", "return dt.strftime('%A, %d %b %Y %H:%M:%S GMT')")
M('c09-etag-dumps-weak-unquoted', 'C09', 'R4', 'falcon/util/structures.py',
  """            return 'W/"' + self + '"'
""", """            return 'W/' + self + '"'
""")
M('c09-etag-pattern-strong-only', 'C09', 'R4', 'falcon/request_helpers.py',
  """_ENTITY_TAG_PATTERN = re.compile(r'([Ww]/)?"([^"]*)"')""", """_ENTITY_TAG_PATTERN = re.compile(r'(w/)?"([^"]*)"')""")
M('c09-etag-loads-prefix-slice', 'C09', 'R4', 'falcon/util/structures.py',
  """            value = value[2:]
""", """            value = value[1:]
""")

# --------------------------------------------------------------------- R6
M('c09-range-one-byte-rejected', 'C09', 'R6', 'falcon/request.py',
  "                if last_num < first_num:", "                if last_num <= first_num:")
M('c09-range-no-dash-accepted', 'C09', 'R6', 'falcon/request.py',
  """            if not sep:
                raise ValueError()

            if first and last:
""", """            if first and last:
""")
M('c09-range-suffix-positive', 'C09', 'R6', 'falcon/request.py',
  "first_num, last_num = (-int(last), -1)", "first_num, last_num = (int(last), -1)")

M('c09-forwarded-lowercased-whole', 'C09', 'R7', 'falcon/forwarded.py',
  """    pos = 0
    end = len(forwarded)
""", """    forwarded = forwarded.lower()
    pos = 0
    end = len(forwarded)
""")
M('c09-forwarded-src-lowercased', 'C09', 'R7', 'falcon/forwarded.py',
  "                    parsed_element.src = value\n", "                    parsed_element.src = value.lower()\n")

# ---- wave 4
M('c09-http-date-reader-astimezone', 'C09', 'R4', 'falcon/util/misc.py',
  """        return _strptime(http_date, '%a, %d %b %Y %H:%M:%S GMT').replace(
            tzinfo=_UTC_TIMEZONE
        )
""", """        return _strptime(http_date, '%a, %d %b %Y %H:%M:%S GMT').astimezone(
            _UTC_TIMEZONE
        )
""", also=('C15', 'C16'))
M('c09-dt-to-http-astimezone-unguarded', 'C09', 'R4', 'falcon/util/misc.py',
  """    return dt.strftime('%a, %d %b %Y %H:%M:%S GMT')
""", """    return dt.astimezone(_UTC_TIMEZONE).strftime('%a, %d %b %Y %H:%M:%S GMT')
""", also=('C15', 'C16'))
M('c09-etag-header-wraps-weak-tags', 'C09', 'R4', 'falcon/response_helpers.py',
  """    if value[-1] != '"':
        value = '"' + value + '"'
""", """    if not (value.startswith('"') and value.endswith('"')):
        value = '"' + value + '"'
""")
M('c09-etag-header-wraps-unless-leading-quote', 'C09', 'R4', 'falcon/response_helpers.py',
  """    if value[-1] != '"':
        value = '"' + value + '"'
""", """    if value[0] != '"':
        value = '"' + value + '"'
""")
M('c09-wsgi-access-route-iterates-optional-forwarded', 'C09', 'R9', 'falcon/request.py',
  """                for hop in self.forwarded or ():
""", """                for hop in self.forwarded:
""", also=('C06',))
M('c09-asgi-access-route-iterates-optional-forwarded', 'C09', 'R9', 'falcon/asgi/request.py',
  """                for hop in self.forwarded or ():
""", """                for hop in self.forwarded:
""", also=('C06',))

# ---- wave 5
# --------------------------------------------------------------------- R10
# the wildcard tolerated as a MEMBER of a comma-split list: `"a,*,b"` (one valid tag) is read as ['*']
_ETAGS_LIST_START = """    etags: List[Union[ETag, Literal['*']]] = []
"""
M('c09-etags-wildcard-member-of-comma-split', 'C09', 'R10', 'falcon/request_helpers.py', _ETAGS_LIST_START,
  """    if '*' in (member.strip() for member in etag_str.split(',')):
        return ['*']

""" + _ETAGS_LIST_START)
M('c09-etags-wildcard-substring', 'C09', 'R10', 'falcon/request_helpers.py',
  """    if etag_str == '*':
        return ['*']
""", """    if '*' in etag_str:
        return ['*']
""")
M('c09-etags-wildcard-prefix', 'C09', 'R10', 'falcon/request_helpers.py',
  """    if etag_str == '*':
        return ['*']
""", """    if etag_str.startswith('*'):
        return ['*']
""")
M('c09-etags-wildcard-appended-per-piece', 'C09', 'R10', 'falcon/request_helpers.py', _ETAGS_LIST_START,
  _ETAGS_LIST_START + """    for member in etag_str.split(','):
        if member.strip() == '*':
            etags.append('*')
""")
# pieces of a comma split decide the answer (`"a, ,b"` is one tag, not a list with a blank member)
M('c09-etags-comma-pieces-decide', 'C09', 'R10', 'falcon/request_helpers.py', _ETAGS_LIST_START,
  _ETAGS_LIST_START + """    if not all(m.strip() for m in etag_str.split(',')):
        return None
""")

# --------------------------------------------------------------------- R11 (and R7 on the table-driven shape)
_FWD_TABLE = {'file': 'falcon/forwarded.py', 'old': "_FORWARDED_PAIR_RE = re.compile(_FORWARDED_PAIR)\n",
              'new': "_FORWARDED_PAIR_RE = re.compile(_FORWARDED_PAIR)\n\n"
                     "_PARAM_ATTRS = {'by': 'dest', 'for': 'src', 'host': 'host', 'proto': 'scheme'}\n"}
_FWD_CREATE = """                # NOTE(kgriffs): If this is the first pair we've encountered
                # for this forwarded-element, initialize a new object.
                if not parsed_element:
                    parsed_element = Forwarded()

"""
_FWD_CHAIN = """                if name == 'by':
                    parsed_element.dest = value
                elif name == 'for':
                    parsed_element.src = value
                elif name == 'host':
                    parsed_element.host = value
                elif name == 'proto':
                    # NOTE(kgriffs): RFC 7239 only requires that
                    # the "proto" value conform to the Host ABNF
                    # described in RFC 7230. The Host ABNF, in turn,
                    # does not require that the scheme be in any
                    # particular case, so we normalize it here to be
                    # consistent with the WSGI spec that *does*
                    # require the value of 'wsgi.url_scheme' to be
                    # either 'http' or 'https' (case-sensitive).
                    parsed_element.scheme = value.lower()
"""
_FWD_BODY = """                name = name.lower()

                if value[0] == '"':
                    value = unquote_string(value)

""" + _FWD_CREATE + _FWD_CHAIN
# table-driven dispatch that skips unknown names BEFORE the element is created: an element made only of
# extension parameters yields no hop (C19 also sees the new module-level dict)
M2('c09-forwarded-table-skips-unknown-before-create', 'C09', 'R11', [_FWD_TABLE, {'file': 'falcon/forwarded.py', 'old': _FWD_BODY, 'new': """                attr = _PARAM_ATTRS.get(name.lower())
                if attr is None:
                    continue

                if value[0] == '"':
                    value = unquote_string(value)

                if attr == 'scheme':
                    value = value.lower()

                if not parsed_element:
                    parsed_element = Forwarded()

                setattr(parsed_element, attr, value)
"""}], also=('C19',))
M('c09-forwarded-skips-unknown-names', 'C09', 'R11', 'falcon/forwarded.py',
  """                if value[0] == '"':
                    value = unquote_string(value)
""", """                if name not in ('by', 'for', 'host', 'proto'):
                    continue

                if value[0] == '"':
                    value = unquote_string(value)
""")
M('c09-forwarded-element-created-for-known-names-only', 'C09', 'R11', 'falcon/forwarded.py',
  """                if not parsed_element:
                    parsed_element = Forwarded()
""", """                if not parsed_element and name in ('by', 'for', 'host', 'proto'):
                    parsed_element = Forwarded()
""")
# the table-driven shape read by R7: every value is case-folded, not only the scheme
M2('c09-forwarded-table-lowercases-every-value', 'C09', 'R7', [_FWD_TABLE, {'file': 'falcon/forwarded.py', 'old': _FWD_CHAIN, 'new': """                attr = _PARAM_ATTRS.get(name)
                if attr is not None:
                    value = value.lower()
                    setattr(parsed_element, attr, value)
"""}], also=('C19',))

# --------------------------------------------------------------------- R12
# access_route hands the Forwarded node value to parse_host as it is (value provenance from <hop>.src to the call)
_HOP_CALL = "                        host, __ = parse_host(hop.src)\n"
_HOP_PRESPLIT = """                        src = hop.src
                        node, sep, port = src.rpartition(':')
                        if sep and not port.isdigit():
                            src = node
                        host, __ = parse_host(src)
"""
# the seeded "fix" of F4: a non-numeric port is dropped before parse_host -- and with it the tail of a bracketed IPv6 address
M2('c09-access-route-drops-non-numeric-port-before-parse-host', 'C09', 'R12', [
    {'file': 'falcon/request.py', 'old': _HOP_CALL, 'new': _HOP_PRESPLIT},
    {'file': 'falcon/asgi/request.py', 'old': _HOP_CALL, 'new': _HOP_PRESPLIT}])
M('c09-wsgi-access-route-rsplit-port', 'C09', 'R12', 'falcon/request.py', _HOP_CALL,
  "                        host, __ = parse_host(hop.src.rsplit(':', 1)[0])\n")
M('c09-asgi-access-route-slices-at-last-colon', 'C09', 'R12', 'falcon/asgi/request.py', _HOP_CALL,
  """                        node = hop.src
                        if node.count(':') == 1:
                            node = node[: node.index(':')]
                        host, __ = parse_host(node)
""")

# --------------------------------------------------------------------- R13
# a quoted Forwarded value loses exactly its two enclosing DQUOTEs, then quoted-pairs are un-escaped (sample evaluation)
_FWD_UNQUOTE = "                    value = unquote_string(value)\n"
# the seeded modernisation: strip('"') eats an escaped quote at the end of the value
M('c09-forwarded-unquote-by-strip', 'C09', 'R13', 'falcon/forwarded.py', _FWD_UNQUOTE,
  "                    value = _QUOTED_PAIR_REPLACE_RE.sub(r'\\1', value.strip('\"'))\n")
M('c09-forwarded-unquote-removes-every-dquote', 'C09', 'R13', 'falcon/forwarded.py', _FWD_UNQUOTE,
  "                    value = unquote_string(value).replace('\"', '')\n")
M('c09-forwarded-unquote-without-unescaping', 'C09', 'R13', 'falcon/forwarded.py', _FWD_UNQUOTE,
  "                    value = value[1:-1]\n")
# the same mistake inside the shared helper
M('c09-unquote-string-strips-dquotes', 'C09', 'R13', 'falcon/util/uri.py',
  "    tmp_quoted = quoted[1:-1]\n", "    tmp_quoted = quoted.strip('\"')\n")
# un-escaping in the wrong order: the backslash pairs are resolved after single backslashes were dropped
M('c09-unquote-string-drops-backslashes-first', 'C09', 'R13', 'falcon/util/uri.py',
  "        return '\\\\'.join([q.replace('\\\\', '') for q in tmp_quoted.split(r'\\\\')])\n",
  "        return tmp_quoted.replace('\\\\', '')\n")

# ---- wave 7: R14 the default port / port elision follow the scheme (s7-c09-1)
_SECURE = "        return self.scheme == 'https' or self.scheme == 'wss'\n"
# the seed: 'ws' also ends in 's'
M('c09-asgi-secure-scheme-endswith-s', 'C09', 'R14', 'falcon/asgi/request.py', _SECURE, "        return self.scheme.endswith('s')\n")
# variants: everything but plain http counts as secure; the websocket TLS scheme is forgotten; last character
M('c09-asgi-secure-scheme-not-http', 'C09', 'R14', 'falcon/asgi/request.py', _SECURE, "        return self.scheme != 'http'\n")
M('c09-asgi-secure-scheme-https-only', 'C09', 'R14', 'falcon/asgi/request.py', _SECURE, "        return self.scheme == 'https'\n")
M('c09-asgi-secure-scheme-last-char', 'C09', 'R14', 'falcon/asgi/request.py', _SECURE, "        return self.scheme[-1] == 's'\n")
# the WSGI side: the elision of the default port tests the wrong scheme
M('c09-wsgi-netloc-elides-443-for-http', 'C09', 'R14', 'falcon/request.py',
  "            if self.scheme == 'https':\n                if port != '443':", "            if self.scheme == 'http':\n                if port != '443':")
# the ASGI default port of a Host header without port is taken for the wrong branch
M('c09-asgi-port-default-swapped', 'C09', 'R14', 'falcon/asgi/request.py',
  """            host_header = self._asgi_headers[b'host'].decode('latin1')
            default_port = 443 if self._secure_scheme else 80
""", """            host_header = self._asgi_headers[b'host'].decode('latin1')
            default_port = 80 if self._secure_scheme else 443
""")

# ---- wave 7: R15 (= C06 R15) one memoised consumption site for scope['client'] (s7-c09-2)
M('c09-asgi-remote-addr-reads-scope-client-directly', 'C09', 'R15', 'falcon/asgi/request.py',
  """        route = self.access_route
        return route[-1]
""", """        if self._cached_access_route is not None:
            return self._cached_access_route[-1]

        try:
            client, __ = self.scope['client']
        except KeyError:
            client = '127.0.0.1'

        return client
""")
# variant: the memoised site for scope['server'] loses its guard on websocket connections (consumed on every access of port / netloc)
M('c09-asgi-server-address-reread-on-websocket', 'C09', 'R15', 'falcon/asgi/request.py',
  "        if not self._asgi_server_cached:\n", "        if not self._asgi_server_cached or self.is_websocket:\n")

# ---- wave 7: R16 integer indices into header text only where the text is known long enough (s7-c09-3)
# the seed: slices -> indices; the opaque-tag is empty when the whole header is the weak prefix
M('c09-etag-loads-indexes-possibly-empty-value', 'C09', 'R16', 'falcon/util/structures.py',
  """        if value[:1] == value[-1:] == '"':""", """        if value[0] == value[-1] == '"':""")
# variant: only the first character is indexed
M('c09-etag-loads-indexes-first-char', 'C09', 'R16', 'falcon/util/structures.py',
  """        if value[:1] == value[-1:] == '"':""", """        if value[0] == '"' and value.endswith('"'):""")
# variant: the length guard of the cookie un-quoting is dropped (a cookie with an empty value)
M('c09-cookie-unquote-without-length-guard', 'C09', 'R16', 'falcon/request_helpers.py',
  """        if len(value) >= 2 and value[0] == '"' and value[-1] == '"':""", """        if value[0] == '"' and value[-1] == '"':""")
# variant: unquote_string tests the quotes before the length
M('c09-unquote-string-quotes-before-length', 'C09', 'R16', 'falcon/util/uri.py',
  """    if len(quoted) < 2:
        return quoted
    elif quoted[0] != '"' or quoted[-1] != '"':""", """    if quoted[0] != '"' or quoted[-1] != '"':
        return quoted
    elif len(quoted) < 2:""")
# variant: the guard is there but speaks about the value BEFORE the weak prefix was cut off (stale fact)
M('c09-etag-loads-stale-nonempty-guard', 'C09', 'R16', 'falcon/util/structures.py',
  """        value = etag_str

        is_weak = False
        if value.startswith(('W/', 'w/')):
            is_weak = True
            value = value[2:]

        # NOTE(kgriffs): We allow for an unquoted entity-tag just in case,
        #   although it has been non-standard to do so since at least 1999
        #   with the advent of RFC 2616.
        if value[:1] == value[-1:] == '"':""", """        value = etag_str
        if not value:
            return cls('')

        is_weak = False
        if value.startswith(('W/', 'w/')):
            is_weak = True
            value = value[2:]

        # NOTE(kgriffs): We allow for an unquoted entity-tag just in case,
        #   although it has been non-standard to do so since at least 1999
        #   with the advent of RFC 2616.
        if value[0] == value[-1] == '"':""")
# variant: a variable index whose loop guard no longer keeps it below the length (`Forwarded: for=a` ends exactly at `end`)
M('c09-forwarded-loop-guard-off-by-one', 'C09', 'R16', 'falcon/forwarded.py', "    while 0 <= pos < end:\n", "    while pos <= end:\n")
# variant: the blank check is made BEFORE stripping, the first character is indexed after (`If-Match:` of blanks only)
M('c09-parse-etags-strip-after-blank-check', 'C09', 'R16', 'falcon/request_helpers.py', """    etag_str = etag_str.strip()
    if not etag_str:
        return None

    if etag_str == '*':
        return ['*']
""", """    if not etag_str:
        return None
    etag_str = etag_str.strip()

    if etag_str[0] == '*' and len(etag_str) == 1:
        return ['*']
""")

# R17 content_length refuses exactly the negative values (sa-am01758, sa-am01873)
M('c09-content-length-zero-refused-lt1', 'C09', 'R17', 'falcon/request.py',
  "        if value_as_int < 0:\n            msg = 'The value of the header must be a positive number.'",
  "        if value_as_int < 1:\n            msg = 'The value of the header must be a positive number.'", also=('C06',))
M('c09-content-length-zero-refused-le0', 'C09', 'R17', 'falcon/request.py',
  "        if value_as_int < 0:\n            msg = 'The value of the header must be a positive number.'",
  "        if value_as_int <= 0:\n            msg = 'The value of the header must be a positive number.'", also=('C06',))
M('c09-asgi-content-length-zero-refused', 'C09', 'R17', 'falcon/asgi/request.py',
  "        if value_as_int < 0:\n", "        if not value_as_int > 0:\n", also=('C06',))
M('c09-asgi-content-length-minus-one-accepted', 'C09', 'R17', 'falcon/asgi/request.py',
  "        if value_as_int < 0:\n", "        if value_as_int < -1:\n", also=('C06',))
M('c09-content-length-large-refused', 'C09', 'R17', 'falcon/request.py',
  "        if value_as_int < 0:\n            msg = 'The value of the header must be a positive number.'",
  "        if value_as_int < 0 or value_as_int > 2147483647:\n            msg = 'The value of the header must be a positive number.'", also=('C06',))
# negative controls (exit 0): `0 > value_as_int`; `not value_as_int >= 0`; `value_as_int <= -1`; the raise moved into an else of `if v >= 0: return v`

# R18 the hoisted unquoting guard covers every quoted cookie value (sa-am02096)
CQ = "        if len(value) >= 2 and value[0] == '\"' and value[-1] == '\"':\n"
# the empty quoted value `""` (length 2) is judged too since the tree reads it as '' (f4f97d9): restoring `> 2` keeps the two quotes
M('c09-cookie-empty-quoted-value-kept-quoted', 'C09', 'R18', 'falcon/request_helpers.py', CQ,
  "        if len(value) > 2 and value[0] == '\"' and value[-1] == '\"':\n", also=('C15',))
M('c09-cookie-one-char-quoted-value-kept-quoted', 'C09', 'R18', 'falcon/request_helpers.py', CQ,
  "        if len(value) > 3 and value[0] == '\"' and value[-1] == '\"':\n", also=('C15',))
M('c09-cookie-short-quoted-values-kept-quoted', 'C09', 'R18', 'falcon/request_helpers.py', CQ,
  "        if len(value) >= 8 and value[0] == '\"' and value[-1] == '\"':\n", also=('C15',))
M('c09-cookie-unquote-only-even-lengths', 'C09', 'R18', 'falcon/request_helpers.py', CQ,
  "        if len(value) >= 2 and len(value) != 3 and value[0] == '\"' and value[-1] == '\"':\n", also=('C15',))
M('c09-cookie-unquote-needs-unquoted-end', 'C09', 'R18', 'falcon/request_helpers.py', CQ,
  "        if len(value) >= 2 and value[0] == '\"' and value[-1] != '\"':\n", also=('C15',))
# negative controls (exit 0): `len(value) > 1`; `1 < len(value)`; startswith/endswith; `value[:1] == '"'`;
# the guard dropped altogether (unconditional _unquote)

# ---- wave 9: R19 URL composition table (s9-c09-3)
URI_V = "            value = self.scheme + '://' + self.netloc + self.relative_uri\n"
# the seed: build on the sibling's memoised prefix when it is there (the mount point twice, depends on the read order)
M('c09-uri-builds-on-cached-prefix', 'C09', 'R19', 'falcon/request.py', URI_V,
  "            if self._cached_prefix is not None:\n                value = self._cached_prefix + self.relative_uri\n"
  "            else:\n                value = self.scheme + '://' + self.netloc + self.relative_uri\n")
# variant: through the accessor (always wrong under a mount point)
M('c09-uri-prefix-plus-relative-uri', 'C09', 'R19', 'falcon/request.py', URI_V, "            value = self.prefix + self.relative_uri\n")
# variant: the forwarded twin
M('c09-forwarded-uri-builds-on-forwarded-prefix', 'C09', 'R19', 'falcon/request.py',
  "                self.forwarded_scheme + '://' + self.forwarded_host + self.relative_uri\n",
  "                self.forwarded_prefix + self.relative_uri\n")
# variant: the sibling's memo slot read where it may still be None
M('c09-uri-reads-unset-prefix-slot', 'C09', 'R19', 'falcon/request.py', URI_V, "            value = self._cached_prefix + self.path\n")
# variant: prefix loses the port (host instead of netloc)
M('c09-prefix-host-instead-of-netloc', 'C09', 'R19', 'falcon/request.py',
  "self._cached_prefix = self.scheme + '://' + self.netloc + self.root_path", "self._cached_prefix = self.scheme + '://' + self.host + self.root_path")
# variant: relative_uri keeps the '?' for an empty query string
M('c09-relative-uri-bare-question-mark', 'C09', 'R19', 'falcon/request.py',
  "                self._cached_relative_uri = self.root_path + self.path\n",
  "                self._cached_relative_uri = self.root_path + self.path + '?' + self.query_string\n")
# variant: relative_uri forgets the mount point when there is a query string
M('c09-relative-uri-without-root-path', 'C09', 'R19', 'falcon/request.py',
  "                    self.root_path + self.path + '?' + self.query_string\n", "                    self.path + '?' + self.query_string\n")
# negative controls (exit 0): f-string / ''.join composition; `self._cached_prefix + self.path + ('?' + qs if qs else '')` behind
# `is not None`; `self.prefix + self.path` then `+= '?' + qs`; `self.app` for root_path; relative_uri through a local with `+=`;
# `!= ''` test; '%'-formatting is exit 2 (unreadable), never exit 1

# ---------------------------------------------------------------- wave 10
# R20 forwarded_host: ordered sources Forwarded first hop -> X-Forwarded-Host -> netloc on both stacks (s10-c09-3)
M('c09-asgi-forwarded-host-first-hop-falls-back-on-host', 'C09', 'R20', 'falcon/asgi/request.py',
  "                host = forwarded[0].host or self.netloc\n", "                host = forwarded[0].host or self.host\n")
M('c09-wsgi-forwarded-host-no-header-falls-back-on-host', 'C09', 'R20', 'falcon/request.py',
  "                host = self.env['HTTP_X_FORWARDED_HOST']\n            except KeyError:\n                host = self.netloc\n",
  "                host = self.env['HTTP_X_FORWARDED_HOST']\n            except KeyError:\n                host = self.host\n")
M('c09-asgi-forwarded-host-last-hop', 'C09', 'R20', 'falcon/asgi/request.py',
  "                host = forwarded[0].host or self.netloc\n", "                host = forwarded[-1].host or self.netloc\n")
M('c09-wsgi-forwarded-host-unusable-header-answers-none', 'C09', 'R20', 'falcon/request.py',
  "                host = forwarded[0].host or self.netloc\n            else:\n                host = self.netloc\n",
  "                host = forwarded[0].host or self.netloc\n            else:\n                host = None\n")
# negative controls (exit 0): `first = forwarded[0]; host = first.host or self.netloc`; `host = self.env.get('HTTP_X_FORWARDED_HOST')
# or self.netloc`... is a different function for a blank header and is judged by the worlds (non-blank header: silent);
# early returns instead of the `host` local; `if not forwarded: return self.netloc`

# ---------------------------------------------------------------- second preserving wave (k2-*): refactoring + break
_RQ = 'falcon/request.py'
_FW = 'falcon/forwarded.py'
# k2-c09-1 shape: the first/last chain re-ordered through De Morgan with a guard clause in front; the mistake is a body under the wrong guard
_RANGE_CHAIN = ("            if first and last:\n                first_num, last_num = (int(first), int(last))\n                if last_num < first_num:\n"
                "                    raise ValueError()\n            elif first:\n                first_num, last_num = (int(first), -1)\n"
                "            elif last:\n                first_num, last_num = (-int(last), -1)\n                if first_num >= 0:\n"
                "                    raise ValueError()\n            else:\n                msg = 'The range offsets are missing.'\n"
                "                raise errors.HTTPInvalidHeader(msg, 'Range')\n")
_RANGE_REORDERED = ("            if not (first or last):\n                msg = 'The range offsets are missing.'\n"
                    "                raise errors.HTTPInvalidHeader(msg, 'Range')\n\n"
                    "            if not %s:\n                first_num, last_num = (int(first), -1)\n"
                    "            elif not %s:\n                first_num, last_num = (%s, -1)\n                if first_num >= 0:\n"
                    "                    raise ValueError()\n            else:\n                first_num, last_num = (int(first), int(last))\n"
                    "                if last_num %s first_num:\n                    raise ValueError()\n")
# the two one-sided arms under each other's guard: 'bytes=5-' is read through int('') (a 400), 'bytes=-5' as the open range
M('c09-range-reordered-arms-swapped', 'C09', 'R6', _RQ, _RANGE_CHAIN, _RANGE_REORDERED % ('first', 'last', '-int(last)', '<'), also=('C16',))
# the suffix arm forgets the sign
M('c09-range-reordered-suffix-positive', 'C09', 'R6', _RQ, _RANGE_CHAIN, _RANGE_REORDERED % ('last', 'first', 'int(last)', '<'), also=('C16',))
# the comparison of the full pair made inclusive
M('c09-range-reordered-one-byte-rejected', 'C09', 'R6', _RQ, _RANGE_CHAIN, _RANGE_REORDERED % ('last', 'first', '-int(last)', '<='), also=('C16',))
# the suffix length held in a local (C16 R12 role() through one local), sign forgotten
M('c09-range-suffix-local-positive', 'C09', 'R6', _RQ,
  "                first_num, last_num = (-int(last), -1)\n", "                n = int(last)\n                first_num, last_num = (n, -1)\n", also=('C16',))

# k2-c16-3 shape: range_unit by slicing at the position of '='; the mistake is the LAST '=' instead of the first
_UNIT_PART = "            unit, sep, req_range = value.partition('=')\n            return unit\n"
M('c09-range-unit-slice-at-last-equals', 'C09', 'R6', _RQ, _UNIT_PART, "            return value[: value.rindex('=')]\n", also=('C16',))
M('c09-range-unit-slice-local-rfind', 'C09', 'R6', _RQ, _UNIT_PART, "            cut = value.rfind('=')\n            return value[:cut]\n", also=('C16',))
M('c09-range-unit-rsplit', 'C09', 'R6', _RQ, _UNIT_PART, "            return value.rsplit('=', 1)[0]\n", also=('C16',))

# k2-c09-2 shape: the by/for/host/proto block in a module-level helper called as a statement; the mistake sits in the helper
_FWD_BLOCK = ("                if name == 'by':\n                    parsed_element.dest = value\n                elif name == 'for':\n"
              "                    parsed_element.src = value\n                elif name == 'host':\n                    parsed_element.host = value\n"
              "                elif name == 'proto':\n")
_FWD_HELPER = ("def _set_forwarded_param(element, name, value):\n    if name == 'by':\n        element.dest = value%s\n    elif name == 'for':\n"
               "        element.src = value\n    elif name == 'host':\n        element.host = value%s\n    elif name == 'proto':\n"
               "        element.scheme = value.lower()\n\n\ndef _parse_forwarded_header(")
_FWD_TAIL = ('                    # NOTE(kgriffs): RFC 7239 only requires that\n'
             '                    # the "proto" value conform to the Host ABNF\n'
             '                    # described in RFC 7230. The Host ABNF, in turn,\n'
             '                    # does not require that the scheme be in any\n'
             '                    # particular case, so we normalize it here to be\n'
             '                    # consistent with the WSGI spec that *does*\n'
             "                    # require the value of 'wsgi.url_scheme' to be\n"
             "                    # either 'http' or 'https' (case-sensitive).\n")


def _fwd_helper_edits(dest_suffix, host_suffix):
    return [{'file': _FW, 'old': "def _parse_forwarded_header(", 'new': _FWD_HELPER % (dest_suffix, host_suffix)},
            {'file': _FW, 'old': _FWD_BLOCK + _FWD_TAIL + "                    parsed_element.scheme = value.lower()\n",
             'new': "                _set_forwarded_param(parsed_element, name, value)\n"}]


M2('c09-forwarded-helper-lowercases-dest', 'C09', 'R7', _fwd_helper_edits('.lower()', ''))
M2('c09-forwarded-helper-casefolds-host', 'C09', 'R7', _fwd_helper_edits('', '.casefold()'))

# ---- pre-emptive hardening (shapes read since the third wave): refactoring + break
# R6: the first/last comparison under a negation; `not last > first` also rejects the one-byte range
M('c09-range-negated-compare-rejects-equal', 'C09', 'R6', _RQ, "                if last_num < first_num:\n                    raise ValueError()\n",
  "                if not last_num > first_num:\n                    raise ValueError()\n", also=('C16',))
# R6: the two offsets bound by separate statements, crossed
M('c09-range-separate-assignments-crossed', 'C09', 'R6', _RQ, "                first_num, last_num = (int(first), int(last))\n",
  "                first_num = int(last)\n                last_num = int(first)\n", also=('C16',))
# R6: range_unit as the head of a partition -- at the LAST '='
M('c09-range-unit-rpartition-head', 'C09', 'R6', _RQ, "            unit, sep, req_range = value.partition('=')\n            return unit\n",
  "            return value.rpartition('=')[0]\n", also=('C16',))
# R19: the '://' literal hoisted into a module constant with a typo
M2('c09-scheme-separator-constant-typo', 'C09', 'R19', [
    {'file': _RQ, 'old': "            self._cached_prefix = self.scheme + '://' + self.netloc + self.root_path\n",
     'new': "            self._cached_prefix = self.scheme + _SCHEME_SEP + self.netloc + self.root_path\n"},
    {'file': _RQ, 'old': "class Request:\n", 'new': "_SCHEME_SEP = ':/'\n\n\nclass Request:\n"}])
# R16: a local alias of the pattern's bound match -- of a looser pattern whose value group may be empty
M2('c09-forwarded-match-alias-loose-pattern', 'C09', 'R16', [
    {'file': _FW, 'old': "def _parse_forwarded_header(", 'new': "_LOOSE_PAIR_RE = re.compile('([A-Za-z]+)=([^;, ]*)')\n\n\ndef _parse_forwarded_header("},
    {'file': _FW, 'old': "    while 0 <= pos < end:\n        match = _FORWARDED_PAIR_RE.match(forwarded, pos)\n",
     'new': "    match_pair = _LOOSE_PAIR_RE.match\n    while 0 <= pos < end:\n        match = match_pair(forwarded, pos)\n"}])
# R16: the match bound by an assignment expression, the emptiness-proof gone with the looser pattern
M2('c09-forwarded-match-walrus-loose-pattern', 'C09', 'R16', [
    {'file': _FW, 'old': "def _parse_forwarded_header(", 'new': "_LOOSE_PAIR_RE = re.compile('([A-Za-z]+)=([^;, ]*)')\n\n\ndef _parse_forwarded_header("},
    {'file': _FW, 'old': "        match = _FORWARDED_PAIR_RE.match(forwarded, pos)\n\n        if match is not None:  # got a valid forwarded-pair\n",
     'new': "        if (match := _LOOSE_PAIR_RE.match(forwarded, pos)) is not None:\n"}])
# R7 / R16: the pair taken out of the match by `name = m.group(1)` / `value = m.group(2)`, or through a local `groups = m.groups()`;
# the mistake is a node identifier folded to lower case
M2('c09-forwarded-group-calls-src-lowered', 'C09', 'R7', [
    {'file': _FW, 'old': "                name, value = match.groups()\n", 'new': "                name = match.group(1)\n                value = match.group(2)\n"},
    {'file': _FW, 'old': "                    parsed_element.src = value\n", 'new': "                    parsed_element.src = value.lower()\n"}])
M2('c09-forwarded-groups-local-host-lowered', 'C09', 'R7', [
    {'file': _FW, 'old': "                name, value = match.groups()\n", 'new': "                groups = match.groups()\n                name, value = groups\n"},
    {'file': _FW, 'old': "                    parsed_element.host = value\n", 'new': "                    parsed_element.host = value.lower()\n"}])
