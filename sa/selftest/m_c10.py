"""Mutation operators for C10 (URI encode/decode tables and skeletons)."""

from .mutants import M, M2

U = 'falcon/util/uri.py'

# ----------------------------------------------------------------------- R1
M('c10-unreserved-plus-percent', 'C10', 'R1', U,
  "0123456789-._~'\n", "0123456789-._~%'\n")
M('c10-unreserved-plus-plus', 'C10', 'R1', U,
  "0123456789-._~'\n", "0123456789-._~+'\n")
M('c10-delimiters-space', 'C10', 'R1', U,
  """_DELIMITERS = ":/?#[]@!$&'()*+,;=\"""", """_DELIMITERS = ":/?#[]@!$&'()*+,;= \"""")
M('c10-delimiters-percent', 'C10', 'R1', U,
  """_DELIMITERS = ":/?#[]@!$&'()*+,;=\"""", """_DELIMITERS = ":/?#[]@!$&'()*+,;=%\"""")
M('c10-fastpath-allows-percent', 'C10', 'R1', U,
  "        if not uri.rstrip(allowed_chars):\n", "        if not uri.rstrip(allowed_chars_plus_percent):\n")
M('c10-escaped-shortcut-allows-space', 'C10', 'R1', U,
  "allowed_chars_plus_percent = allowed_chars + '%'", "allowed_chars_plus_percent = allowed_chars + '% '")
M('c10-alphabets-swapped', 'C10', 'R1', U,
  "allowed_chars = _UNRESERVED if is_value else _ALL_ALLOWED", "allowed_chars = _ALL_ALLOWED if is_value else _UNRESERVED")
M('c10-char-encoder-gets-percent-set', 'C10', 'R1', U,
  "encode_char = _create_char_encoder(allowed_chars)", "encode_char = _create_char_encoder(allowed_chars_plus_percent)")

# R1 verbatim parts: what reaches the output without passing through the char table
# seeded change s4-c10-1: "strip only once" with a per-configuration alphabet (which contains '%' for the
# check-escaped encoders) + "only the head goes through the encoder": a '%' after the last character that
# needs escaping is appended raw (encode_check_escaped('a b%') == 'a%20b%')
M2('c10-strip-once-tail-keeps-percent', 'C10', 'R1', [
    {'file': U, 'old': "    encode_char = _create_char_encoder(allowed_chars)\n",
     'new': "    encode_char = _create_char_encoder(allowed_chars)\n"
            "    safe_chars = allowed_chars_plus_percent if check_is_escaped else allowed_chars\n"},
    {'file': U, 'old': "        if not uri.rstrip(allowed_chars):\n            return uri\n\n"
                       "        if check_is_escaped and not uri.rstrip(allowed_chars_plus_percent):\n",
     'new': "        head = uri.rstrip(safe_chars)\n\n        if not head:\n"
            "            if not check_is_escaped or '%' not in uri:\n                return uri\n\n"},
    {'file': U, 'old': "            # before passing it in here.\n", 'new': "            # before passing it in here.\n            head = uri\n"},
    {'file': U, 'old': "        encoded_uri = uri.encode()\n", 'new': "        encoded_uri = head.encode()\n"},
    {'file': U, 'old': "        return ''.join(map(encode_char, encoded_uri))\n",
     'new': "        return ''.join(map(encode_char, encoded_uri)) + uri[len(head) :]\n"}],
   also=('C15',))
# the tail optimisation alone, but stripped with the "plus percent" alphabet: all four encoders keep a trailing '%'
M2('c10-tail-stripped-with-percent-set', 'C10', 'R1', [
    {'file': U, 'old': "        encoded_uri = uri.encode()\n",
     'new': "        head = uri.rstrip(allowed_chars_plus_percent)\n        encoded_uri = head.encode()\n"},
    {'file': U, 'old': "        return ''.join(map(encode_char, encoded_uri))\n",
     'new': "        return ''.join(map(encode_char, encoded_uri)) + uri[len(head) :]\n"}],
   also=('C15',))
# ... stripped with the whole-URI alphabet whatever the configuration: encode_value('a b/c') == 'a%20b/c'
M2('c10-value-tail-stripped-with-uri-alphabet', 'C10', 'R1', [
    {'file': U, 'old': "        encoded_uri = uri.encode()\n",
     'new': "        head = uri.rstrip(_ALL_ALLOWED)\n        encoded_uri = head.encode()\n"},
    {'file': U, 'old': "        return ''.join(map(encode_char, encoded_uri))\n",
     'new': "        tail = uri[len(head) :]\n        return ''.join(map(encode_char, encoded_uri)) + tail\n"}],
   also=('C15',))
# ... and the tail forgotten: encode('a b-c') == 'a%20b'
M('c10-strip-once-drops-tail', 'C10', 'R1', U,
  "        encoded_uri = uri.encode()\n", "        head = uri.rstrip(allowed_chars)\n        encoded_uri = head.encode()\n", also=('C15',))

# R1 wave 6: a second char table that lets '%' through
# seeded change s6-c15-1: the already-escaped test runs whenever the string contains '%'; when every %XX is well
# formed only the OTHER characters are encoded: encode_check_escaped('/report 100%20done') == '/report%20100%20done'
WIDE = {'file': U, 'old': "    encode_char = _create_char_encoder(allowed_chars)\n",
        'new': "    encode_char = _create_char_encoder(allowed_chars)\n"
               "    encode_unescaped_char = _create_char_encoder(allowed_chars_plus_percent)\n"}
M2('c10-escaped-partial-keeps-percent', 'C10', 'R1', [
    WIDE,
    {'file': U, 'old': "        if check_is_escaped and not uri.rstrip(allowed_chars_plus_percent):", 'new': "        if check_is_escaped and '%' in uri:"},
    {'file': U, 'old': "                # encoded.\n                return uri\n",
     'new': "                # encoded.\n                return ''.join(map(encode_unescaped_char, uri.encode()))\n"}],
   also=('C15',))
# the wide table used for every string of the check-escaped encoders that needs encoding (no well-formedness test at all)
M2('c10-check-escaped-never-encodes-percent', 'C10', 'R1', [
    WIDE,
    {'file': U, 'old': "        encoded_uri = uri.encode()\n",
     'new': "        encoded_uri = uri.encode()\n        if check_is_escaped:\n"
            "            return ''.join(encode_unescaped_char(b) for b in encoded_uri)\n"}],
   also=('C15',))
# the guard alone: any string with well-formed escapes is returned as it is, whatever else it contains
M('c10-escaped-shortcut-on-any-percent', 'C10', 'R1', U,
  "        if check_is_escaped and not uri.rstrip(allowed_chars_plus_percent):", "        if check_is_escaped and '%' in uri:", also=('C15',))

# ----------------------------------------------------------------------- R2
M('c10-escape-lowercase', 'C10', 'R2', U, "'%{0:02X}'.format(code_point)", "'%{0:02x}'.format(code_point)")
M('c10-escape-unpadded', 'C10', 'R2', U, "'%{0:02X}'.format(code_point)", "'%{0:X}'.format(code_point)")
M('c10-hexdigits-upper-only', 'C10', 'R2', U, "_HEX_DIGITS = '0123456789ABCDEFabcdef'", "_HEX_DIGITS = '0123456789ABCDEF'", also=())
M('c10-hex-table-nibbles-swapped', 'C10', 'R2', U, "bytes([int(a + b, 16)])", "bytes([int(b + a, 16)])")
M('c10-encode-latin1', 'C10', 'R2', U, "        encoded_uri = uri.encode()\n", "        encoded_uri = uri.encode('latin-1', 'replace')\n")
M('c10-char-table-half', 'C10', 'R2', U, "for code_point in range(256):", "for code_point in range(128):")

# ----------------------------------------------------------------------- R3
M('c10-encode-value-bound-as-uri', 'C10', 'R3', U, "encode_value = _create_str_encoder(True)", "encode_value = _create_str_encoder(False)", also=('C15',))
M2('c10-check-escaped-bindings-swapped', 'C10', 'R3', [
    {'file': U, 'old': "encode_check_escaped = _create_str_encoder(False, True)", 'new': "encode_check_escaped = _create_str_encoder(True, True)"},
    {'file': U, 'old': "encode_value_check_escaped = _create_str_encoder(True, True)", 'new': "encode_value_check_escaped = _create_str_encoder(False, True)"}],
   also=('C15',))
M('c10-check-escaped-default-on', 'C10', 'R3', U,
  "is_value: bool, check_is_escaped: bool = False", "is_value: bool, check_is_escaped: bool = True")
M('c10-location-plain-encoder', 'C10', 'R3', 'falcon/response.py',
  "from falcon.util.uri import encode_check_escaped as uri_encode", "from falcon.util.uri import encode as uri_encode", also=('C15',))
M('c10-location-value-encoder', 'C10', 'R3', 'falcon/response.py',
  "from falcon.util.uri import encode_check_escaped as uri_encode", "from falcon.util.uri import encode_value_check_escaped as uri_encode", also=('C15',))
M('c10-query-str-check-escaped', 'C10', 'R3', 'falcon/util/misc.py',
  "from falcon.uri import encode_value\n", "from falcon.uri import encode_value_check_escaped as encode_value\n", also=('C08',))
M('c10-content-disposition-uri-encoder', 'C10', 'R3', 'falcon/response_helpers.py',
  "uri.encode_value(value),", "uri.encode(value),", also=('C15',))

# ----------------------------------------------------------------------- R4
M('c10-list-path-key-3', 'C10', 'R4', U, "token_partial = token[:2]", "token_partial = token[:3]", count=3, occurrence=1)
M('c10-inline-path-key-1', 'C10', 'R4', U, "token_partial = token[:2]", "token_partial = token[:1]", count=3, occurrence=2)
M('c10-bytearray-path-rest-3', 'C10', 'R4', U,
  "decoded_uri += _HEX_TO_BYTE[token_partial] + token[2:]", "decoded_uri += _HEX_TO_BYTE[token_partial] + token[3:]")
M('c10-list-path-fallback-drops-percent', 'C10', 'R4', U, "decoded.append(b'%' + token)", "decoded.append(token)")
M('c10-inline-path-fallback-partial', 'C10', 'R4', U, "reencoded_uri += b'%' + token\n", "reencoded_uri += b'%' + token_partial\n")
M('c10-inline-path-strict-decode', 'C10', 'R4', U,
  "return reencoded_uri.decode('utf-8', 'replace')", "return reencoded_uri.decode('utf-8')", also=('C04', 'C08'))
M('c10-bytearray-path-ignore-errors', 'C10', 'R4', U,
  "return decoded_uri.decode('utf-8', 'replace')", "return decoded_uri.decode('utf-8', 'ignore')")
M('c10-list-path-latin1', 'C10', 'R4', U,
  "return b''.join(decoded).decode('utf-8', 'replace')", "return b''.join(decoded).decode('latin-1', 'replace')")
M('c10-plus-always', 'C10', 'R4', U, "if '+' in decoded_uri and unquote_plus:", "if '+' in decoded_uri:")
M('c10-plus-never-when-flag', 'C10', 'R4', U, "if '+' in decoded_uri and unquote_plus:", "if '+' in decoded_uri and not unquote_plus:")
M('c10-shortcut-returns-original', 'C10', 'R4', U,
  """    if '%' not in decoded_uri:
        return decoded_uri
""", """    if '%' not in decoded_uri:
        return encoded_uri
""")
M('c10-plus-after-split', 'C10', 'R4', U,
  """    if '+' in decoded_uri and unquote_plus:
        decoded_uri = decoded_uri.replace('+', ' ')

    # Short-circuit if we can
    if '%' not in decoded_uri:
        return decoded_uri
""", """    # Short-circuit if we can
    if '%' not in decoded_uri:
        if '+' in decoded_uri and unquote_plus:
            decoded_uri = decoded_uri.replace('+', ' ')
        return decoded_uri
""")
M('c10-list-path-no-skip', 'C10', 'R4', U, "    skip = True\n", "    skip = False\n")
M('c10-bytearray-path-first-token-twice', 'C10', 'R4', U,
  """    decoded_uri = bytearray(tokens[0])
    for token in tokens[1:]:""", """    decoded_uri = bytearray(tokens[0])
    for token in tokens:""")
M('c10-inline-path-wrong-except', 'C10', 'R4', U,
  """            except KeyError:
                # malformed percentage like "x=%" or "y=%+"
                reencoded_uri += b'%' + token""", """            except IndexError:
                # malformed percentage like "x=%" or "y=%+"
                reencoded_uri += b'%' + token""", also=('C08',))
M('c10-split-on-str-codec', 'C10', 'R4', U, "    reencoded_uri = decoded_uri.encode()\n", "    reencoded_uri = decoded_uri.encode('ascii', 'replace')\n")

# R4 wave 6: every '%' starts a token - the tokenisation is unbounded
# seeded change s6-c10-2: "hardening" cap on the number of fragments; everything after the 1024th '%' stays undecoded
M2('c10-decode-split-capped', 'C10', 'R4', [
    {'file': U, 'old': "_HEX_DIGITS = '0123456789ABCDEFabcdef'\n", 'new': "_HEX_DIGITS = '0123456789ABCDEFabcdef'\n_MAX_DECODE_TOKENS = 1024\n"},
    {'file': U, 'old': "    tokens = reencoded_uri.split(b'%')\n", 'new': "    tokens = reencoded_uri.split(b'%', _MAX_DECODE_TOKENS)\n"}])
M('c10-decode-split-maxsplit-keyword', 'C10', 'R4', U,
  "    tokens = reencoded_uri.split(b'%')\n", "    tokens = reencoded_uri.split(b'%', maxsplit=255)\n")
# the cap applied to the token list instead: the tail of the text is dropped
M('c10-decode-token-list-truncated', 'C10', 'R4', U,
  "    tokens = reencoded_uri.split(b'%')\n", "    tokens = reencoded_uri.split(b'%')\n    tokens = tokens[:1024]\n")
M('c10-decode-token-list-del-tail', 'C10', 'R4', U,
  "    tokens = reencoded_uri.split(b'%')\n", "    tokens = reencoded_uri.split(b'%')\n    del tokens[1024:]\n")
M('c10-joiner-gets-token-prefix', 'C10', 'R4', U, "    return _join_tokens(tokens)\n", "    return _join_tokens(tokens[:4096])\n")
M('c10-bytearray-path-loop-bounded', 'C10', 'R4', U,
  """    decoded_uri = bytearray(tokens[0])
    for token in tokens[1:]:""", """    decoded_uri = bytearray(tokens[0])
    for token in tokens[1:1024]:""")

# ----------------------------------------------------------------------- R5
M('c10-escaped-accept-after-break', 'C10', 'R5', U,
  """            else:
                # NOTE(kgriffs): All percent-encoded sequences were""", """            if True:
                # NOTE(kgriffs): All percent-encoded sequences were""")
M('c10-escaped-nonhex-continues', 'C10', 'R5', U,
  """                if not (hex_octet[0] in _HEX_DIGITS and hex_octet[1] in _HEX_DIGITS):
                    break
""", """                if not (hex_octet[0] in _HEX_DIGITS and hex_octet[1] in _HEX_DIGITS):
                    continue
""")
M('c10-escaped-one-char-enough', 'C10', 'R5', U, "if not len(hex_octet) == 2:", "if not len(hex_octet) >= 1:")
M('c10-escaped-first-char-twice', 'C10', 'R5', U,
  "hex_octet[0] in _HEX_DIGITS and hex_octet[1] in _HEX_DIGITS", "hex_octet[0] in _HEX_DIGITS and hex_octet[0] in _HEX_DIGITS")
M('c10-escaped-either-char', 'C10', 'R5', U,
  "hex_octet[0] in _HEX_DIGITS and hex_octet[1] in _HEX_DIGITS", "hex_octet[0] in _HEX_DIGITS or hex_octet[1] in _HEX_DIGITS")
M('c10-escaped-skips-first-escape', 'C10', 'R5', U, "            for token in tokens[1:]:\n                hex_octet", "            for token in tokens[2:]:\n                hex_octet")
M('c10-escaped-digits-with-g', 'C10', 'R5', U,
  "hex_octet[0] in _HEX_DIGITS and hex_octet[1] in _HEX_DIGITS", "hex_octet[0] in _HEX_DIGITS + 'gG' and hex_octet[1] in _HEX_DIGITS")

# R5 look-alike: a membership test of a (possibly empty) slice used as "this character is a hex digit"
TOKEN_LOOP = """            tokens = uri.split('%')
            for token in tokens[1:]:
                hex_octet = token[:2]

                if not len(hex_octet) == 2:
                    break

                if not (hex_octet[0] in _HEX_DIGITS and hex_octet[1] in _HEX_DIGITS):
                    break
"""
# seeded change s2-c10-2: in-place find() scan, one-character slices ('' in <str> is True at the end of the input)
M('c10-escaped-find-scan-empty-slices', 'C10', 'R5', U, TOKEN_LOOP,
  """            pos = uri.find('%')
            while pos != -1:
                if not (
                    uri[pos + 1 : pos + 2] in _HEX_DIGITS
                    and uri[pos + 2 : pos + 3] in _HEX_DIGITS
                ):
                    break

                pos = uri.find('%', pos + 3)
""")
# same slip with the token loop kept: the length test is "folded into" slices that cannot raise IndexError
M('c10-escaped-token-slices-no-length-test', 'C10', 'R5', U, TOKEN_LOOP,
  """            tokens = uri.split('%')
            for token in tokens[1:]:
                if not (token[:1] in _HEX_DIGITS and token[1:2] in _HEX_DIGITS):
                    break
""")
# a length test that covers only the first of the two sliced characters
M('c10-escaped-second-slice-unguarded', 'C10', 'R5', U, TOKEN_LOOP,
  """            tokens = uri.split('%')
            for token in tokens[1:]:
                if not token:
                    break

                if not (token[0:1] in _HEX_DIGITS and token[1:2] in _HEX_DIGITS):
                    break
""")
# index scan with a bound that is one short: '%X' at the very end passes
M('c10-escaped-index-scan-bound-off-by-one', 'C10', 'R5', U, TOKEN_LOOP,
  """            pos = uri.find('%')
            while pos != -1:
                if len(uri) < pos + 2:
                    break

                if not (
                    uri[pos + 1 : pos + 2] in _HEX_DIGITS
                    and uri[pos + 2 : pos + 3] in _HEX_DIGITS
                ):
                    break

                pos = uri.find('%', pos + 3)
""")

# ----------------------------------------------------------------------- R6
M('c10-parse-host-str-port', 'C10', 'R6', U, "    return (name, int(port))\n", "    return (name, port)\n", also=('C09',))
M('c10-parse-host-keeps-brackets', 'C10', 'R6', U, "return (host[1:-1], default_port)", "return (host, default_port)")
M('c10-parse-host-strips-plain', 'C10', 'R6', U, "        return (host, default_port)\n", "        return (host[1:], default_port)\n")
M('c10-parse-host-port-without-separator', 'C10', 'R6', U,
  """        if pos != -1:
            return (host[1:pos], int(host[pos + 2 :]))
        else:
            return (host[1:-1], default_port)
""", """        return (host[1:pos], int(host[pos + 2 :]))
""", also=('C09',))
# seeded change s4-c10-3: "no colon, no port" shortcut placed before the bracket branch: '[v1.fe80]' keeps its brackets
M2('c10-parse-host-colonless-shortcut-before-brackets', 'C10', 'R6', [
    {'file': U, 'old': "    if host.startswith('['):\n",
     'new': "    if ':' not in host:\n        return (host, default_port)\n\n    if host.startswith('['):\n"},
    {'file': U, 'old': "    pos = host.rfind(':')\n    if (pos == -1) or (pos != host.find(':')):\n",
     'new': "    if host.rfind(':') != host.find(':'):\n"}])
# the same shortcut spelled with find()
M('c10-parse-host-find-shortcut-before-brackets', 'C10', 'R6', U,
  "    if host.startswith('['):\n",
  "    if host.find(':') == -1:\n        return (host, default_port)\n\n    if host.startswith('['):\n")
# bracket form detected by the closing bracket: 'example]' loses its first character, '[::1' keeps its bracket
M('c10-parse-host-bracket-by-closing-bracket', 'C10', 'R6', U,
  "    if host.startswith('['):\n", "    if ']' in host:\n")

# ---- wave 8: the decoder table built some OTHER way than the pair comprehension (R2 reads whatever builds it at import time)
HEX_TABLE = """# This map construction is based on urllib's implementation
_HEX_TO_BYTE = {
    (a + b).encode(): bytes([int(a + b, 16)]) for a in _HEX_DIGITS for b in _HEX_DIGITS
}
"""
# seeded change s8-c10-1: filled from range(256) with the two same-case spellings of each octet (412 keys): decode('%aB') == '%aB'
M('c10-hex-table-loop-two-spellings', 'C10', 'R2', U, HEX_TABLE,
  "_HEX_TO_BYTE = {}\nfor _octet in range(256):\n"
  "    _HEX_TO_BYTE[b'%02X' % _octet] = _HEX_TO_BYTE[b'%02x' % _octet] = bytes([_octet])\ndel _octet\n")
M('c10-hex-table-loop-fstrings', 'C10', 'R2', U, HEX_TABLE,
  "_HEX_TO_BYTE = {}\nfor _o in range(256):\n    _HEX_TO_BYTE[f'{_o:02x}'.encode()] = bytes([_o])\n"
  "    _HEX_TO_BYTE[f'{_o:02X}'.encode()] = bytes((_o,))\n")
M('c10-hex-table-lower-union-upper', 'C10', 'R2', U, HEX_TABLE,
  "_LOWER_HEX = {('%02x' % i).encode(): bytes([i]) for i in range(256)}\n"
  "_HEX_TO_BYTE = _LOWER_HEX | {k.upper(): v for k, v in _LOWER_HEX.items()}\n")
M('c10-hex-table-zip-then-update', 'C10', 'R2', U, HEX_TABLE,
  "_HEX_TO_BYTE = dict(zip([hex(i)[2:].zfill(2).encode() for i in range(256)], [i.to_bytes(1, 'big') for i in range(256)]))\n"
  "_HEX_TO_BYTE.update({k.upper(): v for k, v in _HEX_TO_BYTE.items()})\n")
M('c10-hex-table-spellings-helper', 'C10', 'R2', U, HEX_TABLE,
  "def _spellings(octet):\n    return ('{:02x}'.format(octet).encode(), '{:02X}'.format(octet).encode())\n\n\n"
  "_HEX_TO_BYTE = {k: bytes([o]) for o in range(256) for k in _spellings(o)}\n")
# complete key set, but built from the octet's nibbles in the wrong order: decode('%2F') == '\xf2'
M('c10-hex-table-loop-nibbles-swapped', 'C10', 'R2', U, HEX_TABLE,
  "_HEX_TO_BYTE = {}\nfor _a in _HEX_DIGITS:\n    for _b in _HEX_DIGITS:\n"
  "        _HEX_TO_BYTE[(_a + _b).encode()] = bytes([int(_b + _a, 16)])\n")

# ---- wave 8: parse_host splits, it does not normalise (R6: the host returned is the parameter or a contiguous piece of it)
# seeded change s8-c10-2 ("RFC 3986 3.2.2: host is case-insensitive"): parse_host('Example.COM:8080')[0] == 'example.com'
M('c10-parse-host-lowercases-name-with-port', 'C10', 'R6', U, "    return (name, int(port))\n", "    return (name.lower(), int(port))\n")
M('c10-parse-host-lowercases-name-local', 'C10', 'R6', U, "    return (name, int(port))\n", "    name = name.casefold()\n    return (name, int(port))\n")
M('c10-parse-host-strips-bare-host', 'C10', 'R6', U, "        return (host, default_port)\n", "        return (host.strip(), default_port)\n")
M('c10-parse-host-drops-trailing-dot', 'C10', 'R6', U, "    return (name, int(port))\n", "    return (name.rstrip('.'), int(port))\n")
M('c10-parse-host-idna-bare-host', 'C10', 'R6', U, "        return (host, default_port)\n",
  "        return (host.encode('idna').decode('ascii'), default_port)\n", also=('C09',))
M('c10-parse-host-uppercases-ipv6', 'C10', 'R6', U, "            return (host[1:-1], default_port)\n",
  "            return (host[1:-1].upper(), default_port)\n")

# ---- auto-mutation seed sa-am03554 (R4: the table byte and the rest of the token are combined by bytes concatenation on every
# decoder path; `-`/`*`/... between two bytes objects raise TypeError past the KeyError arm)
M('c10-list-path-bytes-minus', 'C10', 'R4', U, "decoded.append(_HEX_TO_BYTE[token_partial] + token[2:])",
  "decoded.append(_HEX_TO_BYTE[token_partial] - token[2:])")
M('c10-bytearray-path-bytes-mod', 'C10', 'R4', U, "decoded_uri += _HEX_TO_BYTE[token_partial] + token[2:]",
  "decoded_uri += _HEX_TO_BYTE[token_partial] % token[2:]")
M('c10-inline-path-byte-after-rest', 'C10', 'R4', U, "reencoded_uri += _HEX_TO_BYTE[token_partial] + token[2:]",
  "reencoded_uri += token[2:] + _HEX_TO_BYTE[token_partial]")

# ---------------------------------------------------------------- wave 10
SCAN = ("            tokens = uri.split('%')\n            for token in tokens[1:]:\n                hex_octet = token[:2]\n\n"
        "                if not len(hex_octet) == 2:\n                    break\n\n"
        "                if not (hex_octet[0] in _HEX_DIGITS and hex_octet[1] in _HEX_DIGITS):\n                    break\n            else:\n")
# R7 a one-shot iterator consumed twice (s10-c10-1): generator / map object fed to all() and then to ''.join()
M('c10-escape-scan-generator-consumed-twice', 'C10', 'R7', U, SCAN,
  "            hex_octets = (token[:2] for token in uri.split('%')[1:])\n"
  "            if all(len(hex_octet) == 2 for hex_octet in hex_octets) and (\n"
  "                not ''.join(hex_octets).rstrip(_HEX_DIGITS)\n            ):\n", also=('C15',))
M('c10-escape-scan-map-consumed-twice', 'C10', 'R7', U, SCAN,
  "            hex_octets = map(lambda token: token[:2], uri.split('%')[1:])\n"
  "            if not ''.join(hex_octets).rstrip(_HEX_DIGITS) and all(len(hex_octet) == 2 for hex_octet in hex_octets):\n", also=('C15',))
# R4 exactly-once: an optimistic pass with the try hoisted out of the loop, then the careful pass on the SAME, partly filled accumulator (s10-c10-2)
M('c10-bytearray-joiner-retry-without-reset', 'C10', 'R4', U,
  "    decoded_uri = bytearray(tokens[0])\n    for token in tokens[1:]:\n",
  "    decoded_uri = bytearray(tokens[0])\n\n    try:\n        for token in tokens[1:]:\n"
  "            decoded_uri += _HEX_TO_BYTE[token[:2]] + token[2:]\n        return decoded_uri.decode('utf-8', 'replace')\n"
  "    except KeyError:\n        pass\n\n    for token in tokens[1:]:\n")
M('c10-list-joiner-retry-without-reset', 'C10', 'R4', U,
  "    decoded = tokens[:1]\n",
  "    decoded = tokens[:1]\n    try:\n        for token in tokens[1:]:\n"
  "            decoded.append(_HEX_TO_BYTE[token[:2]] + token[2:])\n        return b''.join(decoded).decode('utf-8', 'replace')\n"
  "    except KeyError:\n        pass\n")
# the careful pass run twice (a "second attempt" after a complete first one)
M('c10-bytearray-joiner-second-pass', 'C10', 'R4', U,
  "    # Convert back to str\n    return decoded_uri.decode('utf-8', 'replace')\n",
  "    for token in tokens[1:]:\n        try:\n            decoded_uri += _HEX_TO_BYTE[token[:2]] + token[2:]\n"
  "        except KeyError:\n            decoded_uri += b'%' + token\n\n    # Convert back to str\n    return decoded_uri.decode('utf-8', 'replace')\n")
# negative controls (exit 0): the same optimistic pass with `decoded_uri = bytearray(tokens[0])` in the KeyError arm / after the
# try statement / with the return in an `else:` arm; `decoded_uri.clear()` instead is exit 2 (not read)
# R5 read through the shapes of preserving/k1-c10-1 and k1-c10-2: the break inside them
_OCTETS = "_HEX_OCTETS = frozenset(a + b for a in %s for b in %s)\n\n\ndef _create_char_encoder("
_OCTET_TEST = ("                hex_octet = token[:2]\n\n                if not len(hex_octet) == 2:\n                    break\n\n"
               "                if not (hex_octet[0] in _HEX_DIGITS and hex_octet[1] in _HEX_DIGITS):\n                    break\n")
M2('c10-octet-set-lower-case-only', 'C10', 'R5', [
    {'file': U, 'old': "def _create_char_encoder(", 'new': _OCTETS % ("'0123456789abcdef'", "'0123456789abcdef'")},
    {'file': U, 'old': _OCTET_TEST, 'new': "                if token[:2] not in _HEX_OCTETS:\n                    break\n"}], also=('C15',))
M2('c10-octet-set-with-single-digits', 'C10', 'R5', [
    {'file': U, 'old': "def _create_char_encoder(", 'new': (_OCTETS % ('_HEX_DIGITS', "_HEX_DIGITS + ' '")).replace("a + b for", "(a + b).strip() for")},
    {'file': U, 'old': _OCTET_TEST, 'new': "                if token[:2] not in _HEX_OCTETS:\n                    break\n"}], also=('C15',))
_SCAN_HELPER = ("def _has_only_valid_escapes(uri):\n    tokens = uri.split('%%')\n    for token in tokens[1:]:\n        hex_octet = token[:2]\n\n"
                "        if not len(hex_octet) == 2:\n            return %s\n\n"
                "        if not (hex_octet[0] in _HEX_DIGITS and hex_octet[1] in _HEX_DIGITS):\n            return False\n\n    return True\n\n\n"
                "def _create_str_encoder(")
M2('c10-scan-helper-accepts-short-escape', 'C10', 'R5', [
    {'file': U, 'old': "def _create_str_encoder(", 'new': _SCAN_HELPER % 'True'},
    {'file': U, 'old': SCAN, 'new': "            if _has_only_valid_escapes(uri):\n"}], also=('C15',))
M2('c10-scan-helper-outcome-negated', 'C10', 'R5', [
    {'file': U, 'old': "def _create_str_encoder(", 'new': _SCAN_HELPER % 'False'},
    {'file': U, 'old': SCAN, 'new': "            if not _has_only_valid_escapes(uri):\n"}], also=('C15',))
# the factory's extra parameter takes part in the encoder's decision (k1-c10-4 shape, not cosmetic): exit 2 by design, not listed

# ---------------------------------------------------------------- second preserving wave (k2-*): refactoring + break
# k2-c08-1 shape: try / except KeyError written as a membership test; the mistake sits in the looked-through arms
_TRY_BA = ("        try:\n            decoded_uri += _HEX_TO_BYTE[token_partial] + token[2:]\n        except KeyError:\n"
           "            # malformed percentage like \"x=%\" or \"y=%+\"\n            decoded_uri += b'%' + token\n")
_TRY_LIST = ("        try:\n            decoded.append(_HEX_TO_BYTE[token_partial] + token[2:])\n        except KeyError:\n"
             "            # malformed percentage like \"x=%\" or \"y=%+\"\n            decoded.append(b'%' + token)\n")
_TRY_INLINE = ("            try:\n                reencoded_uri += _HEX_TO_BYTE[token_partial] + token[2:]\n            except KeyError:\n"
               "                # malformed percentage like \"x=%\" or \"y=%+\"\n                reencoded_uri += b'%' + token\n")
# the literal arm forgets the '%': decode('%zz' * 8) == 'zz' * 8
M('c10-membership-guard-literal-arm-drops-percent', 'C10', 'R4', U, _TRY_BA,
  "        if token_partial in _HEX_TO_BYTE:\n            decoded_uri += _HEX_TO_BYTE[token_partial] + token[2:]\n"
  "        else:\n            decoded_uri += token\n", also=('C08',))
# no literal arm at all: a malformed escape vanishes
M('c10-membership-guard-without-else', 'C10', 'R4', U, _TRY_LIST,
  "        if token_partial in _HEX_TO_BYTE:\n            decoded.append(_HEX_TO_BYTE[token_partial] + token[2:])\n", also=('C08',))
# the test inverted, arms left as they were: the lookup runs exactly when the key is missing (KeyError), well-formed escapes stay literal
M('c10-membership-guard-inverted', 'C10', 'R4', U, _TRY_INLINE,
  "            if token_partial not in _HEX_TO_BYTE:\n                reencoded_uri += _HEX_TO_BYTE[token_partial] + token[2:]\n"
  "            else:\n                reencoded_uri += b'%' + token\n", also=('C08',))
# guard-clause form with `continue`, the literal arm emits the two key characters only
M('c10-membership-guard-clause-partial-literal', 'C10', 'R4', U, _TRY_INLINE,
  "            if token_partial not in _HEX_TO_BYTE:\n                reencoded_uri += b'%' + token_partial\n                continue\n"
  "            reencoded_uri += _HEX_TO_BYTE[token_partial] + token[2:]\n", also=('C08',))

# k2-c10-2 shape: the short-input path of decode() moved into a third joiner; the mistake sits in the moved loop
_INLINE_PATH = ("        reencoded_uri = tokens[0]\n        for token in tokens[1:]:\n            token_partial = token[:2]\n" + _TRY_INLINE
                + "\n        # Convert back to str\n        return reencoded_uri.decode('utf-8', 'replace')\n")
_INPLACE = ("def _join_tokens_inplace(tokens):\n    decoded_uri = tokens[0]\n    for token in tokens[1:]:\n        token_partial = token[:2]\n"
            "        try:\n            decoded_uri += _HEX_TO_BYTE[token_partial] + token[%s:]\n        except KeyError:\n"
            "            decoded_uri += b'%%' + token\n\n    return decoded_uri.decode('utf-8', %s)\n\n\ndef decode(")
M2('c10-inplace-joiner-rest-from-3', 'C10', 'R4', [
    {'file': U, 'old': "def decode(", 'new': _INPLACE % ('3', "'replace'")},
    {'file': U, 'old': _INLINE_PATH, 'new': "        return _join_tokens_inplace(tokens)\n"}], also=('C08',))
M2('c10-inplace-joiner-strict-decode', 'C10', 'R4', [
    {'file': U, 'old': "def decode(", 'new': _INPLACE % ('2', "'strict'")},
    {'file': U, 'old': _INLINE_PATH, 'new': "        return _join_tokens_inplace(tokens)\n"}], also=('C04', 'C08'))
# ... and the moved path is handed the tokens without the first one
M2('c10-inplace-joiner-gets-tail-only', 'C10', 'R4', [
    {'file': U, 'old': "def decode(", 'new': _INPLACE % ('2', "'replace'")},
    {'file': U, 'old': _INLINE_PATH, 'new': "        return _join_tokens_inplace(tokens[:7])\n"}], also=('C08',))

# k2-c10-3 shape: the char table is a tuple indexed by the byte value; the mistake sits in what the tuple holds
_TUPLE_TABLE = [
    {'file': U, 'old': "    lookup = {}\n", 'new': "    lookup = []\n"},
    {'file': U, 'old': "        lookup[code_point] = encoded_char\n", 'new': "        lookup.append(encoded_char)\n"},
    {'file': U, 'old': "    return lookup.__getitem__\n", 'new': "    return tuple(lookup).__getitem__\n"}]
M2('c10-tuple-table-lower-case-escape', 'C10', None, _TUPLE_TABLE + [
    {'file': U, 'old': "'%{0:02X}'.format(code_point)", 'new': "'%{0:02x}'.format(code_point)"}], also=('C08', 'C15'))
M2('c10-tuple-table-half-range', 'C10', None, _TUPLE_TABLE + [
    {'file': U, 'old': "    for code_point in range(256):\n", 'new': "    for code_point in range(128):\n"}], also=('C08', 'C15'))
M2('c10-tuple-table-built-from-wider-set', 'C10', None, _TUPLE_TABLE + [
    {'file': U, 'old': "        if chr(code_point) in allowed_chars:\n", 'new': "        if chr(code_point) in allowed_chars + '%':\n"}], also=('C08', 'C15'))

# k2-c10-4 shape: a keyword-only parameter of the factory that no caller passes, bound to its default; the mistake is the default
_EXTRA = [
    {'file': U, 'old': "    is_value: bool, check_is_escaped: bool = False\n", 'new': "    is_value: bool, check_is_escaped: bool = False, *, extra_allowed: str = %r\n"},
    {'file': U, 'old': "    allowed_chars = _UNRESERVED if is_value else _ALL_ALLOWED\n",
     'new': "    allowed_chars = (_UNRESERVED if is_value else _ALL_ALLOWED) + extra_allowed\n"}]
M2('c10-unpassed-extra-allowed-default-percent', 'C10', 'R1',
   [dict(e, new=(e['new'] % '%') if '%r' in e['new'] else e['new']) for e in _EXTRA], also=('C08', 'C15'))
M2('c10-unpassed-extra-allowed-default-plus', 'C10', 'R1',
   [dict(e, new=(e['new'] % '+') if '%r' in e['new'] else e['new']) for e in _EXTRA], also=('C08', 'C15'))

# k2-c10-1 shape: the for/else of the escaped-check as a flag cleared before each break; the mistake is a break that leaves the flag set
_FLAG_SCAN = ("            tokens = uri.split('%%')\n            already_escaped = True\n            for token in tokens[1:]:\n                hex_octet = token[:2]\n\n"
              "                if len(hex_octet) != 2:\n%s                    break\n\n"
              "                if hex_octet[0] not in _HEX_DIGITS or hex_octet[1] not in _HEX_DIGITS:\n%s                    break\n\n"
              "            if already_escaped:\n")
_CLR = "                    already_escaped = False\n"
M('c10-flag-scan-short-escape-keeps-flag', 'C10', None, U, SCAN, _FLAG_SCAN % ('', _CLR), also=('C15',))
M('c10-flag-scan-bad-digit-keeps-flag', 'C10', None, U, SCAN, _FLAG_SCAN % (_CLR, ''), also=('C15',))
# the flag tested with the wrong polarity: accepted exactly when an escape was malformed
M('c10-flag-scan-negated-test', 'C10', None, U, SCAN, (_FLAG_SCAN % (_CLR, _CLR)).replace("if already_escaped:", "if not already_escaped:"), also=('C15',))

# ---------------------------------------------------------------- third preserving wave (k3-*): refactoring + break
# k3-c08-1 shape: try / except KeyError written as `octet = _HEX_TO_BYTE.get(token[:2])` + a test for None
# the None arm (key absent) forgets the '%'
M('c10-get-none-arm-drops-percent', 'C10', 'R4', U, _TRY_BA,
  "        octet = _HEX_TO_BYTE.get(token_partial)\n        if octet is None:\n            decoded_uri += token\n"
  "        else:\n            decoded_uri += octet + token[2:]\n", also=('C08',))
# the test inverted, arms left as they were: None + bytes (TypeError) for a malformed escape, well-formed ones stay literal
M('c10-get-none-test-inverted', 'C10', 'R4', U, _TRY_INLINE,
  "            octet = _HEX_TO_BYTE.get(token_partial)\n            if octet is not None:\n                reencoded_uri += b'%' + token\n"
  "            else:\n                reencoded_uri += octet + token[2:]\n", also=('C08',))
# guard-clause form without a literal arm: a malformed escape vanishes
M('c10-get-none-arm-emits-nothing', 'C10', 'R4', U, _TRY_LIST,
  "        octet = _HEX_TO_BYTE.get(token_partial)\n        if octet is None:\n            continue\n"
  "        decoded.append(octet + token[2:])\n", also=('C08',))
# the result used without any test: decode('%zz') raises TypeError
M('c10-get-result-untested', 'C10', 'R4', U, _TRY_BA,
  "        octet = _HEX_TO_BYTE.get(token_partial)\n        decoded_uri += octet + token[2:]\n", also=('C08',))
# the key window widened while moving to .get()
M('c10-get-key-three-characters', 'C10', 'R4', U, "            token_partial = token[:2]\n" + _TRY_INLINE,
  "            octet = _HEX_TO_BYTE.get(token[:3])\n            if octet is None:\n                reencoded_uri += b'%' + token\n"
  "            else:\n                reencoded_uri += octet + token[2:]\n", also=('C08',))

# ---- pre-emptive hardening (shapes read since the third wave): refactoring + break
# the b'%' literal hoisted into a module constant; the fall-back arm uses a look-alike constant
M2('c10-hoisted-percent-fallback-is-escape', 'C10', 'R4', [
    {'file': U, 'old': "_join_tokens = _join_tokens_list if PYPY else _join_tokens_bytearray\n",
     'new': "_join_tokens = _join_tokens_list if PYPY else _join_tokens_bytearray\n_PERCENT = b'%'\n_LITERAL_PERCENT = b'%25'\n"},
    {'file': U, 'old': "    tokens = reencoded_uri.split(b'%')\n", 'new': "    tokens = reencoded_uri.split(_PERCENT)\n"},
    {'file': U, 'old': "                reencoded_uri += b'%' + token\n", 'new': "                reencoded_uri += _LITERAL_PERCENT + token\n"}], also=('C08',))
# a local alias of the table in one joiner; the remainder starts one character late
M('c10-table-alias-rest-from-3', 'C10', 'R4', U,
  "    decoded_uri = bytearray(tokens[0])\n    for token in tokens[1:]:\n        token_partial = token[:2]\n" + _TRY_BA,
  "    decoded_uri = bytearray(tokens[0])\n    hex_to_byte = _HEX_TO_BYTE\n    for token in tokens[1:]:\n        token_partial = token[:2]\n"
  "        try:\n            decoded_uri += hex_to_byte[token_partial] + token[3:]\n        except KeyError:\n            decoded_uri += b'%' + token\n", also=('C08',))
# a local alias of the bound .get; the None arm re-emits the key characters only
M2('c10-get-alias-none-arm-partial', 'C10', 'R4', [
    {'file': U, 'old': "    decoded = tokens[:1]\n", 'new': "    decoded = tokens[:1]\n    lookup = _HEX_TO_BYTE.get\n"},
    {'file': U, 'old': "        token_partial = token[:2]\n" + _TRY_LIST,
     'new': "        octet = lookup(token[:2])\n        if octet is None:\n            decoded.append(b'%' + token[:2])\n        else:\n            decoded.append(octet + token[2:])\n"}],
   also=('C08',))
# parse_host: "exactly one colon" written with count(); the test the wrong way round sends every other host to int()
M('c10-host-count-test-inverted', 'C10', 'R6', U, "    pos = host.rfind(':')\n    if (pos == -1) or (pos != host.find(':')):\n",
  "    if host.count(':') == 1:\n", also=('C09', 'C06'))
# `acc = acc + <piece>` for `acc += <piece>` (refactor_fuzz variant augassign); the remainder starts one character late / the literal arm drops the '%'
M('c10-selfadd-rest-from-3', 'C10', 'R4', U, _TRY_BA,
  "        try:\n            decoded_uri = decoded_uri + (_HEX_TO_BYTE[token_partial] + token[3:])\n        except KeyError:\n"
  "            decoded_uri = decoded_uri + (b'%' + token)\n", also=('C08',))
M('c10-selfadd-literal-arm-drops-percent', 'C10', 'R4', U, _TRY_INLINE,
  "            try:\n                reencoded_uri = reencoded_uri + (_HEX_TO_BYTE[token_partial] + token[2:])\n            except KeyError:\n"
  "                reencoded_uri = reencoded_uri + token\n", also=('C08',))

# ---------------------------------------------------------------- wave 11
# R4 memo keys (seed s11-c10-2): decode() remembers recent answers in a module-level table; the body from the
# re-encoding on is moved verbatim into _decode_escaped().  The answer depends on unquote_plus, the key does not:
# decode('a+b%3Dc') then decode('a+b%3Dc', unquote_plus=False) == 'a b=c'.
_W11_TABLE = {'file': U, 'old': "\ndef decode(encoded_uri: str, unquote_plus: bool = True) -> str:\n",
              'new': "_DECODE_CACHE: Dict[str, str] = {}\n_DECODE_CACHE_MAX_ITEMS = 1024\n_DECODE_CACHE_MAX_LEN = 128\n\n\n"
                     "def decode(encoded_uri: str, unquote_plus: bool = True) -> str:\n"}
_W11_NOTE = "    # NOTE(kgriffs): Clients should never submit a URI that has\n    # unescaped non-ASCII chars in them, but just in case they\n"
_W11_HELPER = "\n\ndef _decode_escaped(decoded_uri: str) -> str:\n" + _W11_NOTE
M2('c10-w11-decode-memo-keyed-by-input-only', 'C10', 'R4', [_W11_TABLE, {'file': U, 'old': _W11_NOTE, 'new':
    "    cacheable = len(encoded_uri) <= _DECODE_CACHE_MAX_LEN\n    if cacheable:\n        cached = _DECODE_CACHE.get(encoded_uri)\n"
    "        if cached is not None:\n            return cached\n\n    decoded_uri = _decode_escaped(decoded_uri)\n\n    if cacheable:\n"
    "        if len(_DECODE_CACHE) >= _DECODE_CACHE_MAX_ITEMS:\n            _DECODE_CACHE.clear()\n        _DECODE_CACHE[encoded_uri] = decoded_uri\n\n"
    "    return decoded_uri\n" + _W11_HELPER}], also=('C08', 'C19'))
# the same memo with a local for the answer and a once-bound key local
M2('c10-w11-decode-memo-key-local-input-only', 'C10', 'R4', [_W11_TABLE, {'file': U, 'old': _W11_NOTE, 'new':
    "    key = encoded_uri\n    cached = _DECODE_CACHE.get(key)\n    if cached is not None:\n        return cached\n\n"
    "    result = _decode_escaped(decoded_uri)\n    _DECODE_CACHE[key] = result\n    return result\n" + _W11_HELPER}], also=('C08', 'C19'))
# the memo is filled only by the query-string setting but read by every call: the path setting gets the '+'-replaced answer
M2('c10-w11-decode-memo-store-guarded-read-not', 'C10', 'R4', [_W11_TABLE, {'file': U, 'old': _W11_NOTE, 'new':
    "    cached = _DECODE_CACHE.get(encoded_uri)\n    if cached is not None:\n        return cached\n\n"
    "    result = _decode_escaped(decoded_uri)\n    if unquote_plus:\n        _DECODE_CACHE[encoded_uri] = result\n    return result\n" + _W11_HELPER}],
   also=('C08', 'C19'))

# R5 find-loop form of the already-escaped scan (seed s11-c15-2): the slice after the % is tested with a test that is
# also true for a shorter slice, the length requirement is gone: encode_check_escaped('/sale/100%') is returned unchanged
_W11_SPLIT_SCAN = ("            tokens = uri.split('%')\n            for token in tokens[1:]:\n                hex_octet = token[:2]\n\n"
                   "                if not len(hex_octet) == 2:\n                    break\n\n"
                   "                if not (hex_octet[0] in _HEX_DIGITS and hex_octet[1] in _HEX_DIGITS):\n                    break\n")


def _w11_find_scan(test):
    return ("            pos = uri.find('%')\n            while pos != -1:\n" + test +
            "                    break\n\n                pos = uri.find('%', pos + 3)\n")


M('c10-w11-find-scan-rstrip-no-length', 'C10', 'R5', U, _W11_SPLIT_SCAN,
  _w11_find_scan("                if uri[pos + 1 : pos + 3].rstrip(_HEX_DIGITS):\n"), also=('C15',))
M('c10-w11-find-scan-all-no-length', 'C10', 'R5', U, _W11_SPLIT_SCAN,
  _w11_find_scan("                if not all(c in _HEX_DIGITS for c in uri[pos + 1 : pos + 3]):\n"), also=('C15',))
M('c10-w11-find-scan-length-wrong-way', 'C10', 'R5', U, _W11_SPLIT_SCAN,
  _w11_find_scan("                octet = uri[pos + 1 : pos + 3]\n                if len(octet) > 2 or octet.strip(_HEX_DIGITS) != '':\n"), also=('C15',))
