"""Mutation operators for C11 (content negotiation, handler resolution)."""

from .mutants import M, M2

MT = 'falcon/util/mediatypes.py'
HD = 'falcon/media/handlers.py'
RQ = 'falcon/request.py'
ARQ = 'falcon/asgi/request.py'

# ----------------------------------------------------------------------- R1
M('c11-score-swap-main-sub', 'C11', 'R1', MT,
  "return (main_matches, sub_matches, exact_match, len(matching), self.quality)",
  "return (sub_matches, main_matches, exact_match, len(matching), self.quality)")
M('c11-score-swap-exact-count', 'C11', 'R1', MT,
  "return (main_matches, sub_matches, exact_match, len(matching), self.quality)",
  "return (main_matches, sub_matches, len(matching), exact_match, self.quality)")
M('c11-score-q-first', 'C11', 'R1', MT,
  "return (main_matches, sub_matches, exact_match, len(matching), self.quality)",
  "return (self.quality, main_matches, sub_matches, exact_match, len(matching))")
M('c11-exact-polarity', 'C11', 'R1', MT,
  "exact_match = 0 if mr_pnames ^ mt_pnames else 1", "exact_match = 1 if mr_pnames ^ mt_pnames else 0")
M('c11-exact-uses-intersection', 'C11', 'R1', MT,
  "exact_match = 0 if mr_pnames ^ mt_pnames else 1", "exact_match = 1 if mr_pnames & mt_pnames else 0")
M('c11-wildcard-main-scores-high', 'C11', 'R1', MT,
  """        if self.main_type == '*' or media_type.main_type == '*':
            main_matches = 0
""", """        if self.main_type == '*' or media_type.main_type == '*':
            main_matches = 2
""")
M('c11-param-mismatch-continues', 'C11', 'R1', MT,
  """            if self.params[pname] != media_type.params[pname]:
                return self._NOT_MATCHING
""", """            if self.params[pname] != media_type.params[pname]:
                continue
""")
M('c11-main-mismatch-flipped', 'C11', 'R1', MT,
  "elif self.main_type != media_type.main_type:", "elif self.main_type == media_type.main_type:")
M('c11-sentinel-quality', 'C11', 'R1', MT,
  "_NOT_MATCHING = (-1, -1, -1, -1, 0.0)", "_NOT_MATCHING = (-1, -1, -1, -1, -1.0)")
M('c11-sentinel-outranks', 'C11', 'R1', MT,
  "_NOT_MATCHING = (-1, -1, -1, -1, 0.0)", "_NOT_MATCHING = (0, 0, 1, 0, 0.0)")
M('c11-quality-min', 'C11', 'R1', MT,
  """    most_specific = max(
        media_range.match_score(parsed_media_type)""", """    most_specific = min(
        media_range.match_score(parsed_media_type)""")
M('c11-quality-first-component', 'C11', 'R1', MT,
  "return most_specific[-1]", "return most_specific[0]")
M('c11-best-match-nonstrict', 'C11', 'R1', MT,
  "if best_quality > 0.0:", "if best_quality >= 0.0:")
M('c11-best-match-key-name', 'C11', 'R1', MT,
  "key=lambda mt_quality: mt_quality[1],", "key=lambda mt_quality: mt_quality[0],")
M('c11-best-match-unguarded', 'C11', 'R1', MT,
  """        if best_quality > 0.0:
            return matching
""", """        return matching
""")

# look-alikes of the exact-parameter test (seeded s3-c11-1): equal SIZES are not equal name sets; one-way inclusion is
# not equality.  R1 evaluates the component on a bounded model of both name sets and reports a concrete pair.
_EXACT = "exact_match = 0 if mr_pnames ^ mt_pnames else 1"
M('c11-exact-by-size', 'C11', 'R1', MT, _EXACT, "exact_match = 1 if len(mr_pnames) == len(mt_pnames) else 0")
M('c11-exact-by-size-at-most', 'C11', 'R1', MT, _EXACT, "exact_match = 1 if len(mr_pnames) <= len(mt_pnames) else 0")
M('c11-exact-by-size-difference', 'C11', 'R1', MT, _EXACT, "exact_match = 0 if len(self.params) - len(media_type.params) else 1")
M('c11-exact-one-way-inclusion', 'C11', 'R1', MT, _EXACT, "exact_match = 1 if mr_pnames <= mt_pnames else 0")
M('c11-exact-by-size-branches', 'C11', 'R1', MT, _EXACT,
  "if len(mr_pnames) != len(mt_pnames):\n            exact_match = 0\n        else:\n            exact_match = 1")
# negative controls verified by hand with --root (must stay silent): `1 if mr_pnames == mt_pnames else 0`,
# `1 if not (mr_pnames ^ mt_pnames) else 0`, `int(mr_pnames == mt_pnames)`, `a <= b and b <= a`, `len(a ^ b) == 0`,
# `self.params.keys() == media_type.params.keys()`, `len(a | b) == len(a & b)`, if/else assigning 0/1 on `a ^ b`.

# several returns of a real score: every one of them is held to the component roles (seeded s2-c11-1).  The PERF
# early return for parameter-less ranges states "exact parameter match" as a literal although only one side is
# known to be empty.
_EARLY = """        mr_pnames = frozenset(self.params)
        mt_pnames = frozenset(media_type.params)
"""


def _early(guard, ret):
    return "        if %s:\n            return %s\n\n" % (guard, ret) + _EARLY


M('c11-early-return-bare-range-exact', 'C11', 'R1', MT, _EARLY,
  _early("not self.params", "(main_matches, sub_matches, 1, 0, self.quality)"))
M('c11-early-return-bare-type-exact', 'C11', 'R1', MT, _EARLY,
  _early("not media_type.params", "(main_matches, sub_matches, 1, 0, self.quality)"))
M('c11-early-return-either-empty-exact', 'C11', 'R1', MT, _EARLY,
  _early("not self.params or not media_type.params", "(main_matches, sub_matches, 1, 0, self.quality)"))
M('c11-early-return-components-swapped', 'C11', 'R1', MT, _EARLY,
  _early("not self.params and not media_type.params", "(sub_matches, main_matches, 1, 0, self.quality)"))
M('c11-early-return-wrong-literal', 'C11', 'R1', MT, _EARLY,
  _early("not self.params and not media_type.params", "(main_matches, sub_matches, 0, 0, self.quality)"))
M('c11-early-return-literal-main', 'C11', 'R1', MT, _EARLY,
  _early("not self.params and not media_type.params", "(1, sub_matches, 1, 0, self.quality)"))
M('c11-early-return-literal-quality', 'C11', 'R1', MT, _EARLY,
  _early("not self.params and not media_type.params", "(main_matches, sub_matches, 1, 0, 1.0)"))
M('c11-early-return-unguarded-count', 'C11', 'R1', MT,
  "        matching = mr_pnames & mt_pnames\n",
  "        if not mr_pnames ^ mt_pnames:\n            return (main_matches, sub_matches, 1, 0, self.quality)\n"
  "        matching = mr_pnames & mt_pnames\n")

# main type / subtype, decided on the finite domain {'*', 'a', 'b'} (seeded s5-c11-3): a wildcard on EITHER side matches -
# the candidates of best_match() are the registered handler keys, so a key 'text/*' has to answer for 'text/csv'.  The
# "simplified" membership form honours the wildcard of the range only.
_LADDER = """        if self.main_type == '*' or media_type.main_type == '*':
            main_matches = 0
        elif self.main_type != media_type.main_type:
            return self._NOT_MATCHING
        else:
            main_matches = 1

        if self.subtype == '*' or media_type.subtype == '*':
            sub_matches = 0
        elif self.subtype != media_type.subtype:
            return self._NOT_MATCHING
        else:
            sub_matches = 1
"""
M('c11-w5-type-candidate-wildcard-dropped', 'C11', 'R1', MT, _LADDER, """        if self.main_type not in ('*', media_type.main_type):
            return self._NOT_MATCHING
        if self.subtype not in ('*', media_type.subtype):
            return self._NOT_MATCHING

        # NOTE: Matches involving a wildcard are prioritized lower.
        main_matches = 0 if self.main_type == '*' else 1
        sub_matches = 0 if self.subtype == '*' else 1
""")
M('c11-w5-type-main-candidate-wildcard-dropped', 'C11', 'R1', MT,
  "        if self.main_type == '*' or media_type.main_type == '*':\n", "        if self.main_type == '*':\n")
M('c11-w5-type-candidate-wildcard-scores-exact', 'C11', 'R1', MT, _LADDER, """        if self.main_type not in ('*', media_type.main_type) and media_type.main_type != '*':
            return self._NOT_MATCHING
        if self.subtype not in ('*', media_type.subtype) and media_type.subtype != '*':
            return self._NOT_MATCHING

        main_matches = 0 if self.main_type == '*' else 1
        sub_matches = 0 if self.subtype == '*' else 1
""")
M('c11-w5-type-late-subtype-check-ignores-candidate-wildcard', 'C11', 'R1', MT,
  "        return (main_matches, sub_matches, exact_match, len(matching), self.quality)\n",
  "        if self.subtype != media_type.subtype and self.subtype != '*':\n            return self._NOT_MATCHING\n"
  "        return (main_matches, sub_matches, exact_match, len(matching), self.quality)\n")
# negative controls verified by hand with --root (must stay silent): `'*' not in (self.X, media_type.X) and self.X !=
# media_type.X` early returns + `0 if '*' in (...) else 1`; equal-and-concrete tested first; the subtype block first; the
# components computed first and the mismatch tested as `if main_matches and self.main_type != media_type.main_type`; the values
# 1/2 instead of 0/1; the whole ladder moved behind the parameter loop.  Unknown idiom (exit 2): startswith() on a type token.

# ----------------------------------------------------------------------- R2
M('c11-float-valueerror-unwrapped', 'C11', 'R2', MT,
  "except (TypeError, ValueError) as ex:", "except TypeError as ex:")
M('c11-q-range-dropped', 'C11', 'R2', MT,
  "if not (0.0 <= q <= 1.0) or not math.isfinite(q):", "if not math.isfinite(q):")
M('c11-q-upper-bound-only', 'C11', 'R2', MT,
  "if not (0.0 <= q <= 1.0) or not math.isfinite(q):", "if q > 1.0 or not math.isfinite(q):")
M('c11-q-check-removed', 'C11', 'R2', MT,
  """        if not (0.0 <= q <= 1.0) or not math.isfinite(q):
            raise errors.InvalidMediaRange(cls._Q_VALUE_ERROR_MESSAGE)
""", "")
M('c11-plain-valueerror', 'C11', 'R2', MT,
  "raise errors.InvalidMediaType('The media type value must contain type/subtype.')",
  "raise ValueError('The media type value must contain type/subtype.')")
M('c11-invalid-type-not-valueerror', 'C11', 'R2', 'falcon/errors.py',
  "class InvalidMediaType(ValueError):", "class InvalidMediaType(Exception):", also=('C09',))

# ----------------------------------------------------------------------- R3
M('c11-setitem-no-clear', 'C11', 'R3', HD,
  """        #   replaced.
        self._resolve.cache_clear()  # type: ignore[attr-defined]
""", """        #   replaced.
""")
M('c11-delitem-no-clear', 'C11', 'R3', HD,
  """        #   to a cached handler that was removed.
        self._resolve.cache_clear()  # type: ignore[attr-defined]
""", """        #   to a cached handler that was removed.
""")
M('c11-setitem-clear-before-write', 'C11', 'R3', HD,
  """        super().__setitem__(key, value)

        # NOTE(kgriffs): When the mapping changes, we do not want to use a
        #   cached handler from the previous mapping, in case it was
        #   replaced.
        self._resolve.cache_clear()  # type: ignore[attr-defined]
""", """        self._resolve.cache_clear()  # type: ignore[attr-defined]
        super().__setitem__(key, value)
""")
M('c11-delitem-clear-only-if-empty', 'C11', 'R3', HD,
  """        #   to a cached handler that was removed.
        self._resolve.cache_clear()  # type: ignore[attr-defined]
""", """        #   to a cached handler that was removed.
        if not self.data:
            self._resolve.cache_clear()  # type: ignore[attr-defined]
""")
M('c11-copy-shares-resolver', 'C11', 'R3', HD,
  """        handlers_cls = type(self)
        return handlers_cls(self.data)
""", """        handlers_cls = type(self)
        new = handlers_cls(self.data)
        new._resolve = self._resolve
        return new
""")
M('c11-copy-via-userdict', 'C11', 'R3', HD,
  """        handlers_cls = type(self)
        return handlers_cls(self.data)
""", """        return super().copy()
""")
M('c11-fast-clear-bypasses-dunders', 'C11', 'R3', HD,
  """    def copy(self) -> Handlers:
        \"\"\"Create a shallow copy""", """    def clear(self) -> None:
        self.data.clear()

    def copy(self) -> Handlers:
        \"\"\"Create a shallow copy""")
M('c11-fast-update-bypasses-dunders', 'C11', 'R3', HD,
  """    def copy(self) -> Handlers:
        \"\"\"Create a shallow copy""", """    def update(self, other=(), **kwargs) -> None:  # type: ignore[override]
        self.data.update(other, **kwargs)

    def copy(self) -> Handlers:
        \"\"\"Create a shallow copy""")
M('c11-pop-direct', 'C11', 'R3', HD,
  """    def copy(self) -> Handlers:
        \"\"\"Create a shallow copy""", """    def pop(self, key, *args):  # type: ignore[override]
        return self.data.pop(key, *args)

    def copy(self) -> Handlers:
        \"\"\"Create a shallow copy""")
M('c11-setitem-not-overridden', 'C11', 'R3', HD,
  "    def __setitem__(self, key: str, value: BaseHandler) -> None:", "    def _set(self, key: str, value: BaseHandler) -> None:")

# bulk writers of self.data (seeded s2-c11-2): dict.update() & co. can store some items and then raise, so the
# cache_clear() has to be reached on the exceptional exits too
_BEFORE_IOR = "    def __ior__(self, other: Any) -> Handlers:  # type: ignore[override,misc]\n"


def _method(text):
    return text + "\n" + _BEFORE_IOR


M('c11-bulk-update-clear-on-success-only', 'C11', 'R3', HD, _BEFORE_IOR, _method("""    def update(self, *args: Any, **kwargs: Any) -> None:  # type: ignore[override]
        self.data.update(*args, **kwargs)
        self._resolve.cache_clear()  # type: ignore[attr-defined]
"""))
M('c11-bulk-update-clear-before-write', 'C11', 'R3', HD, _BEFORE_IOR, _method("""    def update(self, *args: Any, **kwargs: Any) -> None:  # type: ignore[override]
        self._resolve.cache_clear()  # type: ignore[attr-defined]
        self.data.update(*args, **kwargs)
"""))
M('c11-bulk-update-clear-in-else', 'C11', 'R3', HD, _BEFORE_IOR, _method("""    def update(self, *args: Any, **kwargs: Any) -> None:  # type: ignore[override]
        try:
            self.data.update(*args, **kwargs)
        except TypeError:
            raise
        else:
            self._resolve.cache_clear()  # type: ignore[attr-defined]
"""))
M('c11-bulk-update-unbound-dict', 'C11', 'R3', HD, _BEFORE_IOR, _method("""    def update(self, *args: Any, **kwargs: Any) -> None:  # type: ignore[override]
        dict.update(self.data, *args, **kwargs)
        self._resolve.cache_clear()  # type: ignore[attr-defined]
"""))
M('c11-bulk-update-store-loop', 'C11', 'R3', HD, _BEFORE_IOR, _method("""    def update(self, other: Any = (), **kwargs: Any) -> None:  # type: ignore[override]
        for key, value in other.items():
            self.data[key] = value
        self._resolve.cache_clear()  # type: ignore[attr-defined]
"""))
M('c11-ior-merge-clear-on-success-only', 'C11', 'R3', HD, """        self.update(other)
        return self
""", """        self.data |= other
        self._resolve.cache_clear()  # type: ignore[attr-defined]
        return self
""")
M('c11-ior-super-clear-on-success-only', 'C11', 'R3', HD, """        self.update(other)
        return self
""", """        super().__ior__(other)
        self._resolve.cache_clear()  # type: ignore[attr-defined]
        return self
""")
# negative controls verified by hand with --root (must stay silent): the same override with
# `try: self.data.update(...) finally: self._resolve.cache_clear()`, with `except BaseException: clear; raise`,
# with a loop over `dict(other, **kwargs).items()`, and with `self[key] = value` in the loop.

# ----------------------------------------------------------------------- R4
M('c11-resolver-star-not-defaulted', 'C11', 'R4', HD,
  "if media_type == '*/*' or not media_type:", "if not media_type:")
M('c11-resolver-empty-not-defaulted', 'C11', 'R4', HD,
  "if media_type == '*/*' or not media_type:", "if media_type == '*/*':")
M('c11-resolver-default-after-lookup', 'C11', 'R4', HD,
  """            if media_type == '*/*' or not media_type:
                media_type = default

            # PERF(kgriffs): Under CPython we do not need this shortcut to
            #   improve performance since most calls will be resolved by the
            #   LRU cache on resolve(). On the other hand, it doesn't hurt,
            #   and it certainly makes a difference under PyPy.
            try:
                handler = self.data[media_type]
            except KeyError:
                handler = None
""", """            try:
                handler = self.data[media_type]
            except KeyError:
                handler = None

            if media_type == '*/*' or not media_type:
                media_type = default
""")
M('c11-resolver-bestmatch-on-hit', 'C11', 'R4', HD,
  "            if not handler:\n", "            if handler:\n")
M('c11-bestmatch-args-swapped', 'C11', 'R4', HD,
  "result = mediatypes.best_match(all_media_types, media_type)", "result = mediatypes.best_match(media_type, all_media_types)")
M('c11-resolver-callsite-args-swapped', 'C11', 'R4', HD,
  "matched_type = _best_match(media_type, tuple(self.data.keys()))", "matched_type = _best_match(tuple(self.data.keys()), media_type)")
M('c11-resolver-raise-polarity', 'C11', 'R4', HD,
  "                    if raise_not_found:\n", "                    if not raise_not_found:\n")
M('c11-resolver-nomatch-falls-back', 'C11', 'R4', HD,
  "                    return None, None, None\n", "                    matched_type = default\n")
M('c11-resolver-always-raises', 'C11', 'R4', HD,
  """                    if raise_not_found:
                        raise errors.HTTPUnsupportedMediaType(
                            description='{0} is an unsupported media type.'.format(
                                media_type
                            )
                        )
""", """                    raise errors.HTTPUnsupportedMediaType(
                        description='{0} is an unsupported media type.'.format(
                            media_type
                        )
                    )
""")

# the answer is "the designated handler or a 415" (seeded s4-c11-2): the candidates of best_match() are the REGISTERED keys,
# so a key without '/' raises InvalidMediaType (parent of InvalidMediaRange); the bridge helper has to swallow both
_EXC = """    except ValueError:
        pass

    return result
"""
M('c11-bridge-catches-range-only', 'C11', 'R4', HD, _EXC, _EXC.replace("ValueError", "errors.InvalidMediaRange"))
M('c11-bridge-catches-type-error', 'C11', 'R4', HD, _EXC, _EXC.replace("ValueError", "TypeError"))
M('c11-bridge-unprotected', 'C11', 'R4', HD, """    result = None

    try:
        # NOTE(jmvrbanac): Mimeparse will return an empty string if it can
        # parse the media type, but cannot find a suitable type.
        result = mediatypes.best_match(all_media_types, media_type)
    except ValueError:
        pass

    return result
""", """    return mediatypes.best_match(all_media_types, media_type)
""")
M('c11-bridge-bad-key-is-400', 'C11', 'R4', HD, _EXC, """    except errors.InvalidMediaRange:
        pass
    except errors.InvalidMediaType as ex:
        raise errors.HTTPBadRequest(description=str(ex)) from ex

    return result
""")
M('c11-resolver-inlined-range-only', 'C11', 'R4', HD,
  "                matched_type = _best_match(media_type, tuple(self.data.keys()))\n",
  "                try:\n"
  "                    matched_type = mediatypes.best_match(tuple(self.data.keys()), media_type)\n"
  "                except errors.InvalidMediaRange:\n"
  "                    matched_type = None\n")
# negative controls verified by hand with --root (must stay silent): `except (errors.InvalidMediaType, errors.InvalidMediaRange)`,
# `except errors.InvalidMediaType` (the parent class alone), `except Exception`, the seeded direct-return shape with
# `except ValueError: return None`, and the call inlined into the resolver under `except ValueError`.

# ----------------------------------------------------------------------- R8
# q never decides WHETHER a range matches (seeded s4-c04-2 / s4-c11-1): a q=0 range has to take part in the ranking and
# win by specificity, otherwise `application/json;q=0, */*` serves JSON.  Shared with C04 (default error serializer).
_MS = "    def match_score(self, media_type: _MediaType) -> Tuple[int, int, int, int, float]:\n"
_FINAL = "        return (main_matches, sub_matches, exact_match, len(matching), self.quality)\n"
M('c11-q0-range-never-matches', 'C11', 'R8', MT, _MS,
  _MS + "        if not self.quality:\n            return self._NOT_MATCHING\n\n", also=('C04',))
M('c11-q0-folded-into-main-mismatch', 'C11', 'R8', MT,
  "elif self.main_type != media_type.main_type:", "elif self.main_type != media_type.main_type or not self.quality:", also=('C04',))
M('c11-q0-checked-last-via-local', 'C11', 'R8', MT, _FINAL,
  "        acceptable = self.quality > 0.0\n        if not acceptable:\n            return self._NOT_MATCHING\n" + _FINAL, also=('C04',))
M('c11-score-only-when-q-positive', 'C11', 'R8', MT, _FINAL,
  "        if self.quality:\n    " + _FINAL + "        return self._NOT_MATCHING\n", also=('C04',))
M('c11-q0-concrete-range-never-matches', 'C11', 'R8', MT, _MS,
  _MS + "        if self.quality <= 0.0:\n            if self.main_type != '*':\n                return self._NOT_MATCHING\n\n", also=('C04',))
M('c11-q0-conditional-expression', 'C11', 'R8', MT, _FINAL,
  "        score = (main_matches, sub_matches, exact_match, len(matching), self.quality)\n"
  "        return score if self.quality else self._NOT_MATCHING\n", also=('C04',))
_RANGES = """    return tuple(
        _MediaRange.parse(media_range) for media_range in _split_media_ranges(header)
    )
"""
_MAX = """    most_specific = max(
        media_range.match_score(parsed_media_type)
        for media_range in _parse_media_ranges(header)
    )
"""
_MAX_DEFAULT = """    most_specific = max(
        (
            media_range.match_score(parsed_media_type)
            for media_range in _parse_media_ranges(header)%s
        ),
        default=_MediaRange._NOT_MATCHING,
    )
"""
M2('c11-q0-ranges-dropped-when-parsing', 'C11', 'R8', [
    {'file': MT, 'old': _RANGES,
     'new': "    media_ranges = map(_MediaRange.parse, _split_media_ranges(header))\n"
            "    return tuple(media_range for media_range in media_ranges if media_range.quality)\n"},
    {'file': MT, 'old': _MAX, 'new': _MAX_DEFAULT % ''}], also=('C04',))
M2('c11-q0-ranges-filtered-when-parsing', 'C11', 'R8', [
    {'file': MT, 'old': _RANGES,
     'new': "    return tuple(filter(lambda mr: mr.quality > 0.0, map(_MediaRange.parse, _split_media_ranges(header))))\n"},
    {'file': MT, 'old': _MAX, 'new': _MAX_DEFAULT % ''}], also=('C04',))
M('c11-q0-ranges-skipped-when-scoring', 'C11', 'R8', MT, _MAX, _MAX_DEFAULT % "\n            if media_range.quality", also=('C04',))
# negative controls verified by hand with --root (must stay silent): `default=_MediaRange._NOT_MATCHING` alone in quality();
# the subtype block moved in front of the main-type block; `if self.main_type != media_type.main_type and '*' not in (...)`
# as an early return; `q = self.quality` bound first and returned as the last component; the mismatch tests inverted
# (`if a == b: ... else: return self._NOT_MATCHING`).

# ----------------------------------------------------------------------- R9
# one-sided case normalisation (seeded s4-c12-2): the dict lookup and match_score() compare case-sensitively, so folding
# the requested type (or the stored key) alone makes a key with a letter of the other case unreachable.  Shared with C12.
_DEFAULTED = """            if media_type == '*/*' or not media_type:
                media_type = default
"""
M('c11-resolver-lowercases-requested-type', 'C11', 'R9', HD, _DEFAULTED,
  _DEFAULTED + "\n            media_type = media_type.lower()\n", also=('C12',))
M('c11-resolver-casefolds-defaulted-type', 'C11', 'R9', HD, _DEFAULTED,
  "            media_type = (media_type if media_type and media_type != '*/*' else default).casefold()\n", also=('C12',))
M('c11-resolver-negotiates-lowercased', 'C11', 'R9', HD,
  "matched_type = _best_match(media_type, tuple(self.data.keys()))", "matched_type = _best_match(media_type.lower(), tuple(self.data.keys()))",
  also=('C12',))
M('c11-setitem-lowercases-key', 'C11', 'R9', HD,
  "        super().__setitem__(key, value)\n\n        # NOTE(kgriffs): When the mapping changes",
  "        super().__setitem__(key.lower(), value)\n\n        # NOTE(kgriffs): When the mapping changes", also=('C12',))
# negative controls verified by hand with --root (must stay silent): both edits together (`media_type = media_type.lower()` in
# the resolver AND `super().__setitem__(key.lower(), value)`); a lower-cased copy used only in the 415 description.
# Unknown idiom (exit 2): `media_type = media_type.strip()`, keys folded only inside the best-match call.

# the same fold applied to PIECES of the requested type (seeded s5-c11-1: "type/subtype are case-insensitive, parameters are not")
M('c11-w5-resolver-lowercases-type-part', 'C11', 'R9', HD, _DEFAULTED, _DEFAULTED + """
            if not media_type.islower():
                full_type, semicolon, params = media_type.partition(';')
                media_type = full_type.lower() + semicolon + params
""", also=('C12',))
M('c11-w5-resolver-lowercases-type-part-fstring', 'C11', 'R9', HD, _DEFAULTED, _DEFAULTED + """
            full_type, semicolon, params = media_type.partition(';')
            media_type = f'{full_type.lower()}{semicolon}{params}'
""", also=('C12',))
M('c11-w5-resolver-rejoins-lowercased-parts', 'C11', 'R9', HD, _DEFAULTED, _DEFAULTED + """
            media_type = '/'.join(part.lower() for part in media_type.split('/'))
""", also=('C12',))
M('c11-w5-resolver-casefolds-prefix-slice', 'C11', 'R9', HD, _DEFAULTED, _DEFAULTED + """
            cut = media_type.find(';')
            if cut >= 0:
                media_type = media_type[:cut].casefold() + media_type[cut:]
""", also=('C12',))
M('c11-w5-resolver-negotiates-lowercased-local', 'C11', 'R9', HD,
  "                matched_type = _best_match(media_type, tuple(self.data.keys()))",
  "                wanted = media_type.lower()\n                matched_type = _best_match(wanted, tuple(self.data.keys()))", also=('C12',))
# negative controls verified by hand with --root (must stay silent): the partition/lower/re-assemble edit in the resolver AND
# the same on `key` in __setitem__; `.lower()` only inside the 415 description; a lower-cased local used only in a test.
# Unknown idiom (exit 2): `media_type = media_type.partition(';')[0]`, `media_type, _, _ = media_type.partition(';')`,
# `media_type = _normalize(media_type)`.

# ----------------------------------------------------------------------- R5
M('c11-client-accepts-true-on-error', 'C11', 'R5', RQ,
  """        except ValueError:
            return False
""", """        except ValueError:
            return True
""")
M('c11-client-prefers-wrong-class', 'C11', 'R5', RQ,
  """        except ValueError:
            # Value for the accept header was not formatted correctly
""", """        except TypeError:
            # Value for the accept header was not formatted correctly
""", also=('C09',))
M('c11-client-prefers-star-on-error', 'C11', 'R5', RQ,
  """            # Value for the accept header was not formatted correctly
            preferred_type = ''
""", """            # Value for the accept header was not formatted correctly
            preferred_type = '*/*'
""")
M('c11-client-accepts-unprotected', 'C11', 'R5', RQ,
  """        try:
            return mediatypes.quality(media_type, accept) != 0.0
        except ValueError:
            return False
""", """        return mediatypes.quality(media_type, accept) != 0.0
""", also=('C09',))

# ----------------------------------------------------------------------- R10
# shortcuts around the negotiation (seeded s5-c11-2): "the header CONTAINS */*" is not "the header IS */*" -
# 'text/csv;q=0, */*' and '*/*;q=0' refuse what the fast path accepts
_FAST = """        if (accept == media_type) or (accept == '*/*'):
            return True
"""
_QUALITY = "mediatypes.quality(media_type, accept) != 0.0"
M('c11-w5-accepts-catchall-substring', 'C11', 'R10', RQ, _FAST, _FAST + "\n        if '*/*' in accept:\n            return True\n")
M('c11-w5-accepts-catchall-suffix', 'C11', 'R10', RQ, _FAST, _FAST + "\n        if accept.endswith('*/*'):\n            return True\n")
M('c11-w5-accepts-substring-in-fast-path', 'C11', 'R10', RQ,
  "if (accept == media_type) or (accept == '*/*'):", "if (accept == media_type) or ('*/*' in accept):")
M('c11-w5-accepts-substring-or-negotiation', 'C11', 'R10', RQ, "return " + _QUALITY, "return '*/*' in accept or " + _QUALITY)
M('c11-w5-accepts-range-member-of-split', 'C11', 'R10', RQ, _FAST,
  _FAST + "\n        for media_range in accept.split(','):\n            if media_range.strip() == '*/*':\n                return True\n")
M('c11-w5-accepts-negative-substring', 'C11', 'R10', RQ, _FAST,
  _FAST + "\n        if media_type not in accept and '*' not in accept:\n            return False\n")
M('c11-w5-prefers-substring-shortcut', 'C11', 'R10', RQ,
  "        try:\n            # NOTE(kgriffs): best_match will return '' if no match is found\n",
  "        for candidate in media_types:\n            if candidate in self.accept:\n                return candidate\n\n"
  "        try:\n            # NOTE(kgriffs): best_match will return '' if no match is found\n")
M('c11-w5-accepts-quality-args-swapped', 'C11', 'R10', RQ, _QUALITY, "mediatypes.quality(accept, media_type) != 0.0")
M('c11-w5-accepts-quality-nonstrict', 'C11', 'R10', RQ, _QUALITY, "mediatypes.quality(media_type, accept) >= 0.0")
# negative controls verified by hand with --root (must stay silent): `if accept in (media_type, '*/*')`; the fast path removed;
# `return accept == media_type or accept == '*/*' or quality(...) > 0.0` inside the try; an `accepted` local assigned in the
# branches and returned once; `bool(quality(media_type, header))` with `header = accept`; a module constant for '*/*'; the
# guard inverted (`if accept != media_type and accept != '*/*': <negotiate>` / `return True`).  Unknown idiom (exit 2):
# `accept.strip() == '*/*'` (an equality of a rewritten header).

M('c11-cache-old-stdlib-parser', 'C11', 'R6', 'falcon/util/mediatypes.py',
  "def _parse_header_old_stdlib(line: str)", "@functools.lru_cache()\ndef _parse_header_old_stdlib(line: str)")

# ----------------------------------------------------------------------- R7
# the resolver must be asked about the content type as received (seeded s3-c11-3: WSGI get_media() looked the handler up
# by the bare type "to avoid resolver cache churn", ASGI kept the full value)
_ARGS = "self.content_type, self.options.default_media_type\n"
M('c11-getmedia-wsgi-bare-type', 'C11', 'R7', RQ, """        handler, _, _ = self.options.media_handlers._resolve(
            self.content_type, self.options.default_media_type
        )
""", """        content_type = self.content_type
        handler, _, _ = self.options.media_handlers._resolve(
            content_type and content_type.partition(';')[0].strip(),
            self.options.default_media_type,
        )
""")
M('c11-getmedia-asgi-bare-type', 'C11', 'R7', ARQ, _ARGS,
  "self.content_type and self.content_type.partition(';')[0].strip(), self.options.default_media_type\n")
M('c11-getmedia-wsgi-split', 'C11', 'R7', RQ, _ARGS,
  "(self.content_type or '').split(';')[0], self.options.default_media_type\n")
M('c11-getmedia-wsgi-parse-header', 'C11', 'R7', RQ, _ARGS,
  "mediatypes.parse_header(self.content_type or '')[0], self.options.default_media_type\n")
M('c11-getmedia-wsgi-lowered-local', 'C11', 'R7', RQ, """        handler, _, _ = self.options.media_handlers._resolve(
            self.content_type, self.options.default_media_type
        )
""", """        media_type = self.content_type
        if media_type:
            media_type = media_type.lower()
        handler, _, _ = self.options.media_handlers._resolve(
            media_type, self.options.default_media_type
        )
""")
M('c11-getmedia-default-ignored', 'C11', 'R7', RQ, _ARGS, "self.content_type, MEDIA_JSON\n")
M('c11-getmedia-asgi-no-415', 'C11', 'R7', ARQ, _ARGS, "self.content_type, self.options.default_media_type, False\n")
M('c11-render-body-bare-type', 'C11', 'R7', 'falcon/response.py', _ARGS,
  "self.content_type.partition(';')[0], self.options.default_media_type\n")
# negative controls verified by hand with --root (must stay silent): `ct = self.content_type` then `_resolve(ct, ...)`;
# `opts = self.options; handlers = opts.media_handlers; handlers._resolve(self.content_type, opts.default_media_type)`;
# keyword arguments in another order; a transformation of the local AFTER the call.  Unknown idioms (exit 2, no
# violation): `self.content_type or <default>`, `.strip()` alone, `self.get_header('Content-Type')`.

# ----------------------------------------------------------------------- R1 (dict views; seeded s6-c11-3)
# the frozensets replaced by dict views; the exact flag becomes a ONE-WAY inclusion of the items (subset instead of equality)
_PSETS = """        mr_pnames = frozenset(self.params)
        mt_pnames = frozenset(media_type.params)

        exact_match = 0 if mr_pnames ^ mt_pnames else 1

        matching = mr_pnames & mt_pnames
        for pname in matching:
            if self.params[pname] != media_type.params[pname]:
                return self._NOT_MATCHING
"""
_PVIEWS = """        mr_params = self.params
        mt_params = media_type.params

        matching = mr_params.keys() & mt_params.keys()
        for pname in matching:
            if mr_params[pname] != mt_params[pname]:
                return self._NOT_MATCHING

        exact_match = %s
"""
M('c11-exact-items-subset', 'C11', 'R1', MT, _PSETS, _PVIEWS % "int(mr_params.items() <= mt_params.items())")
M('c11-exact-items-superset', 'C11', 'R1', MT, _PSETS, _PVIEWS % "1 if mr_params.items() >= mt_params.items() else 0")
M('c11-exact-keys-view-subset', 'C11', 'R1', MT, _PSETS, _PVIEWS % "int(not (mr_params.keys() - mt_params.keys()))")
M('c11-exact-items-disjoint', 'C11', 'R1', MT, _PSETS, _PVIEWS % "int(not mr_params.items().isdisjoint(mt_params.items()))")
# negative controls verified by hand with --root (silent): `int(mr_params.items() == mt_params.items())`,
# `int(self.params == media_type.params)`, `int(mr_params.keys() == mt_params.keys())`, `int(not (mr_params.items() ^ mt_params.items()))`

# ----------------------------------------------------------------------- R10 (one case form; seeded s6-c11-1)
_ACC = "        accept = self.accept\n\n        # PERF(kgriffs): Usually the following will be true, so\n"
M2('c11-accept-lowered-both-methods', 'C11', 'R10', [
    {'file': RQ, 'old': _ACC, 'new': _ACC.replace("self.accept\n", "self.accept.lower()\n")},
    {'file': RQ, 'old': "            preferred_type = mediatypes.best_match(media_types, self.accept)\n",
     'new': "            preferred_type = mediatypes.best_match(media_types, self.accept.lower())\n"}])
M('c11-accepts-header-casefold-inline', 'C11', 'R10', RQ,
  "            return mediatypes.quality(media_type, accept) != 0.0\n",
  "            return mediatypes.quality(media_type, accept.casefold()) != 0.0\n")
M('c11-accepts-candidate-lowered-only', 'C11', 'R10', RQ,
  "            return mediatypes.quality(media_type, accept) != 0.0\n",
  "            return mediatypes.quality(media_type.lower(), accept) != 0.0\n")
M('c11-prefers-candidates-lowered-only', 'C11', 'R10', RQ,
  "            preferred_type = mediatypes.best_match(media_types, self.accept)\n",
  "            preferred_type = mediatypes.best_match([t.lower() for t in media_types], self.accept)\n")
M('c11-accepts-parameter-rebound-lowered', 'C11', 'R10', RQ, _ACC, "        media_type = media_type.lower()\n" + _ACC)
# unknown idiom (exit 2, no violation), verified by hand: both sides folded the same way (parameter values would be
# compared case-insensitively - not decided)

# ----------------------------------------------------------------------- R4 (a) effective type of BOTH lookups (seeded s7-c11-1)
_DEF = "            if media_type == '*/*' or not media_type:\n                media_type = default\n"
M2('c11-resolver-bestmatch-keeps-star', 'C11', 'R4', [
    {'file': HD, 'old': _DEF, 'new': "            if media_type == '*/*' or not media_type:\n                lookup_type = default\n"
                                     "            else:\n                lookup_type = media_type\n"
                                     "            media_type = media_type or default\n"},
    {'file': HD, 'old': "handler = self.data[media_type]", 'new': "handler = self.data[lookup_type]"}])
M('c11-resolver-or-default-only', 'C11', 'R4', HD, _DEF, "            media_type = media_type or default\n")
M2('c11-resolver-exact-keeps-raw-type', 'C11', 'R4', [
    {'file': HD, 'old': _DEF, 'new': "            wanted = default if media_type == '*/*' or not media_type else media_type\n"},
    {'file': HD, 'old': "_best_match(media_type, tuple(self.data.keys()))", 'new': "_best_match(wanted, tuple(self.data.keys()))"}])
M2('c11-resolver-bestmatch-negotiates-default-always', 'C11', 'R4', [
    {'file': HD, 'old': "_best_match(media_type, tuple(self.data.keys()))", 'new': "_best_match(default, tuple(self.data.keys()))"}])
# negative controls verified by hand with --root (silent): `effective = default if (not media_type or media_type == '*/*') else
# media_type; media_type = effective`; both lookups on a local `effective` with media_type left as sent for the 415 text;
# `if media_type in (None, '', '*/*')`; `media_type = media_type or default` followed by `if media_type == '*/*': media_type =
# default`; `handler = self.data.get(media_type)`

# ----------------------------------------------------------------------- R11 the stored weight is the parsed float (seeded s7-c11-3)
_QRET = "        return cls(main_type, subtype, q, params)\n"
M('c11-q-rounded-at-store', 'C11', 'R11', MT, _QRET, "        return cls(main_type, subtype, round(q, 3), params)\n")
M('c11-q-rounded-at-parse', 'C11', 'R11', MT, "q = float(params.pop('q'))", "q = round(float(params.pop('q')), 3)")
M('c11-q-truncated-through-local', 'C11', None, MT, _QRET,
  "        weight = int(q * 1000) / 1000\n        return cls(main_type, subtype, weight, params)\n")
M('c11-q-rebound-scaled', 'C11', 'R11', MT, _QRET, "        q = math.floor(q * 100) / 100\n" + _QRET)
M('c11-q-text-cut-before-float', 'C11', 'R11', MT, "q = float(params.pop('q'))", "q = float(params.pop('q')[:5])")
M('c11-q-rounded-in-post-init', 'C11', 'R11', MT,
  "    @classmethod\n    def parse(cls, media_range: str) -> _MediaRange:\n",
  "    def __post_init__(self) -> None:\n        self.quality = round(self.quality, 3)\n\n"
  "    @classmethod\n    def parse(cls, media_range: str) -> _MediaRange:\n", also=('C19',))
# negative controls verified by hand with --root (silent): `weight = q; return cls(main_type, subtype, quality=weight,
# params=params)`; `q = float(params.pop('q').strip())`; `q_text = params.pop('q'); q = float(q_text)`; the range test
# rewritten as `q < 0.0 or q > 1.0 or math.isnan(q)`

# ----------------------------------------------------------------------- R12 consumers of a Handlers mapping ask the resolver (seeded s8-c11-1)
_SSE = ("            sse_handler, _, _ = self.resp_options.media_handlers._resolve(\n"
        "                MEDIA_JSON, MEDIA_JSON, raise_not_found=False\n            )\n")
M('c11-sse-handler-by-dict-get', 'C11', 'R12', 'falcon/asgi/app.py', _SSE,
  "            sse_handler = self.resp_options.media_handlers.get(MEDIA_JSON)\n")
M('c11-sse-handler-by-subscript-through-local', 'C11', 'R12', 'falcon/asgi/app.py', _SSE,
  "            handlers = self.resp_options.media_handlers\n"
  "            sse_handler = handlers[MEDIA_JSON] if MEDIA_JSON in handlers else None\n")
M('c11-param-as-json-handler-from-data', 'C11', 'R12', RQ,
  "        handler, _, _ = self.options.media_handlers._resolve(\n            MEDIA_JSON, MEDIA_JSON, raise_not_found=False\n        )\n",
  "        handler = self.options.media_handlers.data.get(MEDIA_JSON)\n", also=('C08',))
M('c11-error-serializer-handler-by-get', 'C11', 'R12', 'falcon/app_helpers.py',
  "        handler, _, _ = options.media_handlers._resolve(\n            preferred, MEDIA_JSON, raise_not_found=False\n        )\n",
  "        handler = options.media_handlers.get(preferred)\n", also=('C04',))
# negative controls verified by hand with --root (silent): `mh = self.resp_options.media_handlers; sse_handler, _, _ = mh._resolve(...)`;
# `ro = self.resp_options; ro.media_handlers._resolve(...)[0]`; `resp.options.media_handlers._resolve(...)`; `dict(self.ws_options.
# media_handlers)` (WebSocketOptions: a plain dict keyed by payload type); `for mt in options.media_handlers.keys()`.
# Passing a Handlers mapping on to a helper (`_keys(options.media_handlers)`) is an unknown idiom (exit 2)

# ----------------------------------------------------------------------- R13 every parsed parameter but q is matched (seeded s8-c11-2)
_QPOP = "        try:\n            q = float(params.pop('q'))\n"
M('c11-params-after-q-dropped', 'C11', 'R13', MT, _QPOP,
  "        names = list(params)\n        for name in names[names.index('q') + 1 :]:\n            del params[name]\n\n" + _QPOP)
M('c11-params-cut-at-q-by-slicing', 'C11', 'R13', MT, _QPOP,
  "        items = list(params.items())\n        qtext = params['q']\n"
  "        params = dict(items[: [k for k, _ in items].index('q')])\n        params['q'] = qtext\n" + _QPOP)
M('c11-params-loop-breaks-at-q', 'C11', 'R13', MT, _QPOP,
  "        kept = {}\n        for k, v in params.items():\n            kept[k] = v\n            if k == 'q':\n                break\n"
  "        params = kept\n" + _QPOP)
M('c11-q-left-among-params', 'C11', 'R13', MT, "q = float(params.pop('q'))", "q = float(params.get('q'))")
# negative controls verified by hand with --root (silent): `params = {k: v for k, v in params.items() if k != 'q'}` (q kept aside);
# `q = float(params['q'])` + `del params['q']`; `if params.get('q') is None: return cls(..., params=params)`;
# `dict(itertools.islice(params.items(), 50))`

# R14 an override of a mutating method of the mapping protocol still performs the change (sa-am01481)
HF = 'falcon/media/handlers.py'
M('c11-ior-is-a-no-op', 'C11', 'R14', HF, "        self.update(other)\n        return self\n", "        return self\n")
M('c11-ior-merges-into-a-copy', 'C11', 'R14', HF, "        self.update(other)\n        return self\n",
  "        merged = dict(self.data)\n        merged.update(other)\n        return self\n")
M('c11-delitem-only-clears-the-cache', 'C11', 'R14', HF,
  "    def __delitem__(self, key: str) -> None:\n        super().__delitem__(key)\n",
  "    def __delitem__(self, key: str) -> None:\n")
M('c11-setitem-skipped-for-known-instance-flag', 'C11', 'R14', HF,
  "        super().__setitem__(key, value)\n", "        if self._resolve is None:\n            super().__setitem__(key, value)\n")
# negative controls (exit 0): `if other: self.update(other)`; `for k, v in dict(other).items(): self[k] = v`; `self.data.update(other)` followed by
# cache_clear(); `UserDict.update(self, other)`; `if not other: return self` in front

# ---- wave 9: R15 one case form on both sides of the matcher (s9-c11-1)
MT = 'falcon/util/mediatypes.py'
# the seed: the candidate text is lower-cased before parsing, the range text is not
M('c11-candidate-lowercased-only', 'C11', 'R15', MT,
  "        return cls(*_parse_media_type_header(media_type))\n", "        return cls(*_parse_media_type_header(media_type.lower()))\n")
# variant: the other side, another fold
M('c11-range-casefolded-only', 'C11', 'R15', MT,
  "            main_type, subtype, params = _parse_media_type_header(media_range)\n",
  "            main_type, subtype, params = _parse_media_type_header(media_range.casefold())\n")
# variant: only the type / subtype pieces of the range are folded (after the shared parser)
M('c11-range-type-pieces-lowercased', 'C11', 'R15', MT,
  "            return cls(main_type, subtype, 1.0, params)\n", "            return cls(main_type.lower(), subtype.lower(), 1.0, params)\n")
# variant: one level up, in quality()
M('c11-quality-lowercases-candidate', 'C11', 'R15', MT,
  "    parsed_media_type = _parse_media_type(media_type)\n", "    parsed_media_type = _parse_media_type(media_type.lower())\n")
# negative controls (exit 0): both parse() lower-case; the fold inside the shared _parse_media_type_header; a local alias of the
# argument; a redundant `{k.lower(): v ...}` of the parameter NAMES on one side (parse_header lower-cases them already)

# ---- wave 9: R16 the lone-wildcard test sees the stripped member (s9-c11-2)
PH = "    full_type, params = parse_header(media_type)\n"
# the seed: members without parameters skip parse_header()
M('c11-wildcard-fastpath-unstripped', 'C11', 'R16', MT, PH,
  "    if ';' in media_type:\n        full_type, params = parse_header(media_type)\n    else:\n        full_type, params = media_type, {}\n")
# variant: stripped on one side only
M('c11-wildcard-fastpath-lstrip', 'C11', 'R16', MT, PH,
  "    if ';' in media_type:\n        full_type, params = parse_header(media_type)\n    else:\n        full_type, params = media_type.lstrip(), {}\n")
# variant: the type is cut off by hand, parse_header() only delivers the parameters
M('c11-wildcard-own-partition', 'C11', 'R16', MT, PH,
  "    full_type, _, _rest = media_type.partition(';')\n    params = parse_header(media_type)[1]\n")
# negative controls (exit 0): the fast path with `.strip()`; `media_type = media_type.strip()` first; the result through a local;
# `full_type in ('*',)`

# ---- R17 the default table only for `initial is None` (fix 2c28dbf)
HP = 'falcon/media/handlers.py'
INIT = """        handlers: Mapping[str, BaseHandler]
        if initial is not None:
            handlers = initial
        else:
            handlers = {
                MEDIA_JSON: JSONHandler(),
                MEDIA_MULTIPART: MultipartFormHandler(),
                MEDIA_URLENCODED: URLEncodedFormHandler(),
            }
"""
# the defect as it was: the defaults for every falsy `initial` (copy() of an emptied mapping repopulates)
M('c11-defaults-by-truthiness-or', 'C11', 'R17', HP, INIT, """        handlers: Mapping[str, BaseHandler] = initial or {
            MEDIA_JSON: JSONHandler(),
            MEDIA_MULTIPART: MultipartFormHandler(),
            MEDIA_URLENCODED: URLEncodedFormHandler(),
        }
""")
M('c11-defaults-by-truthiness-if-not', 'C11', 'R17', HP, INIT, """        handlers: Mapping[str, BaseHandler]
        if not initial:
            handlers = {
                MEDIA_JSON: JSONHandler(),
                MEDIA_MULTIPART: MultipartFormHandler(),
                MEDIA_URLENCODED: URLEncodedFormHandler(),
            }
        else:
            handlers = initial
""")
# variant: copy() hands nothing on (the copy of a customised mapping has the defaults)
M('c11-copy-without-data', 'C11', 'R17', HP, "        return handlers_cls(self.data)\n", "        return handlers_cls()\n")
# negative controls (exit 0): `if initial is None: <defaults> else: initial`; `initial if initial is not None else {...}`;
# `if initial is None: initial = {...}` + UserDict.__init__(self, initial); copy() through dict(self.data)

# ---- R18 header text is cut at , / ; only outside quoted strings (fix a004b1b)
# the defect as it was: the members by a plain split
M('c11-ranges-by-plain-split', 'C11', 'R18', MT,
  "        _MediaRange.parse(media_range) for media_range in _split_media_ranges(header)\n",
  "        _MediaRange.parse(media_range) for media_range in header.split(',')\n")
M('c11-splitter-fast-path-wrong-guard', 'C11', 'R18', MT,
  "    if '\"' not in header:\n        return header.split(',')\n", "    if ';' not in header:\n        return header.split(',')\n")
M('c11-splitter-cuts-inside-quotes', 'C11', 'R18', MT, "        elif char == ',' and not quoted:\n", "        elif char == ',':\n")
SPLOOP = """        if escaped:
            escaped = False
        elif quoted and char == '\\\\':
            escaped = True
        elif char == '"':
            quoted = not quoted
        elif char == ',' and not quoted:
"""
M('c11-splitter-no-escape-handling', 'C11', 'R18', MT, SPLOOP, """        if char == '"':
            quoted = not quoted
        elif char == ',' and not quoted:
""")
M('c11-splitter-escaped-quote-toggles', 'C11', 'R18', MT, SPLOOP, """        if char == '"':
            quoted = not quoted
            escaped = False
        elif escaped:
            escaped = False
        elif quoted and char == '\\\\':
            escaped = True
        elif char == ',' and not quoted:
""")
M('c11-splitter-escape-outside-quotes', 'C11', 'R18', MT, "        elif quoted and char == '\\\\':\n", "        elif char == '\\\\':\n")
# negative controls (exit 0): the arms reordered / nested (`elif quoted: if char == '\\\\'`); `not ('"' in header)`; `for char in header`
# with an own counter; the fast path removed altogether

# ---- wave 10: R19 negotiation reads the CURRENT Accept header (seeded change s10-c11-1)
RQ = 'falcon/request.py'
ARQ = 'falcon/asgi/request.py'
_ACC_W = ("        try:\n            return self.env['HTTP_ACCEPT'] or '*/*'\n        except KeyError:\n            return '*/*'\n")
_ACC_A = ("        try:\n            return self._asgi_headers[b'accept'].decode('latin1') or '*/*'\n        except KeyError:\n            return '*/*'\n")
# the seed: a `_cached_accept` slot filled on the first access
M2('c11-accept-memoised-on-first-access', 'C11', 'R19', [
    {'file': RQ, 'old': "        '_cached_access_route',\n", 'new': "        '_cached_accept',\n        '_cached_access_route',\n"},
    {'file': RQ, 'old': "        self._cached_access_route: Optional[List[str]] = None\n",
     'new': "        self._cached_accept: Optional[str] = None\n        self._cached_access_route: Optional[List[str]] = None\n"},
    {'file': RQ, 'old': _ACC_W, 'new': "        if self._cached_accept is None:\n            try:\n                self._cached_accept = self.env['HTTP_ACCEPT'] or '*/*'\n"
     "            except KeyError:\n                self._cached_accept = '*/*'\n\n        return self._cached_accept\n"}])
# variant: a snapshot taken by the constructor (the name does not say "cached")
M2('c11-accept-snapshot-in-constructor', 'C11', 'R19', [
    {'file': RQ, 'old': "        self._cached_access_route: Optional[List[str]] = None\n",
     'new': "        self._accept = env.get('HTTP_ACCEPT') or '*/*'\n        self._cached_access_route: Optional[List[str]] = None\n"},
    {'file': RQ, 'old': _ACC_W, 'new': "        return self._accept\n"}])
# variant: the ASGI twin memoises through a class-level default
M2('c11-asgi-accept-memoised', 'C11', 'R19', [
    {'file': ARQ, 'old': "    _cached_access_route: Optional[List[str]] = None\n",
     'new': "    _cached_accept: Optional[str] = None\n    _cached_access_route: Optional[List[str]] = None\n"},
    {'file': ARQ, 'old': _ACC_A, 'new': "        if self._cached_accept is None:\n            try:\n"
     "                self._cached_accept = self._asgi_headers[b'accept'].decode('latin1') or '*/*'\n"
     "            except KeyError:\n                self._cached_accept = '*/*'\n\n        return self._cached_accept\n"}])
# variant: the header is read through the memoised header copy (`self.headers` -> _cached_headers)
M('c11-accept-from-memoised-headers-copy', 'C11', 'R19', RQ, _ACC_W, "        return self.headers.get('ACCEPT') or '*/*'\n", also=('C06',))
# negative controls (exit 0): `self.get_header('Accept') or '*/*'`; `self.env.get('HTTP_ACCEPT') or '*/*'`; the value through a local;
# (exit 2, not 1) a new `_cached_netloc` slot that negotiation does not read


# ---- second preserving wave (k2-c11-1/2/3): "refactoring + break" mutants
# k2-c11-2 extracted the two cache_clear() statements into Handlers._invalidate_resolver_cache(); R3 looks through the helper.
_SET_CLEAR = ("        #   cached handler from the previous mapping, in case it was\n        #   replaced.\n"
              "        self._resolve.cache_clear()  # type: ignore[attr-defined]\n")
_DEL_CLEAR = ("        #   to a cached handler that was removed.\n        self._resolve.cache_clear()  # type: ignore[attr-defined]\n")
_HELPER = ("\n    def _invalidate_resolver_cache(self) -> None:\n        self._resolve.cache_clear()  # type: ignore[attr-defined]\n")
# the helper exists and __setitem__ calls it, __delitem__ forgot to
M2('c11-k2-clear-helper-not-called-by-delitem', 'C11', 'R3', [
    {'file': HD, 'old': _SET_CLEAR, 'new': "        #   replaced.\n        self._invalidate_resolver_cache()\n"},
    {'file': HD, 'old': _DEL_CLEAR, 'new': "        #   to a cached handler that was removed.\n" + _HELPER}])
# both call the helper, but the helper clears on one branch only
M2('c11-k2-clear-helper-clears-conditionally', 'C11', 'R3', [
    {'file': HD, 'old': _SET_CLEAR, 'new': "        #   replaced.\n        self._invalidate_resolver_cache()\n"},
    {'file': HD, 'old': _DEL_CLEAR, 'new': "        #   to a cached handler that was removed.\n        self._invalidate_resolver_cache()\n"
     "\n    def _invalidate_resolver_cache(self) -> None:\n        if self.data:\n            self._resolve.cache_clear()  # type: ignore[attr-defined]\n"}])
# the helper returns before it clears
M2('c11-k2-clear-helper-returns-early', 'C11', 'R3', [
    {'file': HD, 'old': _SET_CLEAR, 'new': "        #   replaced.\n        self._invalidate_resolver_cache()\n"},
    {'file': HD, 'old': _DEL_CLEAR, 'new': "        #   to a cached handler that was removed.\n        self._invalidate_resolver_cache()\n"
     "\n    def _invalidate_resolver_cache(self) -> None:\n        return\n        self._resolve.cache_clear()  # type: ignore[attr-defined]\n"}])
# negative controls (silent, preserving/k2-c11-2): both dunders call the helper; the helper calls a second helper that clears (depth 2)

# k2-c11-3 named the wildcard literals (_WILDCARD = '*', _ANY_MEDIA_TYPE = '*/*'); R1 / R16 / R4 / R11 / R13 read a module-level
# name bound once to a literal as its value.
_CONSTS = {'file': MT, 'old': "\n\ndef _parse_param_old_stdlib", 'new': "\n_WILDCARD = '*'\n_ANY_MEDIA_TYPE = '*/*'\n\n\ndef _parse_param_old_stdlib"}
# constants + the candidate-side wildcard test of the main type lost
M2('c11-k2-wildcard-constant-candidate-side-dropped', 'C11', 'R1', [
    _CONSTS,
    {'file': MT, 'old': "        if self.main_type == '*' or media_type.main_type == '*':\n", 'new': "        if self.main_type == _WILDCARD:\n"},
    {'file': MT, 'old': "        if self.subtype == '*' or media_type.subtype == '*':\n",
     'new': "        if self.subtype == _WILDCARD or media_type.subtype == _WILDCARD:\n"}])
# constants + the subtype compared with the wrong constant ('*/*' is never a subtype: the wildcard subtype no longer matches)
M2('c11-k2-wildcard-constant-wrong-constant', 'C11', 'R1', [
    _CONSTS,
    {'file': MT, 'old': "        if self.main_type == '*' or media_type.main_type == '*':\n",
     'new': "        if self.main_type == _WILDCARD or media_type.main_type == _WILDCARD:\n"},
    {'file': MT, 'old': "        if self.subtype == '*' or media_type.subtype == '*':\n",
     'new': "        if self.subtype == _ANY_MEDIA_TYPE or media_type.subtype == _ANY_MEDIA_TYPE:\n"}])
# constants + the lone-wildcard workaround sees the raw (unstripped) member: R16 still finds the test through the constant
M2('c11-k2-wildcard-constant-raw-member', 'C11', 'R16', [
    _CONSTS,
    {'file': MT, 'old': "    if full_type == '*':\n        full_type = '*/*'\n",
     'new': "    if media_type.partition(';')[0] == _WILDCARD:\n        full_type = _ANY_MEDIA_TYPE\n"}])
# the resolver's catch-all named by a constant that holds the wrong text: '*/*' is no longer answered with the default (R4)
M2('c11-k2-resolver-any-constant-wrong-text', 'C11', 'R4', [
    {'file': HD, 'old': "\nclass Handlers(", 'new': "\n_ANY_TYPE = '*'\n\n\nclass Handlers("},
    {'file': HD, 'old': "            if media_type == '*/*' or not media_type:\n", 'new': "            if media_type == _ANY_TYPE or not media_type:\n"}])
# negative controls (silent): preserving/k2-c11-3; `_ANY_TYPE = '*/*'` in handlers.py; `_Q = 'q'` for the three 'q' literals of
# _MediaRange.parse; `_ACCEPT_ANYTHING = '*/*'` in request.py (C04 R8 of c04.py answers exit 2 "free name" there - not a C11 rule)

# k2-c11-1 replaced the parameter-value loop by `if any(<genexp>): return _NOT_MATCHING` and inverted the elif/else arms
_PLOOP = ("        for pname in matching:\n            if self.params[pname] != media_type.params[pname]:\n"
          "                return self._NOT_MATCHING\n")
# any() with the polarity lost
M('c11-k2-any-genexp-negated', 'C11', 'R1', MT, _PLOOP,
  "        if not any(self.params[pname] != media_type.params[pname] for pname in matching):\n            return self._NOT_MATCHING\n")
# the mismatch flag computed by any() but a mismatch only lowers nothing: the real score is still returned
M('c11-k2-any-genexp-mismatch-ignored', 'C11', 'R1', MT, _PLOOP,
  "        mismatch = any(self.params[pname] != media_type.params[pname] for pname in matching)\n        if mismatch:\n            pass\n")
# all(equal) spelled, arms swapped
M('c11-k2-all-genexp-arms-swapped', 'C11', 'R1', MT, _PLOOP,
  "        if all(self.params[pname] == media_type.params[pname] for pname in matching):\n            return self._NOT_MATCHING\n")
# inverted arms of the main-type ladder + the concrete mismatch falls into the matching arm
M('c11-k2-inverted-arms-mismatch-matches', 'C11', 'R1', MT,
  "        elif self.main_type != media_type.main_type:\n            return self._NOT_MATCHING\n        else:\n            main_matches = 1\n",
  "        elif self.main_type == media_type.main_type:\n            main_matches = 1\n        else:\n            main_matches = 0\n")
# negative controls (silent): preserving/k2-c11-1; `mismatch = any(...)` / `if mismatch: return`; `[p for p in matching if a != b]` truthy -> return;
# `if not all(a == b for ...): return`

# ----------------------------------------------------------------------- third preserving wave (k3): refactoring + break
# k3-c11-2: the ranking key is a module-level one-return function (read like the lambda); broken: it picks the candidate text
M2('c11-k3-key-function-ranks-by-name-wired', 'C11', 'R1', [
    {'file': MT, 'old': "def best_match(media_types: Iterable[str], header: str) -> str:\n",
     'new': "def _quality_of(mt_quality):\n    return mt_quality[0]\n\n\ndef best_match(media_types: Iterable[str], header: str) -> str:\n"},
    {'file': MT, 'old': "            key=lambda mt_quality: mt_quality[1],\n", 'new': "            key=_quality_of,\n"}])
# k3-c12-3: `return _UNRESOLVED` (module-level `(None, None, None)`) is the all-None answer; broken: it is returned for a
# non-empty requested type only, otherwise the resolver falls through to the handler lookup
M2('c11-k3-unresolved-constant-returned-conditionally', 'C11', 'R4', [
    {'file': HD, 'old': "class ResolverMethod(Protocol):\n", 'new': "_UNRESOLVED = (None, None, None)\n\n\nclass ResolverMethod(Protocol):\n"},
    {'file': HD, 'old': "                    return None, None, None\n",
     'new': "                    if raise_not_found is None:\n                        return _UNRESOLVED\n"}], also=('C12', 'C04', 'C19'))
M2('c11-k3-unresolved-constant-holds-a-handler-slot', 'C11', 'R4', [
    {'file': HD, 'old': "class ResolverMethod(Protocol):\n", 'new': "_UNRESOLVED = (None, None, 0)\n\n\nclass ResolverMethod(Protocol):\n"},
    {'file': HD, 'old': "                    return None, None, None\n", 'new': "                    return _UNRESOLVED\n"}], also=('C12', 'C04', 'C19'))
# k3-c11-4: `data = self.data` bound once inside resolve() is the mapping; broken: the exact lookup through it asks about the default
_K3_DATA = [
    {'file': HD, 'old': "                media_type = default\n\n", 'new': "                media_type = default\n\n            data = self.data\n\n"},
    {'file': HD, 'old': "tuple(self.data.keys())", 'new': "tuple(data)"},
    {'file': HD, 'old': "                handler = self.data[matched_type]\n", 'new': "                handler = data[matched_type]\n"}]
M2('c11-k3-data-local-exact-lookup-of-default', 'C11', 'R4', _K3_DATA + [
    {'file': HD, 'old': "                handler = self.data[media_type]\n", 'new': "                handler = data[default]\n"}], also=('C12', 'C04', 'C19'))
M2('c11-k3-data-local-bestmatch-on-hit', 'C11', 'R4', _K3_DATA + [
    {'file': HD, 'old': "                handler = self.data[media_type]\n", 'new': "                handler = data[media_type]\n"},
    {'file': HD, 'old': "            if not handler:\n", 'new': "            if handler:\n"}], also=('C12', 'C04', 'C19'))


# ---- wave 11: R18 reads the str.find() hop shape of the splitter (seeded change s11-c11-2): a DQUOTE found inside the quoted
# string closes it exactly when the run of backslashes in front of it is even; the closing decision is evaluated per run length
_SPLIT_CHARLOOP = """    start = 0
    quoted = False
    escaped = False
    for pos, char in enumerate(header):
        if escaped:
            escaped = False
        elif quoted and char == '\\\\':
            escaped = True
        elif char == '"':
            quoted = not quoted
        elif char == ',' and not quoted:
            media_ranges.append(header[start:pos])
            start = pos + 1
"""


def _hops(closer, skip="            pos = quote + 1\n            continue\n"):
    return ("    find = header.find\n    start = pos = 0\n    quoted = False\n    while True:\n        quote = find('\"', pos)\n\n"
            "        if quoted:\n            if quote < 0:\n                break\n" + closer + skip +
            "\n        comma = find(',', pos)\n        if comma < 0:\n            break\n\n"
            "        if 0 <= quote < comma:\n            quoted = True\n            pos = quote + 1\n        else:\n"
            "            media_ranges.append(header[start:comma])\n            start = pos = comma + 1\n\n")


_PARITY_OK = ("            text = header[pos:quote]\n            if (len(text) - len(text.rstrip('\\\\'))) % 2 == 0:\n"
              "                quoted = False\n")
# the seed: the single character in front of the DQUOTE ("C:\\dir\\" is never closed)
M('c11-w11-hops-close-by-previous-character', 'C11', 'R18', MT, _SPLIT_CHARLOOP,
  _hops("            if header[quote - 1] != '\\\\':\n                quoted = False\n"))
# variants: a wider fixed window; endswith(); the run counted but compared with 0; the parity with the wrong polarity; no test at all
M('c11-w11-hops-close-by-two-character-window', 'C11', 'R18', MT, _SPLIT_CHARLOOP,
  _hops("            if header[quote - 1] != '\\\\' or header[quote - 2:quote] == '\\\\\\\\':\n                quoted = False\n"))
M('c11-w11-hops-close-by-endswith', 'C11', 'R18', MT, _SPLIT_CHARLOOP,
  _hops("            if not header[:quote].endswith('\\\\'):\n                quoted = False\n"))
M('c11-w11-hops-close-when-run-is-empty', 'C11', 'R18', MT, _SPLIT_CHARLOOP,
  _hops("            text = header[pos:quote]\n            if len(text) - len(text.rstrip('\\\\')) == 0:\n                quoted = False\n"))
M('c11-w11-hops-parity-flipped', 'C11', 'R18', MT, _SPLIT_CHARLOOP,
  _hops("            text = header[pos:quote]\n            if (len(text) - len(text.rstrip('\\\\'))) % 2:\n                quoted = False\n"))
M('c11-w11-hops-close-unconditionally', 'C11', 'R18', MT, _SPLIT_CHARLOOP, _hops("            quoted = False\n"))
# the closing decision is right, but the pass goes on to the comma search while still inside the quoted string
M('c11-w11-hops-cut-while-inside', 'C11', 'R18', MT, _SPLIT_CHARLOOP, _hops(_PARITY_OK, skip="            pos = quote + 1\n"))
# negative controls (exit 0, tried with --root): _hops(_PARITY_OK); the run through a local `s = header[:quote]`; `not n & 1`; a backwards
# counter loop (`k = quote - 1; while k >= pos and header[k] == '\\': n += 1; k -= 1`); `quoted = not quoted` under the parity test;
# `in_quotes = backslashes % 2 == 1` in an if/else nesting without continue; `while pos <= len(header)`; no find alias; a fast path
# `if header[quote - 1] != '\\': quoted = False` in front of the parity test (else arm).  exit 2, not 1: a regular expression on
# header[:quote]; a loop that never closes the quoted string.
