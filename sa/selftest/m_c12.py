"""Mutation operators for C12 (media round trip, parse at most once)."""

from .mutants import M, M2

RQ = 'falcon/request.py'
AR = 'falcon/asgi/request.py'
JS = 'falcon/media/json.py'
UE = 'falcon/media/urlencoded.py'
RS = 'falcon/response.py'
ARS = 'falcon/asgi/response.py'
AA = 'falcon/asgi/app.py'

# ----------------------------------------------------------------------- R1
M('c12-wsgi-default-before-storing-error', 'C12', 'R1', RQ,
  """        except errors.MediaNotFoundError as err:
            self._media_error = err
            if default_when_empty is not _UNSET:
                return default_when_empty
            raise
""", """        except errors.MediaNotFoundError as err:
            if default_when_empty is not _UNSET:
                return default_when_empty
            self._media_error = err
            raise
""")
M('c12-asgi-generic-error-not-stored', 'C12', 'R1', AR,
  """        except Exception as err:
            self._media_error = err
            raise
        finally:
            if handler.exhaust_stream:
                await self.stream.exhaust()
""", """        except Exception:
            raise
        finally:
            if handler.exhaust_stream:
                await self.stream.exhaust()
""")
M('c12-wsgi-finally-dropped', 'C12', 'R1', RQ,
  """            self._media_error = err
            raise
        finally:
            if handler.exhaust_stream:
                self.bounded_stream.exhaust()
""", """            self._media_error = err
            raise
""")
M('c12-asgi-exhaust-only-on-success', 'C12', 'R1', AR,
  """        finally:
            if handler.exhaust_stream:
                await self.stream.exhaust()
""", """        if handler.exhaust_stream:
            await self.stream.exhaust()
""")
M('c12-wsgi-exhaust-unconditional', 'C12', 'R1', RQ,
  """            if handler.exhaust_stream:
                self.bounded_stream.exhaust()
""", """            self.bounded_stream.exhaust()
""")
M('c12-asgi-cached-error-any-default', 'C12', 'R1', AR,
  """            if default_when_empty is not _UNSET and isinstance(
                self._media_error, errors.MediaNotFoundError
            ):
                return default_when_empty
            raise self._media_error

        handler, _, deserialize_sync""", """            if default_when_empty is not _UNSET:
                return default_when_empty
            raise self._media_error

        handler, _, deserialize_sync""")
M('c12-wsgi-default-for-any-error', 'C12', 'R1', RQ,
  """        except Exception as err:
            self._media_error = err
            raise
        finally:
            if handler.exhaust_stream:
                self.bounded_stream.exhaust()
""", """        except Exception as err:
            self._media_error = err
            if default_when_empty is not _UNSET:
                return default_when_empty
            raise
        finally:
            if handler.exhaust_stream:
                self.bounded_stream.exhaust()
""")
M('c12-wsgi-value-not-cached', 'C12', 'R1', RQ,
  """            self._media = handler.deserialize(
                self.bounded_stream, self.content_type, self.content_length
            )
""", """            return handler.deserialize(
                self.bounded_stream, self.content_type, self.content_length
            )
""")
M('c12-asgi-error-check-after-resolve', 'C12', 'R1', AR,
  """        if self._media_error is not None:
            if default_when_empty is not _UNSET and isinstance(
                self._media_error, errors.MediaNotFoundError
            ):
                return default_when_empty
            raise self._media_error

        handler, _, deserialize_sync = self.options.media_handlers._resolve(
            self.content_type, self.options.default_media_type
        )
""", """        handler, _, deserialize_sync = self.options.media_handlers._resolve(
            self.content_type, self.options.default_media_type
        )

        if self._media_error is not None:
            if default_when_empty is not _UNSET and isinstance(
                self._media_error, errors.MediaNotFoundError
            ):
                return default_when_empty
            raise self._media_error
""")
M('c12-wsgi-cached-error-reparsed', 'C12', 'R1', RQ,
  """                return default_when_empty
            raise self._media_error

        handler, _, _ = self.options""", """                return default_when_empty

        handler, _, _ = self.options""")
M('c12-request-media-reset-method', 'C12', 'R1', RQ,
  """    media: Any = property(get_media)
""", """    media: Any = property(get_media)

    def _reset_media(self) -> None:
        self._media = _UNSET
""")
M('c12-wsgi-default-when-unset', 'C12', 'R1', RQ,
  """            self._media_error = err
            if default_when_empty is not _UNSET:
                return default_when_empty
            raise
""", """            self._media_error = err
            return default_when_empty
""")

# refactoring + break (k4-c12-1: the two except arms folded into one `except Exception` with an isinstance test)
_ASGI_TWO_ARMS = """        except errors.MediaNotFoundError as err:
            self._media_error = err
            if default_when_empty is not _UNSET:
                return default_when_empty
            raise
        except Exception as err:
            self._media_error = err
            raise
        finally:
            if handler.exhaust_stream:
                await self.stream.exhaust()
"""
M('c12-asgi-folded-arm-default-before-storing-error', 'C12', 'R1', AR, _ASGI_TWO_ARMS, """        except Exception as err:
            if default_when_empty is _UNSET or not isinstance(
                err, errors.MediaNotFoundError
            ):
                self._media_error = err
                raise
            return default_when_empty
        finally:
            if handler.exhaust_stream:
                await self.stream.exhaust()
""", also=('C06',))
M('c12-asgi-folded-arm-default-for-any-error', 'C12', 'R1', AR, _ASGI_TWO_ARMS, """        except Exception as err:
            self._media_error = err
            if default_when_empty is _UNSET:
                raise
            return default_when_empty
        finally:
            if handler.exhaust_stream:
                await self.stream.exhaust()
""", also=('C06',))

# ----------------------------------------------------------------------- R2
M('c12-json-wrong-except', 'C12', 'R2', JS, "        except ValueError as err:\n", "        except TypeError as err:\n", also=('C04',))
M('c12-json-empty-not-detected', 'C12', 'R2', JS,
  """        if not data:
            raise errors.MediaNotFoundError('JSON')
""", "")
M('c12-json-empty-is-malformed', 'C12', 'R2', JS,
  "            raise errors.MediaNotFoundError('JSON')\n", "            raise errors.MediaMalformedError('JSON')\n")
M('c12-json-async-bypasses-mapping', 'C12', 'R2', JS,
  "        return self._deserialize(await stream.read())\n", "        return self._loads((await stream.read()).decode())\n")
M('c12-urlencoded-narrow-except', 'C12', 'R2', UE, "        except Exception as err:\n", "        except KeyError as err:\n", also=('C04',))
M('c12-urlencoded-decode-outside-try', 'C12', 'R2', UE,
  """        try:
            # NOTE(kgriffs): According to""", """        body_str = body.decode('ascii')
        try:
            # NOTE(kgriffs): According to""", also=('C04',))
M('c12-malformed-not-400', 'C12', 'R2', 'falcon/errors.py',
  "class MediaMalformedError(HTTPBadRequest):", "class MediaMalformedError(HTTPUnprocessableEntity):", also=('C04', 'C13'))
M('c12-json-not-found-only-if-none', 'C12', 'R2', JS,
  "        if not data:\n            raise errors.MediaNotFoundError('JSON')", "        if data is None:\n            raise errors.MediaNotFoundError('JSON')")

# ----------------------------------------------------------------------- R3
M('c12-json-serialize-ascii', 'C12', 'R3', JS,
  """    def _serialize_s(self, media: Any, content_type: Optional[str] = None) -> bytes:
        return self._dumps(media).encode()""", """    def _serialize_s(self, media: Any, content_type: Optional[str] = None) -> bytes:
        return self._dumps(media).encode('ascii')""")
M('c12-json-deserialize-ascii', 'C12', 'R3', JS, "return self._loads(data.decode())", "return self._loads(data.decode('ascii'))")
M('c12-json-async-serialize-latin1', 'C12', 'R3', JS,
  """    ) -> bytes:
        return self._dumps(media).encode()  # type: ignore[union-attr]

    # NOTE(kgriffs): Make content_type a kwarg to support the
    #   Request.render_body() shortcut optimization.
    def _serialize_b""", """    ) -> bytes:
        return self._dumps(media).encode('latin-1')  # type: ignore[union-attr]

    # NOTE(kgriffs): Make content_type a kwarg to support the
    #   Request.render_body() shortcut optimization.
    def _serialize_b""")
M('c12-json-deserialize-lenient', 'C12', 'R3', JS, "return self._loads(data.decode())", "return self._loads(data.decode('utf-8', 'replace'))")
# R3, loader-argument clause (s-c12-2 ... s7-c12-3, s11-c12-1): every JSON loader call on the deserialisation path gets decoded text
M('c12-json-loads-raw-bytes', 'C12', 'R3', JS, "return self._loads(data.decode())", "return self._loads(data)")
M('c12-json-stdlib-fast-path-raw-bytes', 'C12', 'R3', JS, "            return self._loads(data.decode())",
  "            if self._loads is json.loads:\n                return json.loads(data)\n            return self._loads(data.decode())")
M('c12-json-loader-alias-raw-on-large-bodies', 'C12', 'R3', JS, "            return self._loads(data.decode())",
  "            loads = self._loads\n            if len(data) > 4096:\n                return loads(memoryview(data))\n            return loads(data.decode())")
M('c12-json-text-rebound-on-one-branch', 'C12', 'R3', JS, "            return self._loads(data.decode())",
  "            text = data if data[:1] in (b'{', b'[') else data.decode()\n            return self._loads(text)")
M('c12-json-helper-gets-raw-bytes', 'C12', 'R3', JS,
  """            return self._loads(data.decode())
        except ValueError as err:
            raise errors.MediaMalformedError('JSON') from err
""", """            return self._parse(data)
        except ValueError as err:
            raise errors.MediaMalformedError('JSON') from err

    def _parse(self, raw):
        return json.loads(raw) if self._loads is json.loads else self._loads(raw.decode())
""")
M('c12-json-deserialize-stream-to-json-load', 'C12', 'R3', JS, "        return self._deserialize(stream.read())",
  """        if self._loads is json.loads:
            try:
                return json.load(stream)
            except ValueError as err:
                raise errors.MediaMalformedError('JSON') from err
        return self._deserialize(stream.read())""")
M('c12-json-shortcut-slot-bound-to-loader', 'C12', 'R3', JS, "            self._deserialize_sync = self._deserialize",
  "            self._deserialize_sync = self._loads", also=('C08',))
M('c12-urlencoded-no-doseq', 'C12', 'R3', UE, "urlencode(media, doseq=True)", "urlencode(media, doseq=False)")
M('c12-urlencoded-serialize-utf16', 'C12', 'R3', UE, "urlencode(media, doseq=True).encode()", "urlencode(media, doseq=True).encode('utf-16')")
M('c12-urlencoded-deserialize-utf16', 'C12', 'R3', UE, "body_str = body.decode('ascii')", "body_str = body.decode('utf-16')")

# ----------------------------------------------------------------------- R4
M('c12-media-setter-no-reset', 'C12', 'R4', RS,
  """        self._media = value
        self._media_rendered = _UNSET
""", """        self._media = value
""")
M('c12-media-setter-reset-only-for-none', 'C12', 'R4', RS,
  """        self._media = value
        self._media_rendered = _UNSET
""", """        self._media = value
        if value is None:
            self._media_rendered = _UNSET
""")
M('c12-data-setter-clears-media', 'C12', 'R4', RS,
  """    def data(self, value: Optional[bytes]) -> None:
        self._data = value
""", """    def data(self, value: Optional[bytes]) -> None:
        self._data = value
        self._media = None
""")
M('c12-wsgi-render-ignores-cache', 'C12', 'R4', RS,
  "                if self._media_rendered is _UNSET:\n", "                if self._media_rendered is not None:\n")
M('c12-asgi-render-inverted', 'C12', 'R4', ARS,
  "                if self._media_rendered is _UNSET:\n", "                if self._media_rendered is not _UNSET:\n")
M('c12-app-inline-render-not-cached', 'C12', 'R4', AA,
  "                                resp._media_rendered = serialize_sync(resp._media)\n",
  "                                data = serialize_sync(resp._media)\n")
M('c12-asgi-render-returns-media', 'C12', 'R4', ARS,
  "                data = self._media_rendered\n", "                data = self._media\n")
M('c12-app-inline-render-always', 'C12', 'R4', AA,
  "                        if resp._media_rendered is _UNSET:\n", "                        if resp._media is not None:\n")

M('c12-media-setter-identity-shortcut', 'C12', 'R4', 'falcon/response.py',
  """    def media(self, value: Any) -> None:
        self._media = value
        self._media_rendered = _UNSET
""", """    def media(self, value: Any) -> None:
        if value is not self._media:
            self._media = value
            self._media_rendered = _UNSET
""")

# ---- wave 5: R6 the form serializer's quoting function escapes '%' unconditionally (s5-c12-3)
UE = 'falcon/media/urlencoded.py'
_UE_IMPORT = "from urllib.parse import urlencode\n"
_UE_CALL = "        return urlencode(media, doseq=True).encode()\n"
_UE_CLASS = "\n\nclass URLEncodedFormHandler(BaseHandler):"
# the seed: str names/values go through encode_value_check_escaped ("do not escape twice")
M2('c12-form-quote-via-check-escaped-helper', 'C12', 'R6', [
    {'file': UE, 'old': _UE_IMPORT, 'new': "from urllib.parse import quote_plus\n" + _UE_IMPORT + "from falcon.util.uri import encode_value_check_escaped\n"},
    {'file': UE, 'old': _UE_CLASS, 'new': """

def _quote_field(field, safe='', encoding=None, errors=None):
    if isinstance(field, str):
        return encode_value_check_escaped(field)

    return quote_plus(field, safe)
""" + _UE_CLASS},
    {'file': UE, 'old': _UE_CALL, 'new': "        return urlencode(media, doseq=True, quote_via=_quote_field).encode()\n"}])
# variant: the heuristic encoder reached through the public falcon.uri alias, in a lambda
M2('c12-form-quote-via-lambda-check-escaped', 'C12', 'R6', [
    {'file': UE, 'old': _UE_IMPORT, 'new': "from falcon import uri as _uri\n" + _UE_IMPORT},
    {'file': UE, 'old': _UE_CALL,
     'new': "        return urlencode(media, doseq=True, quote_via=lambda s, *a: _uri.encode_check_escaped(s)).encode()\n"}])
# variant: '%' exempted from escaping
M('c12-form-percent-declared-safe', 'C12', 'R6', UE, _UE_CALL, "        return urlencode(media, doseq=True, safe='%').encode()\n")
# variant: keys are "normalised" with a heuristic encoder before urlencode quotes them
M2('c12-form-keys-pre-encoded-check-escaped', 'C12', 'R6', [
    {'file': UE, 'old': _UE_IMPORT, 'new': _UE_IMPORT + "from falcon.util.uri import encode_value_check_escaped\n"},
    {'file': UE, 'old': _UE_CALL,
     'new': "        media = [(encode_value_check_escaped(k), v) for k, v in dict(media).items()]\n        return urlencode(media, doseq=True, safe='%').encode()\n"}])

# ----------------------------------------------------------------------- R7 (seeded s6-c12-2)
# "raise on invalid UTF-8" by sniffing U+FFFD in the percent-decoded text: U+FFFD is a legitimate character
_UE_PARSE = """            body_str = body.decode('ascii')
            return parse_query_string(
                body_str, keep_blank=self._keep_blank, csv=self._csv
            )
"""
M2('c12-form-reject-replacement-char', 'C12', 'R7', [
    {'file': UE, 'old': _UE_IMPORT, 'new': "from falcon.util.uri import decode\n" + _UE_IMPORT},
    {'file': UE, 'old': _UE_PARSE, 'new': """            body_str = body.decode('ascii')
            if '%' in body_str and '\\ufffd' in decode(body_str):
                raise ValueError('percent-encoded octets are not valid UTF-8')
            return parse_query_string(
                body_str, keep_blank=self._keep_blank, csv=self._csv
            )
"""}])
# variant: the parsed result is inspected value by value
M('c12-form-reject-control-chars-in-values', 'C12', 'R7', UE, _UE_PARSE, """            body_str = body.decode('ascii')
            result = parse_query_string(
                body_str, keep_blank=self._keep_blank, csv=self._csv
            )
            for value in result.values():
                if '\\x00' in value:
                    raise ValueError('NUL in form value')
            return result
""")
# variant: a pattern test on the decoded text, through a helper of the class
M2('c12-form-reject-by-pattern-in-helper', 'C12', 'R7', [
    {'file': UE, 'old': _UE_IMPORT, 'new': "import re\n\nfrom falcon.util.uri import decode\n" + _UE_IMPORT},
    {'file': UE, 'old': _UE_PARSE, 'new': """            body_str = body.decode('ascii')
            self._check_text(decode(body_str))
            return parse_query_string(
                body_str, keep_blank=self._keep_blank, csv=self._csv
            )
"""},
    {'file': UE, 'old': "    def _deserialize(self, body: bytes) -> Any:\n", 'new': """    def _check_text(self, text):
        if re.search('[\\ufffd\\ufffe\\uffff]', text):
            raise ValueError('suspicious characters')

    def _deserialize(self, body: bytes) -> Any:
"""}])
# variant: an empty form is refused (the parsed result's truthiness decides)
M('c12-form-reject-empty-mapping', 'C12', 'R7', UE, _UE_PARSE, """            body_str = body.decode('ascii')
            result = parse_query_string(
                body_str, keep_blank=self._keep_blank, csv=self._csv
            )
            assert result, 'no fields'
            return result
""")

# ----------------------------------------------------------------------- R6 per configuration (seeded s7-c12-1): with the
# non-default csv=True the same handler's reader splits values on ',' - a `safe` that exempts it breaks the round trip
M('c12-form-comma-safe-when-csv', 'C12', 'R6', UE, _UE_CALL,
  "        return urlencode(media, doseq=True, safe=',' if self._csv else '').encode()\n")
M('c12-form-comma-safe-always', 'C12', 'R6', UE, _UE_CALL, "        return urlencode(media, doseq=True, safe=',').encode()\n")
M('c12-form-comma-safe-through-local', 'C12', 'R6', UE, _UE_CALL,
  "        safe = self._csv and ',' or ''\n        return urlencode(media, doseq=True, safe=safe).encode()\n")
M2('c12-form-comma-safe-in-quoting-lambda', 'C12', 'R6', [
    {'file': UE, 'old': "from urllib.parse import urlencode\n", 'new': "from urllib.parse import quote_plus\nfrom urllib.parse import urlencode\n"},
    {'file': UE, 'old': _UE_CALL,
     'new': "        return urlencode(media, doseq=True, quote_via=lambda s, safe, enc, err: "
            "quote_plus(s, ',' if self._csv else '', enc, err)).encode()\n"}])
# negative controls verified by hand with --root (silent): `safe='' if self._csv else ','` (the comma is literal only when the
# reader does not split on it), `safe='~' if self._keep_blank else ''`, `safe=','` with the reader's csv argument dropped
# (parse_query_string's default: no splitting); `safe=self._safe_chars` (not a boolean constructor option) is exit 2

# R8 serializer slots without a working class-level fallback are bound on every constructor path (sa-am01511)
JS = 'falcon/media/json.py'
M('c12-json-bytes-dumps-leaves-serialize-unbound', 'C12', 'R8', JS,
  "            self.serialize = self._serialize_b  # type: ignore[method-assign]\n", "")
M('c12-json-str-dumps-leaves-serialize-unbound', 'C12', 'R8', JS,
  "            self.serialize = self._serialize_s  # type: ignore[method-assign]\n", "")
M('c12-json-serialize-bound-only-when-not-subclassed', 'C12', 'R8', JS,
  "        else:\n            self.serialize = self._serialize_b  # type: ignore[method-assign]\n",
  "        elif type(self) is JSONHandler:\n            self.serialize = self._serialize_b  # type: ignore[method-assign]\n")
M2('c12-json-serialize-never-bound', 'C12', 'R8', [
    {'file': JS, 'old': "            self.serialize = self._serialize_b  # type: ignore[method-assign]\n", 'new': ""},
    {'file': JS, 'old': "            self.serialize = self._serialize_s  # type: ignore[method-assign]\n", 'new': ""},
    {'file': JS, 'old': "            self._serialize_sync = self.serialize\n", 'new': "            self._serialize_sync = self._serialize_s\n"}])
# preserving/k3-c12-2 (the probe-and-bind block moved into a same-class helper called from __init__) is read through the helper:
# silent as is; with the bytes arm's serialize binding dropped inside the helper the slot is unbound on that path again
_K3_OLD = """        # PERF(kgriffs): Test dumps once up front so we can set the
        #     proper serialize implementation.
        result = self._dumps({'message': 'Hello World'})
        if isinstance(result, str):
            self.serialize = self._serialize_s  # type: ignore[method-assign]
            self.serialize_async = self._serialize_async_s  # type: ignore[method-assign]
        else:
            self.serialize = self._serialize_b  # type: ignore[method-assign]
            self.serialize_async = self._serialize_async_b  # type: ignore[method-assign]

        # NOTE(kgriffs): To be safe, only enable the optimized protocol when
        #   not subclassed.
        if type(self) is JSONHandler:
            self._serialize_sync = self.serialize
            self._deserialize_sync = self._deserialize
"""
_K3_NEW = """        self._bind_serializers()

        if type(self) is JSONHandler:
            self._serialize_sync = self.serialize
            self._deserialize_sync = self._deserialize

    def _bind_serializers(self) -> None:
        result = self._dumps({'message': 'Hello World'})
        if isinstance(result, str):
            self.serialize = self._serialize_s  # type: ignore[method-assign]
            self.serialize_async = self._serialize_async_s  # type: ignore[method-assign]
        else:
%s            self.serialize_async = self._serialize_async_b  # type: ignore[method-assign]
"""
M('c12-k3-helper-bound-slots-bytes-arm-dropped', 'C12', 'R8', JS, _K3_OLD, _K3_NEW % '', also=('C19',))
M('c12-k3-helper-bound-slots-bytes-arm-conditional', 'C12', 'R8', JS, _K3_OLD,
  _K3_NEW % "            if type(self) is JSONHandler:\n                self.serialize = self._serialize_b\n", also=('C19',))
M('c12-k3-helper-never-called', 'C12', 'R8', JS, _K3_OLD, _K3_NEW.replace("        self._bind_serializers()\n\n", "") %
  "            self.serialize = self._serialize_b\n", also=('C19',))
# negative controls (exit 0): serialize_async left to the base class in one arm (it delegates to serialize); the two arms swapped with the test
# negated; `self.serialize = self._serialize_s if isinstance(result, str) else self._serialize_b`; a class-level `def serialize` dispatching on a flag

# R4 (shared as C05 R8): the render sites may hold the rendition in a local first and store it into the cache once afterwards
# (negative control, exit 0 for C12 and C05: `rendered = handler.serialize(self._media, self.content_type)` / `rendered = serialize_sync(..)` else
# `rendered = await handler.serialize_async(..)`, then `self._media_rendered = rendered`, with `data = rendered` or `data = self._media_rendered`,
# in Response.render_body, asgi.Response.render_body and the inlined copy in asgi.App.__call__).  Still reported: the local never stored,
# stored on one branch only, or overwritten before the store.
RS = 'falcon/response.py'
RB = ("                    self._media_rendered = handler.serialize(\n                        self._media, self.content_type\n"
      "                    )\n\n                data = self._media_rendered\n")
M('c12-rendition-held-in-local-never-cached', 'C12', 'R4', RS, RB,
  "                    rendered = handler.serialize(self._media, self.content_type)\n                    data = rendered\n"
  "                else:\n                    data = self._media_rendered\n", also=('C05',))
M('c12-rendition-cached-only-when-truthy', 'C12', 'R4', RS, RB,
  "                    rendered = handler.serialize(self._media, self.content_type)\n                    if rendered:\n"
  "                        self._media_rendered = rendered\n                    data = rendered\n"
  "                else:\n                    data = self._media_rendered\n", also=('C05',))

# ---- wave 9: R9 the sync shortcut slots only under an exact-type test (s9-c12-1)
UE = 'falcon/media/urlencoded.py'
UG = "        if type(self) is URLEncodedFormHandler:\n"
# the seed: "serialize / deserialize not overridden" forgets the coroutines the slots replace
M('c12-form-shortcut-guard-forgets-coroutines', 'C12', 'R9', UE, UG,
  "        cls = type(self)\n        if (\n            cls.serialize is URLEncodedFormHandler.serialize\n"
  "            and cls.deserialize is URLEncodedFormHandler.deserialize\n        ):\n")
# variant: isinstance() is true for every subclass
M('c12-form-shortcut-guard-isinstance', 'C12', 'R9', UE, UG, "        if isinstance(self, URLEncodedFormHandler):\n")
# variant: the JSON handler, guard on one coroutine only (the serializer slot replaces serialize_async -> serialize)
M('c12-json-shortcut-guard-one-coroutine', 'C12', 'R9', 'falcon/media/json.py',
  "        if type(self) is JSONHandler:\n", "        if type(self).deserialize_async is JSONHandler.deserialize_async:\n")
# negative controls (exit 0): the guard covering all four public methods; `self.__class__ is C`; `C == type(self)`;
# `if type(self) is not C: return` in front; `else: self._x_sync = None`

# ---- wave 9: R10 deserialize_async parses the whole body once (s9-c12-2)
UDA = "        return self._deserialize(await stream.read())\n"
# the seed: chunk-wise parsing merged with dict.update()
M('c12-form-async-parses-chunkwise', 'C12', 'R10', UE, UDA, """        form: dict = {}
        pending = b''
        async for chunk in stream:
            fields, sep, pending = (pending + chunk).rpartition(b'&')
            if sep:
                form.update(self._deserialize(fields))
        form.update(self._deserialize(pending))
        return form
""")
# variant: a sized read is not the whole body
M('c12-form-async-sized-read', 'C12', 'R10', UE, UDA, "        return self._deserialize(await stream.read(65536))\n")
# variant: the JSON handler parses the first chunk only
M('c12-json-async-first-chunk-only', 'C12', 'R10', 'falcon/media/json.py', UDA,
  "        async for chunk in stream:\n            return self._deserialize(chunk)\n        return self._deserialize(b'')\n")
# negative controls (exit 0): the data through a local; b''.join(chunks) filled by an unconditional append in `async for chunk in stream`;
# b''.join([chunk async for chunk in stream]); `stream.read(None)`
# variant (the shape of s10-c12-3): the chunks are decoded one by one before they are joined
M('c12-json-async-decodes-chunkwise', 'C12', 'R10', 'falcon/media/json.py', UDA,
  "        return self._deserialize(''.join([chunk.decode() async for chunk in stream]).encode())\n", also=('C08',))

# ---- wave 10: R1 the cached error object is re-raised untouched (seeded change s10-c12-1)
_RERAISE = "            raise self._media_error\n"
M('c12-cached-error-reraised-from-none', 'C12', 'R1', 'falcon/request.py', _RERAISE, "            raise self._media_error from None\n")
M('c12-asgi-cached-error-reraised-from-none', 'C12', 'R1', 'falcon/asgi/request.py', _RERAISE, "            raise self._media_error from None\n")
# variant: through a local, chained to a fresh exception
M('c12-cached-error-rechained-through-local', 'C12', 'R1', 'falcon/request.py', _RERAISE,
  "            err = self._media_error\n            raise err from RuntimeError('media was already consumed')\n")
# negative controls (exit 0): `err = self._media_error` / `raise err`; the "render the media" block of Response.render_body moved into
# `Response._serialize_media()` that returns the rendition (k1-c12-1) or stores it itself


# ---- second preserving wave (k2-c12-2): the render block moved into Response._render_media(), which tests the cache, stores the
# rendition AND returns what the cache holds; render_body does `data = self._render_media()`.  "refactoring + break" mutants:
_RB = ("                if self._media_rendered is _UNSET:\n                    if not self.content_type:\n"
       "                        self.content_type = self.options.default_media_type\n\n"
       "                    handler, _, _ = self.options.media_handlers._resolve(\n"
       "                        self.content_type, self.options.default_media_type\n                    )\n\n"
       "                    self._media_rendered = handler.serialize(\n                        self._media, self.content_type\n                    )\n\n"
       "                data = self._media_rendered\n")
_RB_CALL = "                data = self._render_media()\n"
_REPR = "    def __repr__(self) -> str:\n        return f'<{self.__class__.__name__}: {self.status}>'\n"
_H_HEAD = "    def _render_media(self) -> bytes:\n"
_H_BODY = ("            if not self.content_type:\n                self.content_type = self.options.default_media_type\n\n"
           "            handler, _, _ = self.options.media_handlers._resolve(\n                self.content_type, self.options.default_media_type\n            )\n\n"
           "            self._media_rendered = handler.serialize(self._media, self.content_type)\n\n")
# the helper lost the cache test: every render_body() serializes again
M2('c12-k2-render-helper-without-cache-test', 'C12', 'R4', [
    {'file': 'falcon/response.py', 'old': _RB, 'new': _RB_CALL},
    {'file': 'falcon/response.py', 'old': _REPR, 'new': _H_HEAD + "        if True:\n" + _H_BODY + "        return self._media_rendered\n\n" + _REPR}],
   also=('C05', 'C06'))
# the cache test inverted
M2('c12-k2-render-helper-cache-test-inverted', 'C12', 'R4', [
    {'file': 'falcon/response.py', 'old': _RB, 'new': _RB_CALL},
    {'file': 'falcon/response.py', 'old': _REPR,
     'new': _H_HEAD + "        if self._media_rendered is not _UNSET:\n" + _H_BODY + "        return self._media_rendered\n\n" + _REPR}],
   also=('C05', 'C06'))
# the helper hands back a local read from the cache BEFORE the store: the first render answers the sentinel
M2('c12-k2-render-helper-returns-stale-local', 'C12', 'R4', [
    {'file': 'falcon/response.py', 'old': _RB, 'new': _RB_CALL},
    {'file': 'falcon/response.py', 'old': _REPR,
     'new': _H_HEAD + "        cached = self._media_rendered\n        if cached is _UNSET:\n" + _H_BODY + "        return cached\n\n" + _REPR}],
   also=('C05', 'C06'))
# negative controls (silent for C12 R4 / C05 R8): preserving/k2-c12-2; the helper returning through `rendered = self._media_rendered` bound
# after the store; `cached = self._media_rendered` / `if cached is _UNSET:` as the cache test (in render_body or in the helper) with a
# re-read after the store
