"""Mutation operators for C13 (multipart)."""

from .mutants import M, M2

SYNC = 'falcon/media/multipart.py'
ASGI = 'falcon/asgi/multipart.py'

# ----------------------------------------------------------------- R1 siblings
M('c13-asgi-drop-epilogue-check', 'C13', 'R1', ASGI,
  """                if await stream.peek(2) == b'--':
                    # NOTE(vytas): boundary delimiter + '--' signals the end of
                    #   a multipart form.
                    await stream.read(2)
                    break

""", "")
M('c13-wsgi-skip-line-allows-padding', 'C13', 'R1', SYNC,
  "stream.read_until(_CRLF, 0, consume_delimiter=True)", "stream.read_until(_CRLF, 2, consume_delimiter=True)")
M('c13-asgi-cte-binary-rejected', 'C13', 'R1', ASGI,
  "if name == b'content-transfer-encoding' and value != b'binary':", "if name == b'content-transfer-encoding':")
M('c13-asgi-header-name-case-sensitive', 'C13', 'R1', ASGI,
  """                if sep:
                    name = name.lower()
""", """                if sep:
""")
M('c13-wsgi-epilogue-marker-kept', 'C13', 'R1', SYNC,
  """                    stream.read(2)
                    break
""", """                    break
""")
M('c13-asgi-get-media-no-exhaust', 'C13', 'R1', ASGI,
  """            finally:
                if handler.exhaust_stream:
                    await self.stream.exhaust()
""", """            finally:
                pass
""")

# --------------------------------------------------------------- R2 thresholds
M('c13-wsgi-part-size-gt', 'C13', 'R2', SYNC,
  "if len(self._data) >= max_size:", "if len(self._data) > max_size:")
M('c13-asgi-part-size-cap-is-limit', 'C13', 'R2', ASGI,
  "max_size = self._parse_options.max_body_part_buffer_size + 1", "max_size = self._parse_options.max_body_part_buffer_size")
M2('c13-both-part-size-read-uncapped', 'C13', 'R2', [
    {'file': SYNC, 'old': "self._data = self.stream.read(max_size)", 'new': "self._data = self.stream.read()"},
    {'file': ASGI, 'old': "self._data = await self.stream.read(max_size)", 'new': "self._data = await self.stream.read()"}])
M('c13-wsgi-count-le', 'C13', 'R2', SYNC,
  "if remaining_parts < 0 < self._parse_options.max_body_part_count:",
  "if remaining_parts <= 0 < self._parse_options.max_body_part_count:")
M2('c13-both-count-zero-limit-enforced', 'C13', 'R2', [
    {'file': SYNC, 'old': "if remaining_parts < 0 < self._parse_options.max_body_part_count:",
     'new': "if remaining_parts < 0 <= self._parse_options.max_body_part_count:"},
    {'file': ASGI, 'old': "if remaining_parts < 0 < self._parse_options.max_body_part_count:",
     'new': "if remaining_parts < 0 <= self._parse_options.max_body_part_count:"}])
M2('c13-both-count-init-off-by-one', 'C13', 'R2', [
    {'file': SYNC, 'old': "remaining_parts = self._parse_options.max_body_part_count\n",
     'new': "remaining_parts = self._parse_options.max_body_part_count + 1\n"},
    {'file': ASGI, 'old': "remaining_parts = self._parse_options.max_body_part_count\n",
     'new': "remaining_parts = self._parse_options.max_body_part_count + 1\n"}])
M('c13-asgi-count-step-skipped-for-headerless', 'C13', 'R2', ASGI,
  """            remaining_parts -= 1
""", """            if headers:
                remaining_parts -= 1
""")
M('c13-asgi-headers-size-plus-one', 'C13', 'R2', ASGI,
  "_CRLF_CRLF, max_headers_size, consume_delimiter=True", "_CRLF_CRLF, max_headers_size + 1, consume_delimiter=True")
M2('c13-both-headers-delimiter-optional', 'C13', 'R2', [
    {'file': SYNC, 'old': "_CRLF_CRLF, max_headers_size, consume_delimiter=True", 'new': "_CRLF_CRLF, max_headers_size, consume_delimiter=False"},
    {'file': ASGI, 'old': "_CRLF_CRLF, max_headers_size, consume_delimiter=True", 'new': "_CRLF_CRLF, max_headers_size, consume_delimiter=False"}])

# ------------------------------------------------------- R3 only the parse error
M('c13-wsgi-drop-except-delimiter-headers', 'C13', 'R3', SYNC,
  """            try:
                headers_block = stream.read_until(
                    _CRLF_CRLF, max_headers_size, consume_delimiter=True
                )
            except errors.DelimiterError as err:
                raise MultipartParseError(
                    description='incomplete body part headers'
                ) from err
""", """            headers_block = stream.read_until(
                _CRLF_CRLF, max_headers_size, consume_delimiter=True
            )
""")
M('c13-asgi-except-wrong-class', 'C13', 'R3', ASGI,
  """            except DelimiterError as err:
                raise MultipartParseError(
                    description='unexpected form structure'
                ) from err
""", """            except ValueError as err:
                raise MultipartParseError(
                    description='unexpected form structure'
                ) from err
""")
M2('c13-both-structure-error-ends-form', 'C13', 'R3', [
    {'file': SYNC, 'old': """            except errors.DelimiterError as err:
                raise MultipartParseError(
                    description='unexpected form structure'
                ) from err
""", 'new': """            except errors.DelimiterError:
                break
"""},
    {'file': ASGI, 'old': """            except DelimiterError as err:
                raise MultipartParseError(
                    description='unexpected form structure'
                ) from err
""", 'new': """            except DelimiterError:
                break
"""}])
M('c13-wsgi-get-text-lookup-error-escapes', 'C13', 'R3', SYNC,
  """            return self.data.decode(charset)
        except (ValueError, LookupError) as err:""", """            return self.data.decode(charset)
        except ValueError as err:""")
M('c13-asgi-get-text-decode-error-escapes', 'C13', 'R3', ASGI,
  "        except (ValueError, LookupError) as err:", "        except LookupError as err:")
M('c13-filename-star-unmapped', 'C13', 'R3', SYNC,
  """                try:
                    self._filename = unquote_to_bytes(filename_raw).decode(charset)
                except (ValueError, LookupError) as err:
                    raise MultipartParseError(
                        description='invalid text or charset: {}'.format(charset)
                    ) from err
""", """                self._filename = unquote_to_bytes(filename_raw).decode(charset)
""")
M('c13-secure-filename-unmapped', 'C13', 'R3', SYNC,
  """        try:
            return misc.secure_filename(self.filename or '')
        except ValueError as ex:
            raise MultipartParseError(description=str(ex)) from ex
""", """        return misc.secure_filename(self.filename or '')
""")
M('c13-boundary-unvalidated', 'C13', 'R3', SYNC,
  """        if not 1 <= len(boundary) <= 70:
            raise errors.HTTPInvalidHeader(
                'The boundary parameter must consist of 1 to 70 characters',
                'Content-Type',
            )
""", "")
M('c13-boundary-empty-accepted', 'C13', 'R3', SYNC,
  "if not 1 <= len(boundary) <= 70:", "if not 0 <= len(boundary) <= 70:")
M('c13-boundary-missing-is-keyerror', 'C13', 'R3', SYNC,
  """        try:
            boundary = options['boundary']
        except KeyError:
            raise errors.HTTPInvalidHeader(
                'No boundary specifier found in {!r}'.format(content_type),
                'Content-Type',
            )
""", """        boundary = options['boundary']
""")
M('c13-boundary-validated-before-rstrip', 'C13', 'R3', SYNC,
  """        boundary = boundary.rstrip()

""", "")
M('c13-new-strict-decode-in-iterator', 'C13', 'R3', ASGI,
  "                        headers[name] = value\n", "                        headers[name] = value.decode('ascii').strip().encode()\n")

# -------------------------------------------------------- R4 delimiter evolution
M('c13-wsgi-delimit-dash-boundary', 'C13', 'R4', SYNC,
  "yield BodyPart(stream.delimit(delimiter), headers, self._parse_options)",
  "yield BodyPart(stream.delimit(self._dash_boundary), headers, self._parse_options)")
M('c13-asgi-crlf-every-iteration', 'C13', 'R4', ASGI,
  """                    delimiter = _CRLF + delimiter
                    prologue = False
""", """                    delimiter = _CRLF + delimiter
""")
M2('c13-both-no-crlf-delimiter', 'C13', 'R4', [
    {'file': SYNC, 'old': "                    delimiter = _CRLF + delimiter\n", 'new': "                    delimiter = delimiter\n"},
    {'file': ASGI, 'old': "                    delimiter = _CRLF + delimiter\n", 'new': "                    delimiter = delimiter\n"}])
M2('c13-both-prologue-needs-crlf', 'C13', 'R4', [
    {'file': SYNC, 'old': "        delimiter = self._dash_boundary\n", 'new': "        delimiter = _CRLF + self._dash_boundary\n"},
    {'file': ASGI, 'old': "        delimiter = self._dash_boundary\n", 'new': "        delimiter = _CRLF + self._dash_boundary\n"}])
M2('c13-both-dash-boundary-without-dashes', 'C13', 'R4', [
    {'file': SYNC, 'old': "self._dash_boundary = b'--' + boundary", 'new': "self._dash_boundary = boundary"},
    {'file': ASGI, 'old': "self._dash_boundary = b'--' + boundary", 'new': "self._dash_boundary = boundary"}])

# preserving/k3-c13-1 (prologue flag removed: `part_delimiter = _CRLF + delimiter` computed once before the loop, `delimiter =
# part_delimiter` right after every successful pipe_until) is decided on the values the local holds: silent as is; broken below
_K3_FLAG = """                if prologue:
                    # NOTE(vytas): RFC 7578, section 4.1.
                    #   As with other multipart types, the parts are delimited
                    #   with a boundary delimiter, constructed using CRLF,
                    #   "--", and the value of the "boundary" parameter.
                    delimiter = _CRLF + delimiter
                    prologue = False
"""
_K3_HEAD = "        prologue = True\n        delimiter = self._dash_boundary\n"


def _k3(head, body):
    return [{'file': fn, 'old': old, 'new': new} for fn in (SYNC, ASGI) for old, new in ((_K3_HEAD, head), (_K3_FLAG, body))]


M2('c13-k3-part-delimiter-without-crlf', 'C13', 'R4',
   _k3("        delimiter = self._dash_boundary\n        part_delimiter = delimiter\n", "                delimiter = part_delimiter\n"))
M2('c13-k3-part-delimiter-never-installed', 'C13', 'R4',
   _k3("        delimiter = self._dash_boundary\n        part_delimiter = _CRLF + delimiter\n", "                part_delimiter = part_delimiter\n"))
M2('c13-k3-part-delimiter-doubles-crlf', 'C13', 'R4',
   _k3("        delimiter = self._dash_boundary\n        part_delimiter = _CRLF + delimiter\n", "                delimiter = _CRLF + part_delimiter\n"))

M('c13-parse-header-fast-path-with-quotes', 'C13', 'R8', 'falcon/util/mediatypes.py',
  """    if '"' not in line and '\\\\' not in line:""", """    if '\\\\' not in line:""", also=('C11',))

# ------------------------------------------- R10 name / filename are exactly the parsed Content-Disposition parameters
_NAME = "            self._name = params.get('name')\n"
_FILENAME = "                self._filename = params.get('filename')\n"
M2('c13-names-whatwg-unescaped', 'C13', 'R10', [          # seeded s5-c13-3
    {'file': SYNC, 'old': "_CRLF = b'\\r\\n'\n", 'new': "_CRLF = b'\\r\\n'\n\n\ndef _unescape_whatwg(value):\n    if value and '%' in value:\n"
     "        for escaped, char in (('%22', '\"'), ('%0D', '\\r'), ('%0A', '\\n')):\n            value = value.replace(escaped, char)\n    return value\n"},
    {'file': SYNC, 'old': _NAME, 'new': "            self._name = _unescape_whatwg(params.get('name'))\n"},
    {'file': SYNC, 'old': _FILENAME, 'new': "                self._filename = _unescape_whatwg(params.get('filename'))\n"}])
M('c13-filename-percent-decoded', 'C13', 'R10', SYNC,
  _FILENAME, "                self._filename = unquote_to_bytes(params.get('filename') or '').decode() or None\n")
M('c13-name-stripped-via-local', 'C13', 'R10', SYNC,
  _NAME, "            value = params.get('name')\n            self._name = value.strip() if value else value\n")
M('c13-name-reads-filename-parameter', 'C13', 'R10', SYNC,
  _NAME, "            self._name = params.get('filename')\n")
M('c13-name-defaults-to-empty', 'C13', 'R10', SYNC,
  _NAME, "            self._name = params.get('name', '')\n")
M('c13-content-disposition-latin1', 'C13', 'R10', SYNC,
  "            return parse_header(value.decode())\n", "            return parse_header(value.decode('latin-1'))\n")
M('c13-content-disposition-params-lowercased', 'C13', 'R10', SYNC,
  "            return parse_header(value.decode())\n",
  "            ctype, params = parse_header(value.decode())\n            return ctype, {k: v.lower() for k, v in params.items()}\n")
M('c13-filename-star-groups-swapped', 'C13', 'R10', SYNC,
  "                charset, filename_raw = match.groups()\n", "                filename_raw, charset = match.groups()\n")
M('c13-filename-star-basename-only', 'C13', 'R10', SYNC,
  "                    self._filename = unquote_to_bytes(filename_raw).decode(charset)\n",
  "                    self._filename = unquote_to_bytes(filename_raw).decode(charset).rpartition('/')[2]\n")
M('c13-asgi-name-override-normalises', 'C13', 'R10', ASGI,
  "    async def get_data(self) -> bytes:  # type: ignore[override]\n",
  "    @property\n    def name(self):\n        value = super().name\n        return value.casefold() if value else value\n\n"
  "    async def get_data(self) -> bytes:  # type: ignore[override]\n")

# ----------------------------------------------------------------------- R11 (seeded s6-c13-1)
MTY = 'falcon/util/mediatypes.py'
_PARITY = """        while end > 0 and (s.count('"', 0, end) - s.count('\\\\"', 0, end)) % 2:\n"""
M('c13-quote-parity-third-term', 'C13', 'R11', MTY, _PARITY,
  """        while end > 0 and (s.count('"', 0, end) - s.count('\\\\"', 0, end) + s.count('\\\\\\\\"', 0, end)) % 2:\n""")
M('c13-quote-parity-no-escape-term', 'C13', 'R11', MTY, _PARITY,
  """        while end > 0 and s.count('"', 0, end) % 2:\n""")
M('c13-quote-parity-four-terms', 'C13', 'R11', MTY, _PARITY,
  """        while end > 0 and (s.count('"', 0, end) - s.count('\\\\"', 0, end) + s.count('\\\\\\\\"', 0, end) - s.count('\\\\\\\\\\\\"', 0, end)) & 1:\n""")

# ----------------------------------------------------------------------- R12 (seeded s6-c13-2)
_RX_AFTER = "_FILENAME_STAR_RFC5987 = re.compile(r\"([\\w-]+)'[\\w]*'(.+)\")\n"
_FORM_RET = "        return form_cls(stream, boundary.encode(), content_length, self.parse_options)  # type: ignore[arg-type]\n"
_RX_GUARD = """        if not _BOUNDARY_RFC2046.fullmatch(boundary):
            raise errors.HTTPInvalidHeader(
                'The boundary parameter contains characters that are not allowed',
                'Content-Type',
            )

"""
M2('c13-boundary-regex-min-two', 'C13', 'R12', [
    {'file': SYNC, 'old': _RX_AFTER,
     'new': _RX_AFTER + "_BOUNDARY_RFC2046 = re.compile(\n    r\"[0-9A-Za-z'()+_,\\-./:=? ]{1,69}[0-9A-Za-z'()+_,\\-./:=?]\"\n)\n"},
    {'file': SYNC, 'old': _FORM_RET, 'new': _RX_GUARD + _FORM_RET}])
M2('c13-boundary-regex-max-69', 'C13', 'R12', [
    {'file': SYNC, 'old': _RX_AFTER,
     'new': _RX_AFTER + "_BOUNDARY_RFC2046 = re.compile(r\"[0-9A-Za-z'()+_,\\-./:=? ]{0,68}[0-9A-Za-z'()+_,\\-./:=?]\")\n"},
    {'file': SYNC, 'old': _FORM_RET, 'new': _RX_GUARD + _FORM_RET}])
M2('c13-boundary-regex-match-local-none', 'C13', 'R12', [
    {'file': SYNC, 'old': _RX_AFTER,
     'new': _RX_AFTER + "_BOUNDARY_RFC2046 = re.compile(r\"[0-9A-Za-z'()+_,\\-./:=? ]+[0-9A-Za-z'()+_,\\-./:=?]$\")\n"},
    {'file': SYNC, 'old': _FORM_RET, 'new': """        valid = _BOUNDARY_RFC2046.match(boundary)
        if valid is None:
            raise errors.HTTPInvalidHeader('Invalid boundary', 'Content-Type')

""" + _FORM_RET}])
M('c13-boundary-second-length-test', 'C13', 'R12', SYNC, _FORM_RET, """        if len(boundary) < 2:
            raise errors.HTTPInvalidHeader('The boundary parameter is too short', 'Content-Type')

""" + _FORM_RET)
M('c13-boundary-inner-space-refused', 'C13', 'R12', SYNC, _FORM_RET, """        if ' ' in boundary:
            raise errors.HTTPInvalidHeader('The boundary parameter must not contain white space', 'Content-Type')

""" + _FORM_RET)
# negative controls verified by hand with --root (silent): the correct `{0,69}` pattern; `if '\\r' in boundary or '\\n' in boundary: raise`

# ---------------------------------------------------- R1 (auto-mutation seed sa-am00486): collaborator flags, all public members
_DRAIN_ASGI = "                if handler.exhaust_stream:\n                    await self.stream.exhaust()\n"
_DRAIN_SYNC = "                if handler.exhaust_stream:\n                    self.stream.exhaust()\n"
M('c13-asgi-get-media-drain-flag-inverted', 'C13', 'R1', ASGI, _DRAIN_ASGI,             # the seed's edit
  "                if not (handler.exhaust_stream):\n                    await self.stream.exhaust()\n")
M('c13-wsgi-get-media-drain-else-branch', 'C13', 'R1', SYNC, _DRAIN_SYNC,
  "                if handler.exhaust_stream:\n                    pass\n                else:\n                    self.stream.exhaust()\n")
M('c13-asgi-data-alias-dropped', 'C13', 'R1', ASGI,
  "    data: Awaitable[bytes] = property(get_data)  # type: ignore[assignment]\n", "    data: Awaitable[bytes]\n")
M('c13-asgi-content-type-override-lowercases', 'C13', 'R1', ASGI,
  "    async def get_data(self) -> bytes:  # type: ignore[override]\n",
  "    @property\n    def content_type(self):\n        value = self._headers.get(b'content-type', b'text/plain')\n"
  "        try:\n            return value.decode('ascii').lower()\n        except UnicodeDecodeError as err:\n"
  "            raise MultipartParseError(description='invalid Content-Type header in a body part') from err\n\n"
  "    async def get_data(self) -> bytes:  # type: ignore[override]\n")

# ---------------------------------------------------- R14 drain iff handler.exhaust_stream (both flavours alike: R1 is blind)
M2('c13-both-get-media-drain-flag-inverted', 'C13', 'R14', [
    {'file': SYNC, 'old': _DRAIN_SYNC, 'new': "                if not handler.exhaust_stream:\n                    self.stream.exhaust()\n"},
    {'file': ASGI, 'old': _DRAIN_ASGI, 'new': "                if not handler.exhaust_stream:\n                    await self.stream.exhaust()\n"}])
M2('c13-both-get-media-always-drained', 'C13', 'R14', [
    {'file': SYNC, 'old': _DRAIN_SYNC, 'new': "                self.stream.exhaust()\n"},
    {'file': ASGI, 'old': _DRAIN_ASGI, 'new': "                await self.stream.exhaust()\n"}])
M2('c13-both-get-media-drain-only-on-success', 'C13', 'R14', [
    {'file': SYNC, 'old': "            try:\n                self._media = handler.deserialize(self.stream, self.content_type, None)\n            finally:\n" + _DRAIN_SYNC,
     'new': "            self._media = handler.deserialize(self.stream, self.content_type, None)\n"
            "            if handler.exhaust_stream:\n                self.stream.exhaust()\n"},
    {'file': ASGI, 'old': "            try:\n                self._media = await handler.deserialize_async(\n                    self.stream, self.content_type, None\n"
                          "                )\n            finally:\n" + _DRAIN_ASGI,
     'new': "            self._media = await handler.deserialize_async(self.stream, self.content_type, None)\n"
            "            if handler.exhaust_stream:\n                await self.stream.exhaust()\n"}])

# ---------------------------------------------------- R3 a mapping handler maps (auto-mutation seeds sa-am01565 / sa-am01566)
_CT_RAISE = """        except UnicodeDecodeError as err:
            raise MultipartParseError(
                description='invalid Content-Type header in a body part'
            ) from err
"""
_CD_RAISE = """        except UnicodeDecodeError as err:
            raise MultipartParseError(
                description='invalid Content-Disposition header in a body part'
            ) from err
"""
M('c13-content-type-decode-failure-swallowed', 'C13', 'R3', SYNC, _CT_RAISE, "        except UnicodeDecodeError as err:\n            pass\n")
M('c13-content-disposition-decode-failure-swallowed', 'C13', 'R3', SYNC, _CD_RAISE, "        except UnicodeDecodeError as err:\n            pass\n")
M('c13-content-type-decode-failure-falls-back', 'C13', 'R3', SYNC, _CT_RAISE,
  "        except UnicodeDecodeError:\n            return 'application/octet-stream'\n")
M('c13-content-disposition-decode-failure-empty-params', 'C13', 'R3', SYNC, _CD_RAISE,
  "        except UnicodeDecodeError:\n            return ('form-data', {})\n")
M('c13-asgi-get-text-failure-returns-none', 'C13', 'R3', ASGI,
  """        except (ValueError, LookupError) as err:
            raise MultipartParseError(
                description='invalid text or charset: {}'.format(charset)
            ) from err
""", "        except (ValueError, LookupError):\n            return None\n")
M('c13-filename-star-failure-keeps-raw', 'C13', 'R3', SYNC,
  """                except (ValueError, LookupError) as err:
                    raise MultipartParseError(
                        description='invalid text or charset: {}'.format(charset)
                    ) from err
""", "                except (ValueError, LookupError):\n                    self._filename = filename_raw\n")

# ---------------------------------------------------- R13 documented defaults (auto-mutation seeds sa-am01556.. / sa-am01586..)
M('c13-default-part-count-65', 'C13', 'R13', SYNC, "        self.max_body_part_count = 64\n", "        self.max_body_part_count = 65\n")
M('c13-default-part-count-63', 'C13', 'R13', SYNC, "        self.max_body_part_count = 64\n", "        self.max_body_part_count = 63\n")
M('c13-default-headers-size-8191', 'C13', 'R13', SYNC, "        self.max_body_part_headers_size = 8192\n", "        self.max_body_part_headers_size = 8191\n")
M('c13-default-headers-size-8193', 'C13', 'R13', SYNC, "        self.max_body_part_headers_size = 8192\n", "        self.max_body_part_headers_size = 8193\n")
M('c13-default-buffer-size-1023k', 'C13', 'R13', SYNC, "        self.max_body_part_buffer_size = 1024 * 1024\n", "        self.max_body_part_buffer_size = 1023 * 1024\n")
M('c13-default-buffer-size-1025k', 'C13', 'R13', SYNC, "        self.max_body_part_buffer_size = 1024 * 1024\n", "        self.max_body_part_buffer_size = 1024 * 1025\n")
M('c13-default-buffer-size-decimal-megabyte', 'C13', 'R13', SYNC, "        self.max_body_part_buffer_size = 1024 * 1024\n", "        self.max_body_part_buffer_size = 1000 * 1000\n")
M('c13-default-count-doc-changed-code-not', 'C13', 'R13', SYNC, "in the form (default ``64``).", "in the form (default ``128``).")
# negative controls verified by hand with --root (silent): `1 << 20`, `2 ** 20`, `1048576`, a module constant `_MIB = 1024 * 1024`;
# docstring "(default ``1048576``)" / "(default: ``1 MiB``)"; default and docstring changed together (128 / ``128``);
# `if not handler.exhaust_stream: pass / else: exhaust()` in both or one flavour; `h = handler` ... (see fixer report)

# ---------------------------------------------------- R10 (continued): secure_filename sanitises `filename` itself (seeded change s9-c13-3)
_SECURE = "            return misc.secure_filename(self.filename or '')\n"
M('c13-secure-filename-stripped-first', 'C13', 'R10', SYNC, _SECURE, "            return misc.secure_filename((self.filename or '').strip())\n")
M('c13-secure-filename-lowercased-first', 'C13', 'R10', SYNC, _SECURE, "            return misc.secure_filename((self.filename or '').lower())\n")
M('c13-secure-filename-truncated-through-local', 'C13', 'R10', SYNC, _SECURE,
  "            name = self.filename or ''\n            name = name[:64]\n            return misc.secure_filename(name)\n")
M('c13-secure-filename-result-truncated', 'C13', 'R10', SYNC, _SECURE, "            return misc.secure_filename(self.filename or '')[:32]\n")
# negative controls verified by hand with --root (silent): `misc.secure_filename(self.filename)`; `name = self.filename` / `if not name: name = ''`;
# `self.filename if self.filename else ''`; `from falcon.util.misc import secure_filename as _sf` + `_sf(self.filename or '')`; result through a local

# ---------------------------------------------------- R15 / R16 the readers' cursor (shared with C14 R8 / R9; seeded changes s10-c13-1 / s10-c13-3)
_AR = 'falcon/asgi/reader.py'
_SR = 'falcon/util/reader.py'
_FOUND = ("                    self._buffer_pos = offset + pos\n                    # PERF(vytas): local1 + local2 is faster than self._attr\n"
          "                    #   (still true on CPython 3.8)\n                    yield self._buffer[: offset + pos]\n                    return\n")
# the seed: the cursor is moved only after the consumer resumed the generator (a part that is not read to its end leaves it behind)
M('c13-async-straddling-delimiter-cursor-after-yield', 'C13', 'R15', _AR, _FOUND,
  "                    pos += offset\n                    yield self._buffer[:pos]\n                    self._buffer_pos = pos\n                    return\n", also=('C14',))
# variant: the cursor forgets the offset of the searched fragment
M('c13-async-straddling-delimiter-cursor-without-offset', 'C13', 'R15', _AR, _FOUND,
  "                    self._buffer_pos = pos\n                    yield self._buffer[: offset + pos]\n                    return\n", also=('C14',))
# the seed: readline() fabricates the newline and bumps the cursor blindly
M('c13-sync-readline-fabricates-newline', 'C13', 'R16', _SR, "            return result + self.read(1)\n",
  "            self._buffer_pos += 1\n            return result + b'\\n'\n", also=('C14',))
# variant: the bump alone (the newline is then delivered twice)
M('c13-sync-readline-bumps-cursor-and-reads', 'C13', 'R16', _SR, "            return result + self.read(1)\n",
  "            self._buffer_pos += 1\n            return result + self.read(1)\n", also=('C14',))


# ---- second preserving wave (k2-c13-1): `try: boundary = options['boundary'] except KeyError: raise HTTPInvalidHeader` became the
# pre-check `if 'boundary' not in options: raise ...` + the plain subscript; R3 accepts a read dominated by a membership test of the
# same key in the same mapping.  "refactoring + break" mutants:
_EAFP = ("        try:\n            boundary = options['boundary']\n        except KeyError:\n            raise errors.HTTPInvalidHeader(\n"
         "                'No boundary specifier found in {!r}'.format(content_type),\n                'Content-Type',\n            )\n")
_RAISE = ("            raise errors.HTTPInvalidHeader(\n                'No boundary specifier found in {!r}'.format(content_type),\n"
          "                'Content-Type',\n            )\n")
# the pre-check tests another key
M('c13-k2-boundary-precheck-other-key', 'C13', 'R3', SYNC, _EAFP,
  "        if 'Boundary' not in options:\n" + _RAISE + "        boundary = options['boundary']\n")
# the pre-check has the polarity lost (raises when the key IS there; reads it when it is not)
M('c13-k2-boundary-precheck-inverted', 'C13', 'R3', SYNC, _EAFP,
  "        if 'boundary' in options:\n" + _RAISE + "        boundary = options['boundary']\n")
# the key is removed between the test and the read
M('c13-k2-boundary-popped-after-precheck', 'C13', 'R3', SYNC, _EAFP,
  "        if 'boundary' not in options:\n" + _RAISE + "        options.pop('boundary')\n        boundary = options['boundary']\n")
# the pre-check only warns (no raise): the read is not dominated by the "present" edge
M('c13-k2-boundary-precheck-does-not-leave', 'C13', 'R3', SYNC, _EAFP,
  "        if 'boundary' not in options:\n            content_type = content_type.strip()\n        boundary = options['boundary']\n")
# negative controls (silent): preserving/k2-c13-1; `if 'boundary' in options: boundary = options['boundary'] / else: raise`;
# `_BOUNDARY = 'boundary'` local + `if not (_BOUNDARY in options and options[_BOUNDARY]): raise`; `n == 0 or 70 < n`;
# `max_body_part_count > 0 and remaining_parts < 0` in both parsers

# ------------------------- R17 the RFC 5987 extended filename is refused by nothing but the codec (seeded change s11-c13-2)
_DEC = "                    self._filename = unquote_to_bytes(filename_raw).decode(charset)\n"
_CRLF_CONST = "_CRLF = b'\\r\\n'\n"
_CS_SET = "_FILENAME_STAR_CHARSETS = frozenset(['utf-8', 'iso-8859-1'])\n"
_RX5987 = """_FILENAME_STAR_RFC5987 = re.compile(r"([\\w-]+)'[\\w]*'(.+)")"""
# the seed: lower-case allow-list compared case-sensitively (`UTF-8''...` -> 400)
M2('c13-filename-star-charset-allowlist-case-sensitive', 'C13', 'R17', [
    {'file': SYNC, 'old': _CRLF_CONST, 'new': _CS_SET + _CRLF_CONST},
    {'file': SYNC, 'old': _DEC, 'new': "                    if charset not in _FILENAME_STAR_CHARSETS:\n"
                                       "                        raise LookupError('unsupported charset: ' + charset)\n" + _DEC}])
# the same veto as an equality chain, in front of the try (raises the parse error itself)
M('c13-filename-star-charset-equality-veto', 'C13', 'R17', SYNC,
  "                charset, filename_raw = match.groups()\n",
  "                charset, filename_raw = match.groups()\n"
  "                if charset != 'utf-8' and charset != 'iso-8859-1':\n"
  "                    raise MultipartParseError(description='unsupported charset')\n")
# folded, but the allow-list drops iso-8859-1 (RFC 5987 3.2.1 requires both)
M('c13-filename-star-charset-utf8-only', 'C13', 'R17', SYNC, _DEC,
  "                    if charset.lower() != 'utf-8':\n                        raise LookupError(charset)\n" + _DEC)
# the veto sits in the match test: an upper-case label silently falls back to the plain `filename` parameter
M2('c13-filename-star-charset-veto-in-match-test', 'C13', 'R17', [
    {'file': SYNC, 'old': _CRLF_CONST, 'new': _CS_SET + _CRLF_CONST},
    {'file': SYNC, 'old': "            if match:\n", 'new': "            if match and match.group(1) in _FILENAME_STAR_CHARSETS:\n"}])
# the veto sits in a statement helper that is handed the label
M2('c13-filename-star-charset-veto-in-helper', 'C13', 'R17', [
    {'file': SYNC, 'old': _CRLF_CONST, 'new': _CS_SET + _CRLF_CONST + "\n\ndef _check_charset(label):\n    if label not in _FILENAME_STAR_CHARSETS:\n"
                                              "        raise LookupError('unsupported charset: ' + label)\n\n"},
    {'file': SYNC, 'old': _DEC, 'new': "                    _check_charset(charset)\n" + _DEC}])
# the veto sits in the matcher's pattern (case-sensitive alternation)
M('c13-filename-star-pattern-lowercase-charsets', 'C13', 'R17', SYNC, _RX5987,
  """_FILENAME_STAR_RFC5987 = re.compile(r"(utf-8|iso-8859-1)'[\\w]*'(.+)")""")
# negative controls (silent, tried on scratch copies): `charset.lower() not in _FILENAME_STAR_CHARSETS`; `label = charset.casefold()` +
# `label not in ...`; `charset = charset.lower()` rebinding before the test; `charset.upper() not in ('UTF-8', 'ISO-8859-1', ...)`; a
# deny-list `charset.lower() in ('utf-7', 'unicode_escape', 'idna')`; `_check_charset` / `_supported` helpers that fold first;
# `if match is not None and match.group(1).lower() in ...`; pattern `(utf-8|iso-8859-1)` with re.IGNORECASE; `.decode(charset.lower())`;
# a bare `codecs.lookup(charset)` statement.  `codecs.lookup(charset).name not in (...)` is exit 2 (not evaluated).

# ---- R1 refactoring + break (preserving/k4-c13-1): the ASGI per-part header loop extracted into a module-level helper (that alone is
# silent: the helper is read in place of its call) AND the Content-Transfer-Encoding refusal dropped inside the helper
_ASGI_HEADER_LOOP = "            for line in headers_block.split(_CRLF):\n                name, sep, value = line.partition(b': ')\n                if sep:\n                    name = name.lower()\n\n                    # NOTE(vytas): RFC 7578, section 4.5.\n                    #   This use is deprecated for use in contexts that support\n                    #   binary data such as HTTP. Senders SHOULD NOT generate\n                    #   any parts with a Content-Transfer-Encoding header\n                    #   field.\n                    #\n                    #   Currently, no deployed implementations that send such\n                    #   bodies have been discovered.\n                    if name == b'content-transfer-encoding' and value != b'binary':\n                        raise MultipartParseError(\n                            description=(\n                                'the deprecated Content-Transfer-Encoding '\n                                'header field is unsupported'\n                            )\n                        )\n                    # NOTE(vytas): RFC 7578, section 4.8.\n                    #   Other header fields MUST NOT be included and MUST be\n                    #   ignored.\n                    elif name in _ALLOWED_CONTENT_HEADERS:\n                        headers[name] = value\n"
M2('c13-k4-asgi-header-helper-drops-cte-check', 'C13', 'R1', [
    {'file': ASGI, 'old': "class BodyPart(multipart.BodyPart):\n",
     'new': "def _parse_part_headers(headers_block):\n"
            "    headers = {}\n"
            "    for line in headers_block.split(_CRLF):\n"
            "        name, sep, value = line.partition(b': ')\n"
            "        if sep:\n"
            "            name = name.lower()\n"
            "            if name in _ALLOWED_CONTENT_HEADERS:\n"
            "                headers[name] = value\n"
            "    return headers\n\n\n"
            "class BodyPart(multipart.BodyPart):\n"},
    {'file': ASGI, 'old': "            headers = {}\n            try:\n                headers_block = await stream.read_until(",
     'new': "            try:\n                headers_block = await stream.read_until("},
    {'file': ASGI, 'old': _ASGI_HEADER_LOOP, 'new': "            headers = _parse_part_headers(headers_block)\n"},
], also=('C06',))
